(* C01 correspondence, second part: the recorded boundary log is ALSO a behaviour of the product of the C01
   control LTS with the C06 handler LTS and the C07 session-manager LTS (model/C01_Compose.v).

   The log records the abstract proxy actions (outtcp = Outbound.TCP, relay = a chunk arriving at the target,
   outudp = Outbound.UDP, udpwrite = WriteTo).  [lift1] expands each of them into the component actions that
   produce it in the product, looking at the product state for the handler / session concerned:
     TcpDial c addr     the first not yet started handler of c for addr reads its request, finds no hook
                        (the harness configures none) and dials
     TcpRelay c addr n  the first handler of c for addr that has dialed writes the "Connected" response if it
                        has not yet, then its Up loop reads n bytes, has them approved by the traffic logger
                        (the harness configures one: mode Logged) and writes them to the target
     UdpRecv c addr     the session manager takes a queued datagram for addr, misses in the table (a fresh
                        session id), inserts, feeds, dials
     UdpRelay c addr n  the pending WriteTo of that message; or, with no message in flight, a further
                        datagram for addr on an open session: receive, hit, feed, WriteTo
   The product must accept the expanded sequence and make observable exactly what the abstract run does.
   (By proof/C01_Compose.v compose_refines every accepted product run projects to an abstract run; this
   check is the converse on recorded logs: what the real server did is inside the tighter model.) *)
From Hy Require Import gen.ParamsC01 model.C01_ServerAuth corr.C01_Corr model.C01_Compose.
From Hy Require gen.ParamsC06.
From Coq Require Import ZArith.
Local Open Scope N_scope.

Fixpoint find_h (p : hrec -> bool) (l : list hrec) (i : nat) : option (nat * hrec) :=
  match l with
  | [] => None
  | h :: t => if p h then Some (i, h) else find_h p t (S i)
  end.

Definition fresh_handler (addr : str) (h : hrec) : bool :=
  str_eqb addr (h_addr h) && negb (h_dialed h) && match h_pc h with H.HReadReq => true | _ => false end.
Definition relaying_handler (addr : str) (h : hrec) : bool :=
  str_eqb addr (h_addr h) && h_dialed h &&
  match h_pc h with
  | H.HRespOk => true
  | H.HRelay _ s => match R.pU s with R.PRead => true | _ => false end
  | _ => false
  end.

(* an open session of the manager: (session id) of a table entry whose socket exists and is not closed *)
Definition open_session (u : U.state) : option N :=
  match filter (fun p => match U.get u (snd p) with
                         | Some en => match U.e_sock en with Some _ => Nat.eqb (U.e_closes en) 0 | None => false end
                         | None => false
                         end) (U.table u) with
  | (sid, _) :: _ => Some sid
  | [] => None
  end.

Definition zeros (n : N) : list byte := repeat x00 (N.to_nat n).

Definition lift1 (k : kstate) (a : action) : list kaction :=
  match a with
  | TcpDial c addr =>
      match find_h (fresh_handler addr) (k_tcp k c) 0 with
      | Some (i, _) => [KTcp c i addr (H.XReadReq true); KTcp c i addr (H.XCheck false); KTcp c i addr (H.XDial None)]
      | None => [KTcp c 0 addr (H.XDial None)]
      end
  | TcpRelay c addr n =>
      match find_h (relaying_handler addr) (k_tcp k c) 0 with
      | Some (i, h) =>
          (match h_pc h with H.HRespOk => [KTcp c i addr (H.XWriteResp true R.Connected)] | _ => [] end) ++
          [KTcp c i addr (H.XRelay (R.ALoop R.Up (R.LRead ParamsC06.CopyBufSize (zeros n) R.EN)));
           KTcp c i addr (H.XRelay (R.ALoop R.Up (R.LLog n 0 true)));
           KTcp c i addr (H.XRelay (R.ALoop R.Up (R.LWrite (zeros n) (Z.of_N n) R.EN)))]
      | None => [KTcp c 0 addr (H.XPutback [] 0)]
      end
  | UdpRecv c addr =>
      match k_udp k c with
      | Some u =>
          (match U.rl u with U.RWrite _ _ => [KUdp c addr 0 U.ADrop] | _ => [] end) ++
          [KUdp c addr 0 (U.ARecv (U.nsock u) true); KUdp c addr 0 U.ALookup; KUdp c addr 0 U.AInsert;
           KUdp c addr 0 U.AFeed; KUdp c addr 0 (U.ADial true)]
      | None => [KUdp c addr 0 (U.ADial true)]
      end
  | UdpRelay c addr n =>
      match k_udp k c with
      | Some u =>
          match U.rl u with
          | U.RWrite _ _ => [KUdp c addr n (U.AWrite true)]
          | _ => match open_session u with
                 | Some sid => [KUdp c addr 0 (U.ARecv sid true); KUdp c addr 0 U.ALookup; KUdp c addr 0 U.AFeed;
                                KUdp c addr n (U.AWrite true)]
                 | None => [KUdp c addr n (U.AWrite true)]
                 end
          end
      | None => [KUdp c addr n (U.AWrite true)]
      end
  | _ => [KCtl a]
  end.

Section Lift.
  Variable cfg : config.
  Variable masq : request -> response.

  Definition kstep1 := kstep cfg masq R.Logged 60000.
  Definition krun1 := krun cfg masq R.Logged 60000.

  Fixpoint klift_run (k : kstate) (acts : list action) : option (kstate * list ev) :=
    match acts with
    | [] => Some (k, [])
    | a :: t =>
        match krun1 k (lift1 k a) with
        | None => None
        | Some (k1, tr1) =>
            match klift_run k1 t with
            | None => None
            | Some (k2, tr2) => Some (k2, tr1 ++ tr2)
            end
        end
    end.
End Lift.

Definition check_k (c : case) : bool :=
  match c with
  | CHist cfg k ms table log =>
      let masq := table_masq table in
      match run cfg masq init (acts_of log) with
      | None => true                     (* already a mismatch of C01_Corr.check *)
      | Some (_, tr) =>
          match klift_run cfg masq kinit (acts_of log) with
          | None => false
          | Some (_, trk) =>
              obs_list_eqb (obs_of trk) (obs_of tr) && Nat.eqb (length (acts_of trk)) (length (acts_of log))
          end
      end
  end.

Definition check (c : case) : bool := C01_Corr.check c && check_k c.

Definition mismatches (l : list case) : list nat := mism_from check 0 l.

(* which part fails: 0 = the abstract check, 1 = the product rejects the expanded log or disagrees with the abstract run *)
Definition explain_k (c : case) : list N :=
  (if C01_Corr.check c then [] else [0]) ++ (if check_k c then [] else [1]).
