(* C01 correspondence, third part: histories in which connections END and new ones are accepted afterwards.

   The recorded log carries, besides the events of C01_Corr (actions and observables), an `open c` entry where the
   harness dialled connection c (before anything of c can reach the server): LOpen c.  check:
     1. C01K_Corr.check on the log without the LOpen entries (the base LTS accepts the actions and yields the recorded
        observables, the monitors hold, the product accepts);
     2. the lifecycle LTS (model/C01_Lifecycle.v) accepts the log: LOpen c -> LAccept c (every connection index is
        accepted once), every action belongs to a connection accepted before; it yields the same trace as the base run;
     3. every recorded observable belongs to a connection opened before it.
   (By proof/C01_Lifecycle.v an accepted log is a run in which every connection's handler is a function of that
   connection's own history; a recorded outbound call for a fresh connection without a verdict of its own is refused in 1.) *)
From Hy Require Import gen.ParamsC01 model.C01_ServerAuth corr.C01_Corr corr.C01K_Corr model.C01_Lifecycle.
Local Open Scope N_scope.

Inductive lev := LOpen (c : cid) | LEv (e : ev).

Inductive case :=
| CLife (cfg : config) (nconn : nat) (masq_seen : bool) (table : list response) (log : list lev).

Definition strip (l : list lev) : list ev :=
  flat_map (fun x => match x with LEv e => [e] | LOpen _ => [] end) l.

Definition lacts_of (l : list lev) : list laction :=
  flat_map (fun x => match x with
                     | LOpen c => [LAccept c]
                     | LEv (EAct a) => [LAct a]
                     | LEv (EObs _) => []
                     end) l.

Fixpoint obs_after_open (seen : list cid) (l : list lev) : bool :=
  match l with
  | [] => true
  | LOpen c :: t => obs_after_open (c :: seen) t
  | LEv e :: t => existsb (N.eqb (ev_conn e)) seen && obs_after_open seen t
  end.

Definition ev_eqb (a b : ev) : bool :=
  match a, b with
  | EObs x, EObs y => obs_eqb x y
  | EAct _, EAct _ => true        (* the same action list is run on both sides *)
  | _, _ => false
  end.

Fixpoint tr_eqb (a b : list ev) : bool :=
  match a, b with
  | [], [] => true
  | x :: a', y :: b' => ev_eqb x y && tr_eqb a' b'
  | _, _ => false
  end.

Definition check_l (c : case) : bool :=
  match c with
  | CLife cfg k ms table log =>
      let masq := table_masq table in
      match lrun cfg masq linit (lacts_of log) with
      | None => false
      | Some (_, trl) =>
          obs_after_open [] log &&
          match run cfg masq init (acts_of (strip log)) with
          | Some (_, tr) => tr_eqb trl tr
          | None => true                  (* already a mismatch of C01_Corr.check *)
          end
      end
  end.

Definition base_case (c : case) : C01_Corr.case :=
  match c with CLife cfg k ms table log => CHist cfg k ms table (strip log) end.

Definition check (c : case) : bool := C01K_Corr.check (base_case c) && check_l c.

Definition mismatches (l : list case) : list nat := mism_from check 0 l.

(* which part fails: 0 = the abstract check, 1 = the product, 2 = the lifecycle LTS *)
Definition explain_l (c : case) : list N :=
  (if C01_Corr.check (base_case c) then [] else [0]) ++ (if check_k (base_case c) then [] else [1]) ++
  (if check_l c then [] else [2]).
