(* C01 (and, through C02_Corr, C02) correspondence: a boundary log recorded from the real server
   is compared with the model.  Used by the generated run/C01/cases_*.v files; not part of any theorem.

   A case carries the recorded log as a list of events in log order: the actions (client steps,
   authenticator verdicts, and the server-internal steps that are visible at the boundary) and the
   recorded observables.  check:
     1. the action sequence is accepted by the model's LTS (run = Some ...);
     2. for every connection, the observables the model emits are the recorded ones, compared
        separately for the server's request-handling side (authenticator / handler / logger calls, totally
        ordered per connection in the code) and the client side (responses);
     3. the monitors of C01 and C02 hold on the recorded log itself;
     4. the padding the server drew lies in the range the code draws from. *)
From Hy Require Import gen.ParamsC01 model.C01_ServerAuth.
Local Open Scope N_scope.

(* indices of the cases on which the check function says false (as in lib/Harness.v) *)
Fixpoint mism_from {A} (chk : A -> bool) (i : nat) (l : list A) : list nat :=
  match l with
  | [] => []
  | c :: t => if chk c then mism_from chk (S i) t else i :: mism_from chk (S i) t
  end.

Definition pad_of (n : N) : str := repeat x70 (N.to_nat n).

Definition resp0 : response := mkResp 0 [] [].

Definition req_eqb (a b : request) : bool :=
  str_eqb (r_method a) (r_method b) && str_eqb (r_host a) (r_host b) && str_eqb (r_path a) (r_path b) &&
  str_eqb (r_auth a) (r_auth b) && str_eqb (r_ccrx a) (r_ccrx b) && (r_tag a =? r_tag b).

Definition obs_eqb (a b : obs) : bool :=
  match a, b with
  | ObsAuthCall c x t, ObsAuthCall c' x' t' => (c =? c') && str_eqb x x' && (t =? t')
  | ObsMasq c r, ObsMasq c' r' => (c =? c') && req_eqb r r'
  | ObsResp c r p, ObsResp c' r' p' => (c =? c') && req_eqb r r' && resp_eqb p p'
  | ObsOnline c i b, ObsOnline c' i' b' => (c =? c') && str_eqb i i' && Bool.eqb b b'
  | ObsConnect c i t, ObsConnect c' i' t' => (c =? c') && str_eqb i i' && (t =? t')
  | ObsDisconnect c i, ObsDisconnect c' i' => (c =? c') && str_eqb i i'
  | ObsOutboundTCP c x, ObsOutboundTCP c' x' => (c =? c') && str_eqb x x'
  | ObsOutboundUDP c x, ObsOutboundUDP c' x' => (c =? c') && str_eqb x x'
  | ObsRelay c n, ObsRelay c' n' => (c =? c') && (n =? n')
  | _, _ => false
  end.

Fixpoint obs_list_eqb (a b : list obs) : bool :=
  match a, b with
  | [], [] => true
  | x :: a', y :: b' => obs_eqb x y && obs_list_eqb a' b'
  | _, _ => false
  end.

Definition client_side (o : obs) : bool := match o with ObsResp _ _ _ => true | _ => false end.
(* outbound / relay observables come from the proxy goroutines, which are not ordered with the request
   handlers of the same connection; in a recorded log each of them is its own action (TcpDial, ...), so the
   model emits them exactly when the log has them - what is checked for them is that the action is enabled *)
Definition proxy_side (o : obs) : bool :=
  match o with ObsOutboundTCP _ _ | ObsOutboundUDP _ _ | ObsRelay _ _ => true | _ => false end.
Definition is_masq_obs (o : obs) : bool := match o with ObsMasq _ _ => true | _ => false end.

Definition obs_of (tr : list ev) : list obs :=
  flat_map (fun e => match e with EObs o => [o] | EAct _ => [] end) tr.
Definition acts_of (tr : list ev) : list action :=
  flat_map (fun e => match e with EAct a => [a] | EObs _ => [] end) tr.

(* masq_seen = false: no handler is configured, the call of http.NotFound is not visible at the boundary *)
Definition proj (c : cid) (side : bool) (masq_seen : bool) (l : list obs) : list obs :=
  filter (fun o => (obs_conn o =? c) && Bool.eqb (client_side o) side && negb (proxy_side o) &&
                   (masq_seen || negb (is_masq_obs o))) l.

Definition pad_in_range (e : ev) : bool :=
  match e with
  | EObs (ObsResp _ _ p) =>
      if status p =? status_auth_ok then
        forallb (fun kv => if str_eqb (fst kv) hdr_padding
                           then (auth_resp_pad_min <=? N.of_nat (length (snd kv))) && (N.of_nat (length (snd kv)) <? auth_resp_pad_max)
                           else true) (hdrs p)
      else true
  | _ => true
  end.

Fixpoint N_seq (n : nat) : list N := match n with O => [] | S k => N_seq k ++ [N.of_nat k] end.

Inductive case :=
| CHist (cfg : config) (nconn : nat) (masq_seen : bool) (table : list response) (log : list ev).

Definition table_masq (table : list response) (r : request) : response := nth (N.to_nat (r_tag r)) table resp0.

Definition check (c : case) : bool :=
  match c with
  | CHist cfg k ms table log =>
      let masq := table_masq table in
      match run cfg masq init (acts_of log) with
      | None => false
      | Some (_, tr) =>
          forallb (fun c => obs_list_eqb (proj c true ms (obs_of tr)) (proj c true ms (obs_of log)) &&
                            obs_list_eqb (proj c false ms (obs_of tr)) (proj c false ms (obs_of log)))
                  (N_seq k ++ [99]) &&
          c01_mon [] log && c02_mon masq [] log && forallb pad_in_range log
      end
  end.

Definition mismatches (l : list case) : list nat := mism_from check 0 l.

(* diagnosis helper for a failing case: which of the parts fails *)
Definition explain (c : case) : list N :=
  match c with
  | CHist cfg k ms table log =>
      let masq := table_masq table in
      match run cfg masq init (acts_of log) with
      | None => [0]
      | Some (_, tr) =>
          (if forallb (fun c => obs_list_eqb (proj c true ms (obs_of tr)) (proj c true ms (obs_of log))) (N_seq k ++ [99]) then [] else [1]) ++
          (if forallb (fun c => obs_list_eqb (proj c false ms (obs_of tr)) (proj c false ms (obs_of log))) (N_seq k ++ [99]) then [] else [2]) ++
          (if c01_mon [] log then [] else [3]) ++ (if c02_mon masq [] log then [] else [4]) ++
          (if forallb pad_in_range log then [] else [5])
      end
  end.
