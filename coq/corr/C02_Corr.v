(* C02 correspondence: one connection's request sequence against a real server, compared with the model.
   Two independent comparisons per case:
     1. the boundary log as a whole is a behaviour of the model and satisfies the monitors (C01_Corr.check);
     2. request by request: the authenticator is consulted exactly when the model's is_auth_req says so on a
        not yet authenticated connection, and the response is the model's: the 233 response after an
        accepting verdict (or on an already authenticated connection), the oracle's (the masquerade handler
        alone on a recorder) otherwise.
   CGate: the same for a connection on which requests are in flight CONCURRENTLY (an auth request is held inside
   Authenticate by the harness while further auth requests, other requests, proxy streams and datagrams arrive).
   The recorded action sequence places the HttpReq of an auth request where its handler is first seen inside the
   critical section (its Authenticate call, or its response when it is answered without one), so
     - an auth request answered while another one is inside Authenticate is refused by the model
       (run = None: step (HttpReq c r) = None while in_auth <> None - the requests are serialised by authMutex);
     - the handler-side observables (authenticator / masquerade / logger calls) must come in the model's order;
     - the responses are compared as a set (each carries its request, requests are distinguished by r_tag): the
       clients of concurrent requests log their responses in no particular order;
     - c02_mon on the recorded log: no response other than the masquerade's before an accepting verdict.
   Used by the generated run/C02/cases_*.v files; not part of any theorem. *)
From Hy Require Import gen.ParamsC01 model.C01_ServerAuth corr.C01_Corr.
Local Open Scope N_scope.

Record rq := mkRq {
  q_req : request;
  q_was : bool;              (* the connection was already authenticated when the request was sent *)
  q_called : bool;           (* the authenticator was consulted *)
  q_tx : N;                  (* ... with this tx *)
  q_acc : bool;              (* ... and accepted *)
  q_padn : N;                (* length of the Hysteria-Padding value in the response (0 if none) *)
  q_resp : response;         (* observed *)
  q_oracle : response        (* the masquerade handler alone *)
}.

Inductive case :=
| CConn (cfg : config) (masq_seen : bool) (table : list response) (log : list ev) (rs : list rq)
| CGate (cfg : config) (masq_seen : bool) (table : list response) (log : list ev) (rs : list rq).

Definition check_rq (cfg : config) (q : rq) : bool :=
  let r := q_req q in
  let auth := is_auth_req r in
  Bool.eqb (q_called q) (auth && negb (q_was q)) &&
  (if q_called q then q_tx q =? parse_u64 (r_ccrx r) else true) &&
  (if auth && (q_was q || q_acc q)
   then resp_eqb (q_resp q) (resp_auth_ok cfg (pad_of (q_padn q)))
   else resp_eqb (q_resp q) (q_oracle q) && negb (status (q_resp q) =? status_auth_ok)).

Definition all_in (a b : list obs) : bool := forallb (fun o => existsb (obs_eqb o) b) a.

Definition same_set (a b : list obs) : bool := Nat.eqb (length a) (length b) && all_in a b && all_in b a.

Fixpoint tags_distinct (l : list obs) : bool :=
  match l with
  | [] => true
  | ObsResp _ r _ :: t => negb (existsb (fun o => match o with ObsResp _ r' _ => r_tag r' =? r_tag r | _ => false end) t) && tags_distinct t
  | _ :: t => tags_distinct t
  end.

Definition check_conc (cfg : config) (ms : bool) (table : list response) (log : list ev) : bool :=
  let masq := table_masq table in
  match run cfg masq init (acts_of log) with
  | None => false
  | Some (_, tr) =>
      forallb (fun c => obs_list_eqb (proj c false ms (obs_of tr)) (proj c false ms (obs_of log)) &&
                        same_set (proj c true ms (obs_of tr)) (proj c true ms (obs_of log)) &&
                        tags_distinct (proj c true ms (obs_of log)))
              [0; 99] &&
      c01_mon [] log && c02_mon masq [] log && forallb pad_in_range log
  end.

Definition check (c : case) : bool :=
  match c with
  | CConn cfg ms table log rs =>
      C01_Corr.check (CHist cfg 1 ms table log) && forallb (check_rq cfg) rs
  | CGate cfg ms table log rs =>
      check_conc cfg ms table log && forallb (check_rq cfg) rs
  end.

(* diagnosis helper for a failing CGate case *)
Definition explain_conc (c : case) : list N :=
  match c with
  | CConn _ _ _ _ _ => []
  | CGate cfg ms table log rs =>
      let masq := table_masq table in
      match run cfg masq init (acts_of log) with
      | None => [0]
      | Some (_, tr) =>
          (if obs_list_eqb (proj 0 false ms (obs_of tr)) (proj 0 false ms (obs_of log)) then [] else [1]) ++
          (if same_set (proj 0 true ms (obs_of tr)) (proj 0 true ms (obs_of log)) then [] else [2]) ++
          (if c01_mon [] log then [] else [3]) ++ (if c02_mon masq [] log then [] else [4]) ++
          (if forallb pad_in_range log then [] else [5]) ++ (if forallb (check_rq cfg) rs then [] else [6])
      end
  end.

Definition mismatches (l : list case) : list nat := mism_from check 0 l.
