(* C02 correspondence: one connection's request sequence against a real server, compared with the model.
   Two independent comparisons per case:
     1. the boundary log as a whole is a behaviour of the model and satisfies the monitors (C01_Corr.check);
     2. request by request: the authenticator is consulted exactly when the model's is_auth_req says so on a
        not yet authenticated connection, and the response is the model's: the 233 response after an
        accepting verdict (or on an already authenticated connection), the oracle's (the masquerade handler
        alone on a recorder) otherwise.
   CGate: the same for a connection on which requests are in flight CONCURRENTLY (an auth request is held inside
   Authenticate by the harness while further auth requests, other requests, proxy streams and datagrams arrive).
   The recorded action sequence places the HttpReq of an auth request where its handler is first seen inside the
   critical section (its Authenticate call, or its response when it is answered without one), so
     - an auth request answered while another one is inside Authenticate is refused by the model
       (run = None: step (HttpReq c r) = None while in_auth <> None - the requests are serialised by authMutex);
     - the handler-side observables (authenticator / masquerade / logger calls) must come in the model's order;
     - the responses are compared as a set (each carries its request, requests are distinguished by r_tag): the
       clients of concurrent requests log their responses in no particular order;
     - c02_mon on the recorded log: no response other than the masquerade's before an accepting verdict.
   CAbort: one connection on which user callbacks of ServeHTTP end abnormally at some requests (the masquerade handler
   aborts its response / panics / takes the stream over, the authenticator panics, a logger panics) and further
   requests follow on the same connection (harness/go/c02/c02abort_test.go).  The recorded log is replayed through the
   extended LTS of model/C02_Abort.v, whose masquerade handler has an outcome per request: MResp p or MAbort sent.
     - the action sequence must be accepted (a request that is never answered leaves the model inside Authenticate or
       without the response the log lacks: refused);
     - the handler-side observables must be the model's, in order; the client-side outcomes must be the model's in order,
       where an aborted response may have delivered LESS than the handler had flushed (a stream reset overtakes data):
       nothing, or the same status and headers and a prefix of the body;
     - monitors on the recorded log: a complete response is the handler's unless the connection was accepted before;
       an abort is the handler's own abort, or that of an auth request with nothing delivered (authenticator / logger panic).
   CBig: one connection, sequential requests with LARGE header blocks (one value of 8..64 KiB, hundreds of fields, several
   hundred KiB in all) before and after an accepted authentication (harness/go/c02/c02big_test.go).  Checked as CConn, and
   the recorded log is also replayed through the HTTP/3 front of model/C02_Front.v with the limit handleClient leaves in
   force (front_limit = 1 MiB), every request carrying the size of its field section as the harness computed it:
     - the action sequence must be accepted, the front must let every request through (no 431 of the library: all sizes
       are below the limit) and the observables - authenticator / handler calls and responses - must be the recorded ones.
   (The length of the encoded HEADERS frame is not visible to a client of the HTTP/3 library; it never exceeds the size of
   the field section, which counts name + value + 32 per field, so the field section size stands for both.)
   Used by the generated run/C02/cases_*.v files; not part of any theorem. *)
From Hy Require Import gen.ParamsC01 model.C01_ServerAuth corr.C01_Corr model.C02_Abort model.C02_Front.
Local Open Scope N_scope.

Record rq := mkRq {
  q_req : request;
  q_was : bool;              (* the connection was already authenticated when the request was sent *)
  q_called : bool;           (* the authenticator was consulted *)
  q_tx : N;                  (* ... with this tx *)
  q_acc : bool;              (* ... and accepted *)
  q_padn : N;                (* length of the Hysteria-Padding value in the response (0 if none) *)
  q_resp : response;         (* observed *)
  q_oracle : response        (* the masquerade handler alone *)
}.

(* one request of an abort history *)
Record xrq := mkXRq {
  xq_req : request;
  xq_was : bool;
  xq_called : bool;
  xq_tx : N;
  xq_acc : bool;
  xq_padn : N;
  xq_fault : N;               (* the callback that failed while the request was served: 0 none, 1 masquerade handler,
                                 2 authenticator, 3 logger (from the boundary log) *)
  xq_out : mres;              (* observed: the complete response, or what arrived of an aborted one *)
  xq_oracle : mres            (* the masquerade handler alone *)
}.

Inductive case :=
| CConn (cfg : config) (masq_seen : bool) (table : list response) (log : list ev) (rs : list rq)
| CGate (cfg : config) (masq_seen : bool) (table : list response) (log : list ev) (rs : list rq)
| CAbort (cfg : config) (table : list mres) (log : list xev) (rs : list xrq)
| CBig (cfg : config) (masq_seen : bool) (table : list response) (log : list ev) (rs : list rq) (szs : list N).

Definition check_rq (cfg : config) (q : rq) : bool :=
  let r := q_req q in
  let auth := is_auth_req r in
  Bool.eqb (q_called q) (auth && negb (q_was q)) &&
  (if q_called q then q_tx q =? parse_u64 (r_ccrx r) else true) &&
  (if auth && (q_was q || q_acc q)
   then resp_eqb (q_resp q) (resp_auth_ok cfg (pad_of (q_padn q)))
   else resp_eqb (q_resp q) (q_oracle q) && negb (status (q_resp q) =? status_auth_ok)).

Definition all_in (a b : list obs) : bool := forallb (fun o => existsb (obs_eqb o) b) a.

Definition same_set (a b : list obs) : bool := Nat.eqb (length a) (length b) && all_in a b && all_in b a.

Fixpoint tags_distinct (l : list obs) : bool :=
  match l with
  | [] => true
  | ObsResp _ r _ :: t => negb (existsb (fun o => match o with ObsResp _ r' _ => r_tag r' =? r_tag r | _ => false end) t) && tags_distinct t
  | _ :: t => tags_distinct t
  end.

Definition check_conc (cfg : config) (ms : bool) (table : list response) (log : list ev) : bool :=
  let masq := table_masq table in
  match run cfg masq init (acts_of log) with
  | None => false
  | Some (_, tr) =>
      forallb (fun c => obs_list_eqb (proj c false ms (obs_of tr)) (proj c false ms (obs_of log)) &&
                        same_set (proj c true ms (obs_of tr)) (proj c true ms (obs_of log)) &&
                        tags_distinct (proj c true ms (obs_of log)))
              [0; 99] &&
      c01_mon [] log && c02_mon masq [] log && forallb pad_in_range log
  end.

(* ---------------------------------------------------------------- abort histories *)

Fixpoint is_prefix (a b : str) : bool :=
  match a, b with
  | [], _ => true
  | x :: a', y :: b' => Byte.eqb x y && is_prefix a' b'
  | _ :: _, [] => false
  end.

(* what arrived of an aborted response (a) against what the handler had flushed (b) *)
Definition sent_le (a b : option response) : bool :=
  match a, b with
  | None, _ => true
  | Some x, Some y => resp_eqb (mkResp (status x) (hdrs x) []) (mkResp (status y) (hdrs y) []) && is_prefix (body x) (body y)
  | Some _, None => false
  end.

Definition mres_le (observed model : mres) : bool :=
  match observed, model with
  | MResp a, MResp b => resp_eqb a b
  | MAbort a, MAbort b => sent_le a b
  | _, _ => false
  end.

Definition table_xmasq (table : list mres) (r : request) : mres := nth (N.to_nat (r_tag r)) table (MResp resp0).

Definition xobs_of (tr : list xev) : list xobs := flat_map (fun e => match e with XE o => [o] | XA _ => [] end) tr.
Definition xacts_of (tr : list xev) : list xaction := flat_map (fun e => match e with XA a => [a] | XE _ => [] end) tr.

Definition x_client_side (o : xobs) : bool := match o with XO x => client_side x | XAbort _ _ _ => true end.
Definition x_proxy_side (o : xobs) : bool := match o with XO x => proxy_side x | XAbort _ _ _ => false end.

Definition xproj (c : cid) (side : bool) (l : list xobs) : list xobs :=
  filter (fun o => (xobs_conn o =? c) && Bool.eqb (x_client_side o) side && negb (x_proxy_side o)) l.

(* model against recorded *)
Definition xobs_le (m o : xobs) : bool :=
  match m, o with
  | XO a, XO b => obs_eqb a b
  | XAbort c r s, XAbort c' r' s' => (c =? c') && req_eqb r r' && sent_le s' s
  | _, _ => false
  end.

Fixpoint xobs_list_le (a b : list xobs) : bool :=
  match a, b with
  | [], [] => true
  | x :: a', y :: b' => xobs_le x y && xobs_list_le a' b'
  | _, _ => false
  end.

Definition opt_is_none {A} (o : option A) : bool := match o with None => true | Some _ => false end.

(* on the recorded log: responses and aborts are the handler's, unless ... *)
Fixpoint x02_mon (masq : request -> mres) (seen : list cid) (tr : list xev) : bool :=
  match tr with
  | [] => true
  | e :: t =>
      (match e with
       | XE (XO (ObsResp c r resp)) => mres_le (MResp resp) (masq r) || existsb (N.eqb c) seen
       | XE (XAbort c r sent) => mres_le (MAbort sent) (masq r) || (is_auth_req r && opt_is_none sent)
       | _ => true
       end) &&
      x02_mon masq (match e with XA a => match x_accepts a with Some c => c :: seen | None => seen end | _ => seen end) t
  end.

(* ... and nothing reaches the outbound before the connection is accepted *)
Fixpoint x01_mon (seen : list cid) (tr : list xev) : bool :=
  match tr with
  | [] => true
  | e :: t =>
      (match e with
       | XE (XO o) => match outbound_conn (EObs o) with Some c => existsb (N.eqb c) seen | None => true end
       | _ => true
       end) &&
      x01_mon (match e with XA a => match x_accepts a with Some c => c :: seen | None => seen end | _ => seen end) t
  end.

Definition x_pad_in_range (e : xev) : bool := match e with XE (XO o) => pad_in_range (EObs o) | _ => true end.

Definition mres_status_233 (m : mres) : bool :=
  match m with MResp p | MAbort (Some p) => status p =? status_auth_ok | MAbort None => false end.

Definition check_xrq (cfg : config) (q : xrq) : bool :=
  let r := xq_req q in
  let auth := is_auth_req r in
  Bool.eqb (xq_called q) (auth && negb (xq_was q)) &&
  (if xq_called q then xq_tx q =? parse_u64 (r_ccrx r) else true) &&
  (if auth && (xq_was q || xq_acc q)
   then (if xq_fault q =? 3 then mres_le (xq_out q) (MAbort None) && mres_le (MAbort None) (xq_out q)
         else mres_le (xq_out q) (MResp (resp_auth_ok cfg (pad_of (xq_padn q)))))
   else if xq_fault q =? 2 then mres_le (xq_out q) (MAbort None) && mres_le (MAbort None) (xq_out q)
   else mres_le (xq_out q) (xq_oracle q) && negb (mres_status_233 (xq_out q))).

Definition check_abort (cfg : config) (table : list mres) (log : list xev) : bool :=
  let masq := table_xmasq table in
  match xrun cfg masq init (xacts_of log) with
  | None => false
  | Some (_, tr) =>
      forallb (fun c => xobs_list_le (xproj c false (xobs_of tr)) (xproj c false (xobs_of log)) &&
                        xobs_list_le (xproj c true (xobs_of tr)) (xproj c true (xobs_of log)))
              [0; 99] &&
      x01_mon [] log && x02_mon masq [] log && forallb x_pad_in_range log
  end.

(* ---------------------------------------------------------------- large header blocks: replay through the front *)

(* the i-th HttpReq of the recorded action sequence with the i-th recorded field section size *)
Fixpoint lift (szs : list N) (acts : list action) : list faction :=
  match acts with
  | [] => []
  | HttpReq c r pad :: t =>
      match szs with
      | z :: zs => FReq c (mkWire r z z) pad :: lift zs t
      | [] => FReq c (mkWire r 0 0) pad :: lift [] t
      end
  | a :: t => FAct a :: lift szs t
  end.

Definition no_431 (e : fev) : bool := match e with FE (F431 _ _) => false | _ => true end.

Definition check_front (cfg : config) (ms : bool) (table : list response) (log : list ev) (szs : list N) : bool :=
  let masq := table_masq table in
  match frun front_limit cfg masq init (lift szs (acts_of log)) with
  | None => false
  | Some (_, ftr) =>
      let ob := obs_of (base_tr front_limit ftr) in
      forallb (fun c => obs_list_eqb (proj c true ms ob) (proj c true ms (obs_of log)) &&
                        obs_list_eqb (proj c false ms ob) (proj c false ms (obs_of log)))
              [0; 99] &&
      forallb no_431 ftr && forallb (fun z => z <=? front_limit) szs &&
      Nat.eqb (length szs) (length (filter (fun a => match a with HttpReq _ _ _ => true | _ => false end) (acts_of log)))
  end.

Definition check (c : case) : bool :=
  match c with
  | CBig cfg ms table log rs szs =>
      C01_Corr.check (CHist cfg 1 ms table log) && forallb (check_rq cfg) rs && check_front cfg ms table log szs
  | CConn cfg ms table log rs =>
      C01_Corr.check (CHist cfg 1 ms table log) && forallb (check_rq cfg) rs
  | CGate cfg ms table log rs =>
      check_conc cfg ms table log && forallb (check_rq cfg) rs
  | CAbort cfg table log rs =>
      check_abort cfg table log && forallb (check_xrq cfg) rs
  end.

(* diagnosis helper for a failing CAbort case *)
Definition explain_abort (c : case) : list N :=
  match c with
  | CAbort cfg table log rs =>
      let masq := table_xmasq table in
      match xrun cfg masq init (xacts_of log) with
      | None => [0]
      | Some (_, tr) =>
          (if xobs_list_le (xproj 0 false (xobs_of tr)) (xproj 0 false (xobs_of log)) then [] else [1]) ++
          (if xobs_list_le (xproj 0 true (xobs_of tr)) (xproj 0 true (xobs_of log)) then [] else [2]) ++
          (if x01_mon [] log then [] else [3]) ++ (if x02_mon masq [] log then [] else [4]) ++
          (if forallb x_pad_in_range log then [] else [5]) ++ (if forallb (check_xrq cfg) rs then [] else [6])
      end
  | _ => []
  end.

(* diagnosis helper for a failing CGate case *)
Definition explain_conc (c : case) : list N :=
  match c with
  | CConn _ _ _ _ _ => []
  | CAbort _ _ _ _ => []
  | CBig _ _ _ _ _ _ => []
  | CGate cfg ms table log rs =>
      let masq := table_masq table in
      match run cfg masq init (acts_of log) with
      | None => [0]
      | Some (_, tr) =>
          (if obs_list_eqb (proj 0 false ms (obs_of tr)) (proj 0 false ms (obs_of log)) then [] else [1]) ++
          (if same_set (proj 0 true ms (obs_of tr)) (proj 0 true ms (obs_of log)) then [] else [2]) ++
          (if c01_mon [] log then [] else [3]) ++ (if c02_mon masq [] log then [] else [4]) ++
          (if forallb pad_in_range log then [] else [5]) ++ (if forallb (check_rq cfg) rs then [] else [6])
      end
  end.

(* diagnosis helper for a failing CBig case *)
Definition explain_big (c : case) : list N :=
  match c with
  | CBig cfg ms table log rs szs =>
      (if C01_Corr.check (CHist cfg 1 ms table log) then [] else [1]) ++
      (if forallb (check_rq cfg) rs then [] else [2]) ++ (if check_front cfg ms table log szs then [] else [3])
  | _ => []
  end.

Definition mismatches (l : list case) : list nat := mism_from check 0 l.
