(* C02 correspondence: one connection's request sequence against a real server, compared with the model.
   Two independent comparisons per case:
     1. the boundary log as a whole is a behaviour of the model and satisfies the monitors (C01_Corr.check);
     2. request by request: the authenticator is consulted exactly when the model's is_auth_req says so on a
        not yet authenticated connection, and the response is the model's: the 233 response after an
        accepting verdict (or on an already authenticated connection), the oracle's (the masquerade handler
        alone on a recorder) otherwise.
   Used by the generated run/C02/cases_*.v files; not part of any theorem. *)
From Hy Require Import gen.ParamsC01 model.C01_ServerAuth corr.C01_Corr.
Local Open Scope N_scope.

Record rq := mkRq {
  q_req : request;
  q_was : bool;              (* the connection was already authenticated when the request was sent *)
  q_called : bool;           (* the authenticator was consulted *)
  q_tx : N;                  (* ... with this tx *)
  q_acc : bool;              (* ... and accepted *)
  q_padn : N;                (* length of the Hysteria-Padding value in the response (0 if none) *)
  q_resp : response;         (* observed *)
  q_oracle : response        (* the masquerade handler alone *)
}.

Inductive case :=
| CConn (cfg : config) (masq_seen : bool) (table : list response) (log : list ev) (rs : list rq).

Definition check_rq (cfg : config) (q : rq) : bool :=
  let r := q_req q in
  let auth := is_auth_req r in
  Bool.eqb (q_called q) (auth && negb (q_was q)) &&
  (if q_called q then q_tx q =? parse_u64 (r_ccrx r) else true) &&
  (if auth && (q_was q || q_acc q)
   then resp_eqb (q_resp q) (resp_auth_ok cfg (pad_of (q_padn q)))
   else resp_eqb (q_resp q) (q_oracle q) && negb (status (q_resp q) =? status_auth_ok)).

Definition check (c : case) : bool :=
  match c with
  | CConn cfg ms table log rs =>
      C01_Corr.check (CHist cfg 1 ms table log) && forallb (check_rq cfg) rs
  end.

Definition mismatches (l : list case) : list nat := mism_from check 0 l.
