(* C03 correspondence: how the observed behaviour of the real code on the gaps C03 models itself
   (server / client datagram receive path, speed-test server and readers, STUN address handling
   and Discover's loop) is compared with the model.  Used by the generated run/C03/cases_*.v.
   Not part of any theorem.  (The decoders owned by C04/C05/C13/C14/C17/C20 are compared value
   by value in those properties' checks; C03's harness adds crash-freedom on a larger stream.) *)
From Hy Require Import lib.Harness model.C03_UDPRecv model.C03_Speedtest model.C03_Stun.
From Hy Require model.C14_Gecko model.C03_Gecko gen.ParamsC14.
From Coq Require Import ZArith.
Local Open Scope N_scope.

(* ---------- server ---------- *)
Inductive sexp :=
| XDropped | XPending (sid : N) | XWrite (sid al ad dl dd : N) | XDialFail (sid : N)
| XSent (sizes : list N) | XNone | XStop.

Definition sexp_eqb (o : sout) (e : sexp) : bool :=
  match o, e with
  | SODropped, XDropped | SONone, XNone | SOStop, XStop => true
  | SOPending a, XPending b => a =? b
  | SODialFail a, XDialFail b => a =? b
  | SOWrite s a d, XWrite s' al ad dl dd =>
      (s =? s') && (N.of_nat (length a) =? al) && (digest a =? ad) &&
      (N.of_nat (length d) =? dl) && (digest d =? dd)
  | SOSent l, XSent l' => N_list_eqb (map N.of_nat l) l'
  | _, _ => false
  end.

(* step by step: outcome and session count after every action *)
Fixpoint srv_trace (s : sstate) (acts : list sact) (exp : list (sexp * N)) : bool :=
  match acts, exp with
  | [], [] => true
  | a :: t, (e, cnt) :: et =>
      match srv_step s a with
      | Ok (s', o) => sexp_eqb o e && (N.of_nat (length (ss_tab s')) =? cnt) && srv_trace s' t et
      | _ => false
      end
  | _, _ => false
  end.

(* ---------- client ---------- *)
Inductive cexp :=
| YDropped | YQueued (h : N) | YOpened (h id : N) | YRefused | YData (al ad dl dd : N)
| YEof | YBlocked | YMore | YNone.

Definition cexp_eqb (o : cout) (e : cexp) : bool :=
  match o, e with
  | CODropped, YDropped | CORefused, YRefused | COEof, YEof | COBlocked, YBlocked
  | COMore, YMore | CONone, YNone => true
  | COQueued h, YQueued h' => N.of_nat h =? h'
  | COOpened h i, YOpened h' i' => (N.of_nat h =? h') && (i =? i')
  | COData a d, YData al ad dl dd =>
      (N.of_nat (length a) =? al) && (digest a =? ad) && (N.of_nat (length d) =? dl) && (digest d =? dd)
  | _, _ => false
  end.

Fixpoint cli_trace (s : cstate) (acts : list cact) (exp : list cexp) : bool :=
  match acts, exp with
  | [], [] => true
  | a :: t, e :: et =>
      match cli_step s a with
      | Ok (s', o) => cexp_eqb o e && cli_trace s' t et
      | _ => false
      end
  | _, _ => false
  end.

(* ---------- speed test ---------- *)
(* result classes of the harness: 0 ok, 1 eof, 2 short (ErrUnexpectedEOF), 3 other, 4 invalid, 9 panic *)
Definition cls {A} (r : Res A) : N :=
  match r with
  | Ok _ => 0 | Err EEof => 1 | Err EShort => 2 | Err EOther => 3 | Err _ => 4 | Panic _ => 9
  end.

Definition consumed (s rest : script) : N := N.of_nat (length (sdata s) - length (sdata rest)).

(* ---------- STUN ---------- *)
Inductive oitem :=
| OTimeout | OFail
| OPkt (m : option stunmsg).     (* pion's view of the packet *)

(* packets are abstracted to their index: decode is the table lookup *)
Definition dec_of (tab : list (option stunmsg)) (p : list byte) : option stunmsg :=
  match p with
  | [b] => nth (N.to_nat (b2n b)) tab None
  | _ => None
  end.

Fixpoint rx_of (items : list oitem) (i : N) : list rx * list (option stunmsg) :=
  match items with
  | [] => ([], [])
  | OTimeout :: t => let r := rx_of t i in (RxTimeout :: fst r, snd r)
  | OFail :: t => let r := rx_of t i in (RxFail :: fst r, snd r)
  | OPkt m :: t => let r := rx_of t (i + 1) in (RxPkt 1 [n2b i] :: fst r, m :: snd r)
  end.

Definition addr_eqb (a b : list byte * Z) : bool := bytes_eqb (fst a) (fst b) && (snd a =? snd b)%Z.
Definition subset (a b : list (list byte * Z)) : bool := forallb (fun x => existsb (addr_eqb x) b) a.

(* ---------- Gecko receiver: explicit-panic transcription against the real geckoPacketConn ---------- *)
(* one inner datagram: source, literal head, generated tail (byte i = a*i+b mod 256, n bytes) *)
Inductive gpkt := GP (src : N) (hd : list byte) (a b n : N).
(* one packet ReadFrom returned: index of the datagram that completed it, source, length, digest *)
Inductive gout := GO (i s l d : N).

Fixpoint gk_acts (i : Z) (l : list gpkt) : list C14_Gecko.action :=
  match l with
  | [] => []
  | GP s hd a b n :: t => C14_Gecko.Packet i s (hd ++ gen_data a b n) (0, 0) :: gk_acts (i + 1)%Z t
  end.

Fixpoint gk_outs (i : N) (outs : list (option (N * list byte))) : list gout :=
  match outs with
  | [] => []
  | None :: t => gk_outs (i + 1) t
  | Some (s, b) :: t => GO i s (N.of_nat (length b)) (digest b) :: gk_outs (i + 1) t
  end.

Definition gout_eqb (x y : gout) : bool :=
  match x, y with GO i s l d, GO i' s' l' d' => (i =? i') && (s =? s') && (l =? l') && (d =? d') end.
Fixpoint gouts_eqb (a b : list gout) : bool :=
  match a, b with
  | [], [] => true
  | x :: a', y :: b' => gout_eqb x y && gouts_eqb a' b'
  | _, _ => false
  end.

Definition alloc_okb (a : N * Z) : bool :=
  let cap := (ParamsC14.geckoBufferSize - ParamsC14.geckoHeaderSize)%Z in
  ((0 <=? snd a) &&
   match fst a with
   | 8%N => snd a <=? ParamsC14.geckoMaxFragmentChunks
   | 10%N => snd a <=? cap
   | 12%N => snd a <=? ParamsC14.geckoMaxFragmentChunks * cap
   | _ => false
   end)%Z.

Inductive case :=
| CGecko (rbuf : N) (pkts : list gpkt) (panicked : bool) (exp : list gout)
| CSrv (acts : list sact) (panicked : bool) (exp : list (sexp * N))
| CCli (acts : list cact) (panicked : bool) (exp : list cexp)
| CServer (s : script) (w : wscript) (c : N) (writes : list N) (cns : N)
| CResponse (s : script) (c : N) (okflag : bool) (ml md : N) (cns : N)
| CSummary (s : script) (c : N) (d : Z) (l : N) (cns : N)
| CU32 (s : script) (c : N) (l : N) (cns : N)
| CIpPort (ip : list byte) (port : Z) (panicked : bool) (exp : option (list byte * Z))
| CDisc (own : list byte) (items : list oitem) (panicked : bool) (err : bool) (addrs : list (list byte * Z)).

Definition check (c : case) : bool :=
  match c with
  | CGecko rbuf pkts p exp =>
      match C03_Gecko.run_p (N.to_nat rbuf) C14_Gecko.r_init (gk_acts 0 pkts) with
      | Ok (_, outs, al) => negb p && forallb alloc_okb al && gouts_eqb (gk_outs 0 outs) exp
      | _ => false
      end
  | CSrv acts p exp =>
      if p then is_panic (srv_run ss_init acts) else srv_trace ss_init acts exp
  | CCli acts p exp =>
      if p then is_panic (cli_run cs_init acts) else cli_trace cs_init acts exp
  | CServer s w c writes cns =>
      let r := server s w in
      (cls (r_res r) =? c) && N_list_eqb (r_writes r) writes && (consumed s (r_rest r) =? cns)
  | CResponse s c okflag ml md cns =>
      let r := read_response s in
      (cls (fst r) =? c) && (consumed s (snd r) =? cns) &&
      match fst r with
      | Ok (o, m) => Bool.eqb o okflag && (N.of_nat (length m) =? ml) && (digest m =? md)
      | _ => true
      end
  | CSummary s c d l cns =>
      let r := read_summary s in
      (cls (fst r) =? c) && (consumed s (snd r) =? cns) &&
      match fst r with Ok (d', l') => (d' =? d)%Z && (l' =? l) | _ => true end
  | CU32 s c l cns =>
      let r := read_u32 s in
      (cls (fst r) =? c) && (consumed s (snd r) =? cns) &&
      match fst r with Ok l' => l' =? l | _ => true end
  | CIpPort ip port p exp =>
      match ip_port_to_addrport ip port, exp with
      | Ok a, Some b => negb p && addr_eqb a b
      | Err _, None => negb p
      | Panic _, _ => p
      | _, _ => false
      end
  | CDisc own items p err addrs =>
      let r := rx_of items 0 in
      match discover_loop (dec_of (snd r)) 1500 [own] (fst r) [] with
      | Ok acc =>
          negb p &&
          (* Discover fails when nothing was collected; otherwise the same set of addresses *)
          match acc with
          | [] => err
          | _ :: _ => negb err && subset acc addrs && subset addrs acc
          end
      | Err _ => negb p && err
      | Panic _ => p
      end
  end.

Definition mismatches (l : list case) : list nat := mism_from check 0 l.
