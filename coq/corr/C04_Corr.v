(* C04 correspondence: how one observed implementation result is compared with the model.
   Used by the generated run/C04/cases_*.v files.  Not part of any theorem. *)
From Hy Require Import lib.Harness lib.Reader model.C04_Framing model.C04_Dispatch model.C04_Client.
From Coq Require Import ZArith.
Local Open Scope N_scope.

(* the byte stream is described by segments so that the cases files stay small *)
Inductive seg := SLit (b : list byte) | SGen (a b n : N) | SVar (w v : N).

Definition seg_bytes (s : seg) : list byte :=
  match s with
  | SLit b => b
  | SGen a b n => gen_data a b n
  | SVar w v => varint_enc_w (N.to_nat w) v
  end.

Definition err_of (e : N) : option errc :=
  match e with 0 => None | 1 => Some EEof | 2 => Some EShort | _ => Some EOther end.

(* cuts: events (length n, error code e) written as the single number 4*n + e (plain numbers are
   the cheapest literals to elaborate); what the cuts do not cover is one last chunk *)
Fixpoint mk_script (stream : list byte) (cuts : list N) : script :=
  match cuts with
  | [] => match stream with [] => [] | _ => [Chunk stream] end
  | c :: t =>
      let k := N.to_nat (c / 4) in
      Ev (firstn k stream) (err_of (c mod 4)) :: mk_script (skipn k stream) t
  end.

Inductive fn := FReq | FSrv | FResp.

(* checksum of long byte strings (same function in harness/go/c04): Harness.digest reduces modulo a
   prime, which costs a full division per byte under vm_compute; masking is a bitwise and.  The
   multiplier is odd, so a change of any single byte changes the sum. *)
Definition cksum (l : list byte) : N :=
  fold_left (fun h c => N.land (h * 131 + b2n c + 1) 4294967295) l 0.

(* class: 0 ok, 1 io.EOF, 2 io.ErrUnexpectedEOF, 3 ProtocolError, 4 other error, 5 panic *)
Record obs := mkObs { o_cls : N; o_st : bool; o_vlen : N; o_vdg : N; o_llen : N; o_ldg : N;
                      o_req : N; o_max : N; o_calls : N }.

(* one stream of a concurrent run: K frames parsed at the same time by K goroutines, each over its own
   reader.  The parsers share no state - a parser reads only its own stream and the model has no global
   state - so the model of a concurrent run is the K sequential runs, whatever the interleaving: every
   stream is compared with the sequential model of its own script.  A disagreement therefore means that
   the implementation let one stream influence another. *)
Record cstream := mkCS { cs_f : fn; cs_segs : list seg; cs_cuts : list N; cs_obs : obs }.

(* one stream of an end-to-end connection (real http3 dispatcher + ProxyStreamHijacker + handleTCPRequest over
   loopback QUIC): the bytes the client wrote on the stream, and what the server's Outbound saw - whether it
   was asked to dial, and length / checksum of the address it was asked for.  The model is server_dispatch on
   the stream delivered as one chunk and then ended (for these error-free deliveries the result does not depend
   on the chunking: C04_dispatched_request_decoded quantifies over it). *)
Record estream := mkES { es_segs : list seg; es_dialed : bool; es_vlen : N; es_vdg : N }.

(* one client-side session (real clientImpl.TCP + tcpConn.Read on a loopback QUIC stream, peer = scripted raw
   server): the bytes the peer wrote on the stream (response frame ++ payload), how they were cut when the
   application's first Read ran (cuts: the part queued at that moment, then the rest), and what the application
   saw - how TCP() ended (0 connection, 7 DialError, 1/2/3/4 error class), how its Reads ended (9 it stopped after
   plen bytes, 1 io.EOF, 7 DialError, 2/3/4 error class), length / checksum of the DialError message and of the
   concatenation of everything its Reads returned.  The model is client_session on that script with the same
   buffer sizes (for error-free deliveries the result does not depend on the cuts: C04_client_reads_exactly_payload
   quantifies over them). *)
Record cliobs := mkCO { co_tcp : N; co_final : N; co_mlen : N; co_mdg : N; co_glen : N; co_gdg : N }.

Definition ecls (e : errc) : N := match e with EEof => 1 | EShort => 2 | EInvalid => 3 | _ => 4 end.

Inductive case :=
| CCli (fo fin : bool) (segs : list seg) (cuts : list N) (plen : N) (bufs : list N) (o : cliobs)
| CE2E (l : list estream)
| CConc (l : list cstream)
| CRead (f : fn) (segs : list seg) (cuts : list N) (o : obs)
| CWrite (f : fn) (ok : bool) (a b n : N) (pad : list byte) (len dg : N)
| CPut (v bl : N) (res : option (N * list byte)).

Definition cls_of {A} (r : Res A) : N :=
  match r with
  | Ok _ => 0 | Err EEof => 1 | Err EShort => 2 | Err EInvalid => 3 | Err _ => 4 | Panic _ => 5
  end.

Definition model_obs (f : fn) (s : script) : obs :=
  let fin (cls : N) (st : bool) (v : list byte) (r : rstate) :=
    let l := sdata (rs_script r) in
    mkObs cls st (N.of_nat (length v)) (cksum v) (N.of_nat (length l)) (cksum l)
          (c_req (rs_ctr r)) (c_max (rs_ctr r)) (c_calls (rs_ctr r)) in
  match f with
  | FReq => let r := run_on read_tcp_request s in
            fin (cls_of (fst r)) false (match fst r with Ok v => v | _ => [] end) (snd r)
  | FSrv => let r := run_on server_read_request s in
            fin (cls_of (fst r)) false (match fst r with Ok v => v | _ => [] end) (snd r)
  | FResp => let r := run_on read_tcp_response s in
             fin (cls_of (fst r)) (match fst r with Ok v => fst v | _ => false end)
                 (match fst r with Ok v => snd v | _ => [] end) (snd r)
  end.

Definition obs_eqb (a b : obs) : bool :=
  (o_cls a =? o_cls b) && Bool.eqb (o_st a) (o_st b) && (o_vlen a =? o_vlen b) && (o_vdg a =? o_vdg b) &&
  (o_llen a =? o_llen b) && (o_ldg a =? o_ldg b) && (o_req a =? o_req b) && (o_max a =? o_max b) &&
  (o_calls a =? o_calls b).

Definition check (c : case) : bool :=
  match c with
  | CCli fo fin segs cuts plen bufs o =>
      let stream := concat (map seg_bytes segs) in
      match fst (run_on (client_session fo fin (N.to_nat plen) (map N.to_nat bufs) (length stream + 8))
                        (mk_script stream cuts)) with
      | Ok (t, (got, f)) =>
          let tc := match t with TConn _ => 0 | TDial _ => 7 | TErr e => ecls e end in
          let fc := match f with FNone => 9 | FErr e => ecls e | FDial _ => 7 | FFuel => 99 end in
          let m := match t, f with TDial m, _ => m | _, FDial m => m | _, _ => [] end in
          (tc =? co_tcp o) && (fc =? co_final o) && (N.of_nat (length m) =? co_mlen o) && (cksum m =? co_mdg o) &&
          (N.of_nat (length got) =? co_glen o) && (cksum got =? co_gdg o)
      | _ => false
      end
  | CE2E l =>
      forallb (fun s =>
                 match fst (run_on server_dispatch (mk_script (concat (map seg_bytes (es_segs s))) [])) with
                 | Ok (Some a) => es_dialed s && (N.of_nat (length a) =? es_vlen s) && (cksum a =? es_vdg s)
                 | _ => negb (es_dialed s)
                 end) l
  | CConc l =>
      forallb (fun s => obs_eqb (cs_obs s)
                          (model_obs (cs_f s) (mk_script (concat (map seg_bytes (cs_segs s))) (cs_cuts s)))) l
  | CRead f segs cuts o =>
      obs_eqb o (model_obs f (mk_script (concat (map seg_bytes segs)) cuts))
  | CWrite f ok a b n pad len dg =>
      let v := gen_data a b n in
      let r := match f with
               | FResp => write_tcp_response ok v pad
               | _ => write_tcp_request v pad
               end in
      let rng := match f with
                 | FResp => drawableb tcpResponsePaddingMin tcpResponsePaddingMax pad
                 | _ => drawableb tcpRequestPaddingMin tcpRequestPaddingMax pad
                 end in
      rng && match r with
             | Ok fr => (N.of_nat (length fr) =? len) && (cksum fr =? dg)
             | _ => false
             end
  | CPut v bl res =>
      match varintPut (repeat xaa (N.to_nat bl)) v, res with
      | Ok (buf, n), Some (n', buf') => (N.of_nat n =? n') && bytes_eqb buf buf'
      | Panic _, None => true
      | _, _ => false
      end
  end.

Definition mismatches (l : list case) : list nat := mism_from check 0 l.
