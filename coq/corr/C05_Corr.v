(* C05 correspondence: how one observed implementation result is compared with the model.
   Used by the generated run/C05/cases_*.v files.  Not part of any theorem. *)
From Hy Require Import lib.Harness model.C05_Frag.
From Coq Require Import ZArith.
Local Open Scope N_scope.

Record mspec := mkSpec { s_sid : N; s_pid : N; s_fid : N; s_fc : N;
                         s_al : N; s_aa : N; s_ab : N; s_dl : N; s_da : N; s_db : N }.

Definition build (s : mspec) : msg :=
  mkMsg (s_sid s) (s_pid s) (s_fid s) (s_fc s) (gen_data (s_aa s) (s_ab s) (s_al s))
        (gen_data (s_da s) (s_db s) (s_dl s)).

Definition sum (m : msg) : list N :=
  [sid m; pid m; fid m; fcount m; N.of_nat (length (addr m)); digest (addr m);
   N.of_nat (length (data m)); digest (data m)].

Inductive pres := PRok (s : list N) | PReof | PRinvalid | PRpanic | PRnone.

Inductive case :=
| CFrag (m : mspec) (max : Z) (exp : option (list (list N)))
| CSeq (ms : list (mspec * Z)) (order : list (nat * nat)) (exp : option (list (list N)))
| CWire (m : mspec) (buf : nat) (n : Z) (hsz : nat) (dg : option N) (p : pres)
| CParse (b : list byte) (p : pres).

Definition LL_eqb (a b : list (list N)) : bool :=
  Nat.eqb (length a) (length b) && forallb (fun p => N_list_eqb (fst p) (snd p)) (combine a b).

Definition pres_eqb (a b : pres) : bool :=
  match a, b with
  | PRok x, PRok y => N_list_eqb x y
  | PReof, PReof | PRinvalid, PRinvalid | PRpanic, PRpanic | PRnone, PRnone => true
  | _, _ => false
  end.

Definition pres_of (r : Res msg) : pres :=
  match r with
  | Ok m => PRok (sum m)
  | Err EEof => PReof
  | Err _ => PRinvalid
  | Panic _ => PRpanic
  end.

Fixpoint feed_trace (d : dstate) (pos : N) (l : list (option msg)) : option (list (list N)) :=
  match l with
  | [] => Some []
  | None :: t => feed_trace d (pos + 1) t
  | Some m :: t =>
      match feed d m with
      | Ok (d1, o) =>
          match feed_trace d1 (pos + 1) t with
          | Some r => Some (match o with Some x => (pos :: sum x) :: r | None => r end)
          | None => None
          end
      | _ => None
      end
  end.

Definition frags_of (sz : mspec * Z) : option (list msg) :=
  match frag (build (fst sz)) (snd sz) with Ok fs => Some fs | _ => None end.

Fixpoint all_some {A} (l : list (option A)) : option (list A) :=
  match l with
  | [] => Some []
  | Some x :: t => match all_some t with Some r => Some (x :: r) | None => None end
  | None :: _ => None
  end.

Definition pick (all : list (list msg)) (o : nat * nat) : option msg :=
  let fs := nth (fst o) all [] in
  match fs with [] => None | _ => nth_error fs (snd o mod length fs) end.

Definition opt_LL_eqb (a b : option (list (list N))) : bool :=
  match a, b with
  | Some x, Some y => LL_eqb x y
  | None, None => true
  | _, _ => false
  end.

Definition check (c : case) : bool :=
  match c with
  | CFrag m max exp =>
      match frag (build m) max with
      | Ok fs => opt_LL_eqb exp (Some (map sum fs))
      | Panic _ => opt_LL_eqb exp None
      | Err _ => false
      end
  | CSeq ms order exp =>
      match all_some (map frags_of ms) with
      | None => opt_LL_eqb exp None
      | Some all => opt_LL_eqb exp (feed_trace d_init 0 (map (pick all) order))
      end
  | CWire m buf n hsz dg p =>
      let mm := build m in
      (serialize_ret mm buf =? n)%Z && Nat.eqb (header_size mm) hsz &&
      (if (n <? 0)%Z then match dg with None => true | _ => false end
       else match dg with Some g => digest (serialize mm) =? g | None => false end) &&
      (if (n <? 0)%Z then pres_eqb p PRnone else pres_eqb p (pres_of (parse (serialize mm))))
  | CParse b p => pres_eqb p (pres_of (parse b))
  end.

Definition mismatches (l : list case) : list nat := mism_from check 0 l.
