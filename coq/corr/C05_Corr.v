(* C05 correspondence: how one observed implementation result is compared with the model.
   Used by the generated run/C05/cases_*.v files.  Not part of any theorem. *)
From Hy Require Import lib.Harness model.C05_Frag model.C05_Send model.C05_SendIds model.C05_Sess.
From Coq Require Import ZArith.
Local Open Scope N_scope.

Record mspec := mkSpec { s_sid : N; s_pid : N; s_fid : N; s_fc : N;
                         s_al : N; s_aa : N; s_ab : N; s_dl : N; s_da : N; s_db : N }.

Definition build (s : mspec) : msg :=
  mkMsg (s_sid s) (s_pid s) (s_fid s) (s_fc s) (gen_data (s_aa s) (s_ab s) (s_al s))
        (gen_data (s_da s) (s_db s) (s_dl s)).

Definition sum (m : msg) : list N :=
  [sid m; pid m; fid m; fcount m; N.of_nat (length (addr m)); digest (addr m);
   N.of_nat (length (data m)); digest (data m)].

Inductive pres := PRok (s : list N) | PReof | PRinvalid | PRpanic | PRnone.

(* ---- send path (model/C05_Send.v): one step of a history and what the harness observed for it ---- *)
Record sspec := mkSS { ss_al : N; ss_aa : N; ss_ab : N; ss_dl : N; ss_da : N; ss_db : N;
                       ss_resp : list ioresp;   (* the connection's answer per SendMessage call, last one repeats *)
                       ss_np : N }.             (* the random packet id the implementation drew (oracle) *)
(* calls: per SendMessage call  sum(message) ++ [Serialize result; outcome 0 accept 1 drop 2 too-large 3 error; limit] *)
Record sobs := mkSO { so_calls : list (list Z); so_ret : Z; so_retL : Z; so_emits : list (list N) }.

Inductive case :=
| CSend (sid : N) (buflen : nat) (steps : list sspec) (obs : list sobs)
(* long operation: summary of the ids of one history of n fragmented sends (every message split) - the
   observation that discharges the id hypothesis of the send-path theorems, up to chance (see ids_ok) *)
| CSendIds (n w thr zeros : N) (lags : list N) (period : N) (sample : list N) (rep : option (N * N)) (ok : bool)
(* reassembly through the session managers (model/C05_Sess.v): srv = server side; iv = sweep interval, timeout, off =
   time of the first operation (ms); ms = the messages (each split against its limit); ops = [0;j;x] fragment x of
   message j arrives (over the wire: serialize, parse), [1;d] d ms pass, [2;s] client closes session s, [3] client opens
   a session; exp = per delivery [position; session; |addr|; digest addr; |payload|; digest payload] (None: panic);
   cnts = size of the session table after every operation *)
| CSess (srv : bool) (iv timeout off : N) (ms : list (mspec * Z)) (ops : list (list N))
        (exp : option (list (list N))) (cnts : list N)
| CFrag (m : mspec) (max : Z) (exp : option (list (list N)))
| CSeq (ms : list (mspec * Z)) (order : list (nat * nat)) (exp : option (list (list N)))
| CWire (m : mspec) (buf : nat) (n : Z) (hsz : nat) (dg : option N) (p : pres)
| CParse (b : list byte) (p : pres).

Definition LL_eqb (a b : list (list N)) : bool :=
  Nat.eqb (length a) (length b) && forallb (fun p => N_list_eqb (fst p) (snd p)) (combine a b).

Definition pres_eqb (a b : pres) : bool :=
  match a, b with
  | PRok x, PRok y => N_list_eqb x y
  | PReof, PReof | PRinvalid, PRinvalid | PRpanic, PRpanic | PRnone, PRnone => true
  | _, _ => false
  end.

Definition pres_of (r : Res msg) : pres :=
  match r with
  | Ok m => PRok (sum m)
  | Err EEof => PReof
  | Err _ => PRinvalid
  | Panic _ => PRpanic
  end.

Fixpoint feed_trace (d : dstate) (pos : N) (l : list (option msg)) : option (list (list N)) :=
  match l with
  | [] => Some []
  | None :: t => feed_trace d (pos + 1) t
  | Some m :: t =>
      match feed d m with
      | Ok (d1, o) =>
          match feed_trace d1 (pos + 1) t with
          | Some r => Some (match o with Some x => (pos :: sum x) :: r | None => r end)
          | None => None
          end
      | _ => None
      end
  end.

Definition frags_of (sz : mspec * Z) : option (list msg) :=
  match frag (build (fst sz)) (snd sz) with Ok fs => Some fs | _ => None end.

Fixpoint all_some {A} (l : list (option A)) : option (list A) :=
  match l with
  | [] => Some []
  | Some x :: t => match all_some t with Some r => Some (x :: r) | None => None end
  | None :: _ => None
  end.

Definition pick (all : list (list msg)) (o : nat * nat) : option msg :=
  let fs := nth (fst o) all [] in
  match fs with [] => None | _ => nth_error fs (snd o mod length fs) end.

Definition opt_LL_eqb (a b : option (list (list N))) : bool :=
  match a, b with
  | Some x, Some y => LL_eqb x y
  | None, None => true
  | _, _ => false
  end.

Definition env_of (l : list ioresp) : nat -> ioresp := fun i => nth i l (last l RFail).

Definition Z_list_eqb (a b : list Z) : bool :=
  Nat.eqb (length a) (length b) && forallb (fun p => Z.eqb (fst p) (snd p)) (combine a b).
Definition ZL_eqb (a b : list (list Z)) : bool :=
  Nat.eqb (length a) (length b) && forallb (fun p => Z_list_eqb (fst p) (snd p)) (combine a b).

Definition call_obs (buflen : nat) (e : msg * ioout) : list Z :=
  let m := fst e in
  map Z.of_N (sum m) ++
  [(if Nat.ltb buflen (size m) then -1 else Z.of_nat (size m))%Z;
   match snd e with OAccept => 0 | ODrop => 1 | OTooLarge _ => 2 | OFail => 3 end%Z;
   match snd e with OTooLarge L => L | _ => 0%Z end].

(* the far side of the harness: every accepted datagram goes over the wire (serialize, parse) into a Defragger *)
Fixpoint far_feed (d : dstate) (l : list msg) : option (dstate * list (list N)) :=
  match l with
  | [] => Some (d, [])
  | m :: t =>
      match parse (serialize m) with
      | Ok pm =>
          match feed d pm with
          | Ok (d1, o) =>
              match far_feed d1 t with
              | Some (d2, r) => Some (d2, match o with Some x => sum x :: r | None => r end)
              | None => None
              end
          | _ => None
          end
      | _ => None
      end
  end.

Fixpoint send_check (sid : N) (buflen : nat) (d : dstate) (steps : list sspec) (obs : list sobs) : bool :=
  match steps, obs with
  | [], [] => true
  | s :: ts, o :: tobs =>
      match send buflen (env_of (ss_resp s)) (ss_np s) sid
                 (gen_data (ss_aa s) (ss_ab s) (ss_al s)) (gen_data (ss_da s) (ss_db s) (ss_dl s)) with
      | Ok (evs, r) =>
          ZL_eqb (map (call_obs buflen) evs) (so_calls o) &&
          (match r with
           | SNil => (so_ret o =? 0)%Z
           | STooLarge L => (so_ret o =? 1)%Z && (so_retL o =? L)%Z
           | SFail => (so_ret o =? 2)%Z
           end) &&
          (* a fragmented message carries an id the code can draw: uint16(rand.Intn(0xFFFF)) + 1 *)
          (if Nat.leb 2 (length evs) then (1 <=? ss_np s) && (ss_np s <=? 65535) else true) &&
          match far_feed d (accepted evs) with
          | Some (d1, em) => LL_eqb em (so_emits o) && send_check sid buflen d1 ts tobs
          | None => false
          end
      | _ => false
      end
  | _, _ => false
  end.

(* ---- ids of a long history ----
   lags = [X_1; ...; X_(w-1)], X_d = number of sends carrying the id of the send d earlier; period = the cycle length
   of the id sequence when it is cyclic, else 0.  The ids discharge the hypothesis "fresh within the horizon w"
   (win_distinct w, theorem C05_send_hist_delivers_window) exactly when every X_d is 0; random ids cannot promise
   that, so the accepted observation is: never 0; every X_d below thr, where thr makes the chance of an honest
   uniform generator reaching it negligible (fa_ok: (w-1) * (n/65535)^thr / thr! < 5e-10, X_d being
   Binomial(n-d, 1/65535)); and no repeat at all within the horizon when the sequence is cyclic. *)
Definition sumN (l : list N) : N := fold_right N.add 0 l.
Definition maxN (l : list N) : N := fold_right N.max 0 l.
Fixpoint factN (k : nat) : N := match k with O => 1 | S k' => N.of_nat k * factN k' end.

Definition fa_ok (n w thr : N) : bool :=
  (w - 1) * n ^ thr * 2000000000 <? 65535 ^ thr * factN (N.to_nat thr).

Definition ids_ok (thr zeros : N) (lags : list N) (period : N) : bool :=
  (zeros =? 0) && (maxN lags <? thr) && ((period =? 0) || (sumN lags =? 0)).

Definition ids_check (n w thr zeros : N) (lags : list N) (period : N) (sample : list N) (rep : option (N * N))
  (ok : bool) : bool :=
  (65536 <? n) && (2 <=? w) && (thr <=? 64) && fa_ok n w thr &&
  Nat.eqb (length lags) (N.to_nat w - 1) &&
  Bool.eqb (ids_ok thr zeros lags period) ok &&
  match rep with
  | None => (sumN lags =? 0) && win_distinct (N.to_nat w) sample
  | Some (i, j) =>
      (* the harness shows one repeat inside the horizon, in the sample of the sequence it hands over *)
      (i <? j) && (j - i <? w) && (0 <? sumN lags) &&
      match nth_error sample (N.to_nat i), nth_error sample (N.to_nat j) with
      | Some x, Some y => (x =? y) && negb (win_distinct (N.to_nat w) sample) &&
                          (match nth_error lags (N.to_nat (j - i) - 1) with Some c => 0 <? c | None => false end)
      | _, _ => false
      end
  end.

(* ---- session managers ---- *)
Definition sum_out (pos : N) (x : msg) : list N :=
  [pos; sid x; N.of_nat (length (addr x)); digest (addr x); N.of_nat (length (data x)); digest (data x)].

Definition op_of (srv : bool) (all : list (list msg)) (o : list N) : option mop :=
  match o with
  | [0; j; x] =>
      match pick all (N.to_nat j, N.to_nat x) with
      | Some f => match parse (serialize f) with
                  | Ok pm => Some (if srv then MArrS pm else MArrC pm)
                  | _ => None      (* the receive loop skips a datagram that does not parse *)
                  end
      | None => None
      end
  | [1; d] => Some (MSleep d)
  | [2; s] => Some (MClose s)
  | [3] => Some MOpen
  | _ => None
  end.

Fixpoint dedupN (l : list N) : list N :=
  match l with
  | [] => []
  | x :: t => if existsb (N.eqb x) t then dedupN t else x :: dedupN t
  end.

Definition tab_count (keys : list N) (t : stab) : N :=
  N.of_nat (length (filter (fun k => match t k with Some _ => true | None => false end) keys)).

Fixpoint sess_trace (iv timeout : N) (srv : bool) (all : list (list msg)) (keys : list N) (st : mstate) (pos : N)
         (ops : list (list N)) : option (list (list N) * list N) :=
  match ops with
  | [] => Some ([], [])
  | o :: t =>
      match (match op_of srv all o with Some op => sm_step iv timeout st op | None => Ok (st, None) end) with
      | Ok (st1, out) =>
          match sess_trace iv timeout srv all keys st1 (pos + 1) t with
          | Some (em, cn) => Some (match out with Some x => sum_out pos x :: em | None => em end,
                                   tab_count keys (ms_tab st1) :: cn)
          | None => None
          end
      | _ => None
      end
  end.

(* every key a history can touch: the session ids of its messages, and the ids NewUDP can hand out *)
Definition sess_keys (all : list (list msg)) (ops : list (list N)) : list N :=
  dedupN (map sid (concat all) ++ map N.of_nat (seq 1 (length ops))).

Definition sess_check (srv : bool) (iv timeout off : N) (ms : list (mspec * Z)) (ops : list (list N))
           (exp : option (list (list N))) (cnts : list N) : bool :=
  match all_some (map frags_of ms) with
  | None => false
  | Some all =>
      match sess_trace iv timeout srv all (sess_keys all ops) (ms_init off) 0 ops, exp with
      | Some (em, cn), Some e => LL_eqb em e && N_list_eqb cn cnts
      | None, None => true
      | _, _ => false
      end
  end.

Definition check (c : case) : bool :=
  match c with
  | CSess srv iv timeout off ms ops exp cnts => sess_check srv iv timeout off ms ops exp cnts
  | CSendIds n w thr zeros lags period sample rep ok => ids_check n w thr zeros lags period sample rep ok
  | CSend sid buflen steps obs => send_check sid buflen d_init steps obs
  | CFrag m max exp =>
      match frag (build m) max with
      | Ok fs => opt_LL_eqb exp (Some (map sum fs))
      | Panic _ => opt_LL_eqb exp None
      | Err _ => false
      end
  | CSeq ms order exp =>
      match all_some (map frags_of ms) with
      | None => opt_LL_eqb exp None
      | Some all => opt_LL_eqb exp (feed_trace d_init 0 (map (pick all) order))
      end
  | CWire m buf n hsz dg p =>
      let mm := build m in
      (serialize_ret mm buf =? n)%Z && Nat.eqb (header_size mm) hsz &&
      (if (n <? 0)%Z then match dg with None => true | _ => false end
       else match dg with Some g => digest (serialize mm) =? g | None => false end) &&
      (if (n <? 0)%Z then pres_eqb p PRnone else pres_eqb p (pres_of (parse (serialize mm))))
  | CParse b p => pres_eqb p (pres_of (parse b))
  end.

Definition mismatches (l : list case) : list nat := mism_from check 0 l.
