(* C06 correspondence: a boundary log recorded from the Go code (copyTwoWayEx / copyTwoWay driven with
   scripted fakes, or a whole server + client run) is replayed against the LTS of model/C06_Relay.v.
   Used by the generated run/C06/cases_*.v files.  Not part of any theorem.

   Hidden action: the channel send `errChan <- e` of a loop (LReturn) is not visible at the boundary.
   A loop that is at PRet takes no other action, and its send commutes with every action of the other
   loop and of the parent except the parent's receive; so the replay performs a hidden send only when
   the observed receive needs it (any accepted schedule can be reordered into that shape). *)
From Hy Require Import lib.Harness model.C04_Framing model.C06_Relay model.C06_E2E model.C06_Hook model.C06_Events gen.ParamsC06.
From Hy Require lib.Res model.C17_Sniff.
From Coq Require Import ZArith Bool.
From Coq Require Strings.String.
Local Open Scope N_scope.
Module S17 := Hy.model.C17_Sniff.

(* 32-bit polynomial digest, same function as c06Digest of the Go harness (no division: cheap in the VM) *)
Definition dg32 (l : bytes) : N :=
  fold_left (fun h c => N.land (h * 131 + b2n c + 1) 4294967295) l 0.

Inductive obs :=
| ORead (d : dir) (bl a b off n : N) (er : eerr)     (* chunk = bytes off..off+n-1 of the stream i |-> a*i+b *)
| OLog (tx rx : N) (v : bool)
| OWrite (d : dir) (n dg : N) (nw : Z) (ew : eerr)   (* length and digest of the slice handed to Write *)
| OWriteBig (d : dir) (off n : N) (nw : Z) (ew : eerr)  (* the slice handed to Write was compared by the harness, byte by
                                                         byte, with bytes off..off+n-1 of the source stream of d *)
| OFirst (e : gerr)
| OCloseT | OCloseS | OCloseC.

(* ghost of the replay: (offset, length) of the chunk the last Read of each direction returned *)
Definition ghost := (N * N * (N * N))%type.
Definition gget (g : ghost) (d : dir) : N * N := match d with Up => fst g | Down => snd g end.
Definition gset (g : ghost) (o : obs) : ghost :=
  match o with
  | ORead Up _ _ _ off n _ => ((off, n), snd g)
  | ORead Down _ _ _ off n _ => (fst g, (off, n))
  | _ => g
  end.
Definition SmallChunk : N := 2048.

Definition oact (g : ghost) (s : st) (o : obs) : list act :=
  match o with
  | ORead d bl a b off n er => [ALoop d (LRead bl (gen_data_from a b off (N.to_nat n)) er)]
  | OLog tx rx v =>
      match pU s with
      | PLog _ _ => match step s (ALoop Up (LLog tx rx v)) with Some _ => [ALoop Up (LLog tx rx v)] | None => [ALoop Down (LLog tx rx v)] end
      | _ => [ALoop Down (LLog tx rx v)]
      end
  | OWrite d n dg nw ew =>
      match pcof s d with
      | PWrite c _ => if (blen c =? n) && (n <=? SmallChunk) && (dg32 c =? dg) then [ALoop d (LWrite c nw ew)] else []
      | _ => []
      end
  | OWriteBig d off n nw ew =>
      match pcof s d with
      | PWrite c _ => let '(o0, n0) := gget g d in
                      if (blen c =? n) && (off =? o0) && (n =? n0) then [ALoop d (LWrite c nw ew)] else []
      | _ => []
      end
  | OFirst e =>
      match pU s, pD s with
      | PRet e1, _ => if gerr_eqb e e1 then [ALoop Up (LReturn e1); AFirstReturn e]
                      else match pD s with PRet e2 => [ALoop Down (LReturn e2); AFirstReturn e] | _ => [] end
      | _, PRet e2 => [ALoop Down (LReturn e2); AFirstReturn e]
      | _, _ => []
      end
  | OCloseT => [ACloseTarget]
  | OCloseS => [ACloseStream]
  | OCloseC => [ACloseConn]
  end.

(* replay: final state and the full run (hidden sends inserted), or None where the log leaves the model *)
Fixpoint replay (g : ghost) (s : st) (tr : list obs) (acc : list act) : option (st * list act) :=
  match tr with
  | [] => Some (s, rev acc)
  | o :: t =>
      match oact g s o with
      | [] => None
      | l => match exec s l with
             | Some s' => replay (gset g o) s' t (rev_append l acc)
             | None => None
             end
      end
  end.

(* ---- monitors: the conclusions of the theorems of props/C06.v as booleans on a concrete run *)
Fixpoint is_prefix (a b : bytes) : bool :=
  match a, b with
  | [], _ => true
  | x :: a', y :: b' => Byte.eqb x y && is_prefix a' b'
  | _ :: _, [] => false
  end.

Definition wokb_act (a : lact) : bool :=
  match a with
  | LWrite c nw ew => ((0 <=? nw) && (nw <=? Z.of_N (blen c)))%Z &&
                      (negb (nw <? Z.of_N (blen c))%Z || negb (eerr_eqb ew EN))
  | _ => true
  end.

Fixpoint after_veto_ok (l : list lact) : bool :=
  match l with
  | [] => true
  | LLog _ _ false :: t => match t with [] => true | [LReturn GDisconnect] => true | _ => false end
  | _ :: t => after_veto_ok t
  end.

(* every Write is directly preceded by the Read of the same chunk and (Logged) the approving Log of its size *)
Fixpoint order_ok (m : mode) (d : dir) (prev2 prev1 : option lact) (l : list lact) : bool :=
  match l with
  | [] => true
  | a :: t =>
      match a with
      | LWrite c _ _ =>
          match m, prev2, prev1 with
          | Logged, Some (LRead _ c0 _), Some (LLog tx rx true) =>
              let '(etx, erx) := log_args d (blen c) in beqb c c0 && (tx =? etx) && (rx =? erx)
          | Fast, _, Some (LRead _ c0 _) => beqb c c0
          | _, _, _ => false
          end
      | _ => true
      end && order_ok m d prev1 (Some a) t
  end.

Definition monitor_dir (m : mode) (d : dir) (full : list act) : bool :=
  let l := proj d full in
  order_ok m d None None l && after_veto_ok l &&
  (if forallb wokb_act l then
     (if blen (lsrc l) <=? 2 * SmallChunk then is_prefix (lsnk l) (lsrc l) else blen (lsnk l) <=? blen (lsrc l)) &&
     match m with Logged => llogged l =? blen (lsnk l) + inflight l | Fast => llogged l =? 0 end &&
     (inflight l <=? CopyBufSize)
   else true).

Definition has (f : act -> bool) (l : list act) : bool := existsb f l.
Definition monitor (m : mode) (full : list act) : bool := monitor_dir m Up full && monitor_dir m Down full.
(* for a run whose parent has finished: the QUIC connection is closed iff the copy returned errDisconnect *)
Definition closeconn_ok (full : list act) : bool :=
  Bool.eqb (has (fun a => match a with ACloseConn => true | _ => false end) full)
           (has (fun a => match a with AFirstReturn GDisconnect => true | _ => false end) full).

(* the chunks a direction read are consecutive stretches of its source stream i |-> a*i+b, starting at its first
   byte: what the loops read is a prefix of what the sender put on the stream (for the client stream: behind the
   request, model/C06_Request.v `served`); a request phase that takes payload bytes off the stream shows up as a
   first offset above 0 *)
Fixpoint contig (d : dir) (next : N) (tr : list obs) : bool :=
  match tr with
  | [] => true
  | ORead d' _ _ _ off n _ :: t =>
      if dir_eqb d d' then (off =? next) && contig d (next + n) t else contig d next t
  | _ :: t => contig d next t
  end.

(* the checks on one relay's finished replay: state s, full run (hidden sends inserted), its observations tr *)
Definition final_ok (m : mode) (tr : list obs) (complete : bool) (tx rx sul sud sdl sdd : N) (s : st) (full : list act) : bool :=
  contig Up 0 tr && contig Down 0 tr &&
  monitor m full &&
  (sTx s =? tx) && (sRx s =? rx) &&
  (blen (snkb Up full) =? sul) && ((2 * SmallChunk <? sul) || (dg32 (snkb Up full) =? sud)) &&
  (blen (snkb Down full) =? sdl) && ((2 * SmallChunk <? sdl) || (dg32 (snkb Down full) =? sdd)) &&
  (* a complete log ends with the parent done and both loops finished or about to send *)
  (negb complete ||
   (closeconn_ok full &&
    match par s with QDone => true | _ => false end &&
    match pU s with PRet _ | PDone _ => true | _ => false end &&
    match pD s with PRet _ | PDone _ => true | _ => false end)).

(* ---- cross-relay runs: one linearised log of several relays that go through the same copyBufPool.
   XO r buf o: observation o of relay r; for Read and Write, buf = 1 + the identity of the memory the code handed to
   the fake (0 for the other observations).  Every relay is replayed against its own copy of the one-relay LTS, all
   in step with the merged log (so "the Write carries the chunk this loop just read" is enforced for every relay),
   and at every Read / Write the ownership invariant of model/C06_Pool.v (C06_pool_buffer_has_one_owner) is checked on
   the model states: a loop keeps the buffer it started with, and no OTHER loop that is still running (at Read,
   LogTraffic or Write according to its relay's replay) has been seen with that memory. *)
Inductive xobs := XO (r : N) (buf : N) (o : obs).
Inductive xrel := XR (m : mode) (tx rx sul sud sdl sdd : N).

Record rrun := mkRR { rg : ghost; rs : st; racc : list act }.

Definition obs_mem (o : obs) : option dir :=
  match o with
  | ORead d _ _ _ _ _ _ | OWrite d _ _ _ _ | OWriteBig d _ _ _ _ => Some d
  | _ => None
  end.

Definition pc_running (p : pc) : bool := match p with PRead | PLog _ _ | PWrite _ _ => true | _ => false end.

(* owners: (relay, direction, buffer) for every loop that has been seen with a buffer *)
Definition own_ok (ws : list rrun) (owners : list (nat * dir * N)) (r : nat) (d : dir) (buf : N) : bool :=
  forallb (fun e => let '(r', d', b') := e in
             if Nat.eqb r r' && dir_eqb d d' then b' =? buf
             else negb (b' =? buf) ||
                  match nth_error ws r' with Some w => negb (pc_running (pcof (rs w) d')) | None => false end) owners.

Definition own_set (owners : list (nat * dir * N)) (r : nat) (d : dir) (buf : N) : list (nat * dir * N) :=
  (r, d, buf) :: filter (fun e => let '(r', d', _) := e in negb (Nat.eqb r r' && dir_eqb d d')) owners.

Fixpoint set_nth {A} (i : nat) (x : A) (l : list A) : list A :=
  match l, i with
  | [], _ => []
  | _ :: t, O => x :: t
  | h :: t, S k => h :: set_nth k x t
  end.

Fixpoint xreplay (ws : list rrun) (owners : list (nat * dir * N)) (tr : list xobs) : option (list rrun) :=
  match tr with
  | [] => Some ws
  | XO rN buf o :: t =>
      let r := N.to_nat rN in
      match nth_error ws r with
      | None => None
      | Some w =>
          match oact (rg w) (rs w) o with
          | [] => None
          | l =>
              match exec (rs w) l with
              | None => None
              | Some s' =>
                  let ws' := set_nth r (mkRR (gset (rg w) o) s' (rev_append l (racc w))) ws in
                  match obs_mem o with
                  | Some d => if own_ok ws owners r d buf then xreplay ws' (own_set owners r d buf) t else None
                  | None => xreplay ws' owners t
                  end
              end
          end
      end
  end.

Definition xfilter (r : nat) (tr : list xobs) : list obs :=
  flat_map (fun x => match x with XO r' _ o => if Nat.eqb r (N.to_nat r') then [o] else [] end) tr.

Fixpoint xfinal (i : nat) (rels : list xrel) (ws : list rrun) (tr : list xobs) : bool :=
  match rels, ws with
  | [], [] => true
  | XR m tx rx sul sud sdl sdd :: rt, w :: wt =>
      final_ok m (xfilter i tr) true tx rx sul sud sdl sdd (rs w) (rev (racc w)) && xfinal (S i) rt wt tr
  | _, _ => false
  end.

(* ---- end-to-end cases: one connection over the real codecs (model/C06_E2E.v).
   Server half (level (a) harness with an "e2e" object): the request frame is what the real WriteTCPRequest produced
   (address, padding as drawn), the client stream is the script `usegs` (header stretches and payload stretches per
   event, with the event's error), it is parsed by the model of the request phase, the relay log is replayed as for
   CRelay and the Reads of both loops are checked to be the Reads of the two scripts; the response frame is what the
   real WriteTCPResponse produced.  Client half (real client.TCP / tcpConn.Read on a QUIC stream served the first
   `cut` bytes of what the server half wrote, ended by FIN or reset): its observable outcome is compared with
   client_io of the model on a script of those bytes. *)
Definition sbytes (s : String.string) : bytes := String.list_byte_of_string s.
Definition mk_err (k : N) : option errc := match k with 0 => None | 1 => Some EEof | _ => Some EOther end.
Inductive useg := USeg (hlo hlen poff pn : N) (err : N).
Definition seg_ev (hdr : bytes) (a b : N) (u : useg) : ev :=
  match u with
  | USeg hlo hlen poff pn k =>
      Ev (firstn (N.to_nat hlen) (skipn (N.to_nat hlo) hdr) ++ gen_data_from a b poff (N.to_nat pn)) (mk_err k)
  end.
Definition mk_script (hdr : bytes) (a b : N) (segs : list useg) : script := map (seg_ev hdr a b) segs.

(* the fake's scripted errors: "eof" = io.EOF, "err" = fake error 7; 90 / 92 = Read after the end was closed / after ten
   idle minutes (the teardown, not part of the peer's stream): they end the comparison of that loop *)
Definition er_match (er : eerr) (oe : option errc) : bool :=
  match er, oe with
  | EN, None => true
  | EEOF, Some EEof => true
  | EE 7, Some EOther => true
  | _, _ => false
  end.
Fixpoint reads_okb (s : script) (l : list lact) : bool :=
  match l with
  | [] => true
  | LRead bl c er :: t =>
      match er with
      | EE 90 | EE 92 => match c with [] => reads_okb s t | _ => false end
      | _ => let r := read1 (N.to_nat bl) s in
             beqb c (fst (fst r)) && er_match er (snd (fst r)) && reads_okb (snd r) t
      end
  | _ :: t => reads_okb s t
  end.

(* observable outcome of the client: how TCP() ended (0 ok, 100 DialError msg, else an error class), the bytes the
   application got, how its Reads ended (100 DialError msg, else an error class) *)
Definition ecode (e : errc) : N := match e with EEof => 1 | EShort => 2 | EInvalid => 3 | _ => 4 end.
Inductive cout := COut (tcp : N) (tmsg : bytes) (got : bytes) (fin : N) (fmsg : bytes).
Definition cout_of (r : rderr + (bytes * option rderr)) : option cout :=
  match r with
  | inl (RDial m) => Some (COut 100 m [] 0 [])
  | inl (RResp e) | inl (RStream e) => Some (COut (ecode e) [] [] 0 [])
  | inr (got, Some (RDial m)) => Some (COut 0 [] got 100 m)
  | inr (got, Some (RResp e)) | inr (got, Some (RStream e)) => Some (COut 0 [] got (ecode e) [])
  | inr (_, None) => None
  end.
(* the client half as observed: fast open, bytes served, how the stream ended (0 FIN, 1 reset), where the model's
   script is cut, the application's buffer size; outcome *)
Inductive cobs :=
| CObs (fo : bool) (cut endk csplit bsz : N) (tcp : N) (tmsg : String.string) (gotlen gotdg : N)
       (fin : N) (fmsg : String.string)
(* a read-deadline history: the peer paused before the byte offsets `pauses` of what it served until a Read of the
   application had failed with the deadline error; the application retried; the stream ended with FIN *)
| CObsTo (fo : bool) (cut bsz : N) (pauses : list N) (tcp : N) (tmsg : String.string) (gotlen gotdg : N)
         (fin : N) (fmsg : String.string).

(* the served bytes with an expired deadline (Fail EOther) at every pause *)
Fixpoint cut_script (data : bytes) (off : N) (pauses : list N) : script :=
  match pauses with
  | [] => [Chunk data]
  | p :: t =>
      let k := N.to_nat (p - off) in
      (if p =? off then [] else [Chunk (firstn k data)]) ++ Fail EOther :: cut_script (skipn k data) p t
  end.
Definition client_io_polls (fo : bool) (sc : script) (ns : list nat) : rderr + (bytes * option rderr) :=
  match tcp_io fo (mkRS sc ctr0) with inl e => inl e | inr c => inr (app_polls c ns) end.

Definition client_ok (out : bytes) (o : cobs) : bool :=
  match o with
  | CObs fo cut endk csplit bsz tcp tmsg gotlen gotdg fin fmsg =>
      let served := firstn (N.to_nat cut) out in
      let sc := [Chunk (firstn (N.to_nat csplit) served); Chunk (skipn (N.to_nat csplit) served);
                 Ev [] (Some (match endk with 0 => EEof | _ => EOther end))] in
      let ns := repeat (N.to_nat bsz) (N.to_nat (blen served / bsz + 3)) in
      match cout_of (client_io fo sc ns) with
      | None => false
      | Some (COut mtcp mtmsg mgot mfin mfmsg) =>
          match endk with
          | 0 => (tcp =? mtcp) && beqb (sbytes tmsg) mtmsg && (fin =? mfin) && beqb (sbytes fmsg) mfmsg &&
                 (blen mgot =? gotlen) && (dg32 mgot =? gotdg)
          | _ => (* a reset may overtake bytes already written: the outcome of the model, or a reset at an earlier point *)
                 ((tcp =? mtcp) && beqb (sbytes tmsg) mtmsg || (tcp =? 4)) &&
                 ((tcp =? 4) || (fin =? mfin) && beqb (sbytes fmsg) mfmsg || (fin =? 4)) &&
                 (gotlen <=? blen mgot) && (dg32 (firstn (N.to_nat gotlen) mgot) =? gotdg)
          end
      end
  | CObsTo fo cut bsz pauses tcp tmsg gotlen gotdg fin fmsg =>
      let served := firstn (N.to_nat cut) out in
      let sc := cut_script served 0 pauses ++ [Ev [] (Some EEof)] in
      let ns := repeat (N.to_nat bsz) (N.to_nat (blen served / bsz + 4) + 2 * length pauses) in
      match cout_of (client_io_polls fo sc ns) with
      | None => false
      | Some (COut mtcp mtmsg mgot mfin mfmsg) =>
          (tcp =? mtcp) && beqb (sbytes tmsg) mtmsg && (fin =? mfin) && beqb (sbytes fmsg) mfmsg &&
          (blen mgot =? gotlen) && (dg32 mgot =? gotdg)
      end
  end.

Definition dial_err_run (msg : bytes) : list act := [AReadReq true; ADial (Some msg); AWriteResp false msg; ACloseStream].

Inductive case :=
| CRelay (m : mode) (tr : list obs) (complete : bool) (tx rx : N) (su_len su_dg sd_len sd_dg : N)
| CXRelay (rels : list xrel) (tr : list xobs)
| CE2E (m : mode) (addr reqpad : String.string) (hdr_len hdr_dg : N)
       (ua ub : N) (usegs : list useg) (da db : N) (dsegs : list useg)
       (dial_err : option String.string) (resppad : String.string) (resp_len resp_dg : N)
       (tr : list obs) (tx rx sul sud sdl sdd : N) (cli : option cobs)
(* level (b), a request a RequestHook intercepted and then the hook aborted / the dial failed, on the real server and client:
   fast open, abort or failed dial, bytes the hook took off the stream, the dial error, bytes the application read,
   how its Reads ended (1 = EOF) *)
| CHookFail (fo abort : bool) (pb : N) (msg : String.string) (got fin : N)
(* level (b), the end of a relay on the real server and client, per configuration: EventLogger configured or not, the
   TrafficLogger vetoed (in the Up / Down direction) or not; observed: whether the user's QUIC connection was closed
   (veto: new Client.TCP calls fail within the bound; no veto: a fresh request is served), and what the EventLogger's
   TCPError calls for the request carried (true = a non-nil error) *)
| CTail (evlog vetoed veto_up closed : bool) (ev_errs : list bool)
(* level (c), a relay whose request hook was the real Sniffer, on the real server and client (model/C06_Sniffed.v): `sent`
   is what the client wrote; the sniffer took `consumed` bytes off the stream (observed: what the client wrote minus what
   the relay forwarded behind the putback) and stopped there because the record was complete (e = 0), the stream ended
   (1) or its read deadline fired (2); it handed back pbn bytes and left hook_addr (sni: the server name it answered);
   `writes` are the sizes of the target connection's Write calls in order, `uplogs` the tx arguments of the LogTraffic
   calls, stx StreamStats.Tx, gotn the bytes the target held when the server had torn the relay down after the client's
   EOF (the harness found them to be the first gotn bytes of `sent`, compared as such here) *)
| CSniff (logged hooked : bool) (sent : list byte) (consumed e : N) (sni : option (list byte)) (addr hook_addr : String.string)
         (pbn : N) (writes uplogs : list N) (stx gotn : N).

(* the model's run of that connection; the whole stream reaches the client, then FIN *)
Definition check_hookfail (fo abort : bool) (pb : N) (msg : String.string) (got fin : N) : bool :=
  let run := if abort then [XReadReq true; XCheck true; XWriteResp true HookMsg; XHookTCP None; XCloseStream]
             else hooked_dial_error_run (gen_data 7 3 pb) (sbytes msg) in
  let wr := real_write_resp (repeat x70 128) in
  match hexec false Logged HReadReq run with
  | Some HEnd =>
      (length (hresps run) <=? 1)%nat &&
      match client_io fo [Chunk (hstream_out wr run); Ev [] (Some EEof)] [4096%nat; 4096%nat] with
      | inr (g, Some (RStream EEof)) => (blen g =? got) && (fin =? 1)
      | _ => false
      end
  | _ => false
  end.

(* the model's complete tail (model/C06_Events.v) for the value the copy returned: errDisconnect after a veto; without a
   veto some other value (nil, or an error of an end: the EventLogger's argument is then not predicted) *)
Definition check_tail (evlog vetoed closed : bool) (ev_errs : list bool) : bool :=
  let e := if vetoed then GDisconnect else GNil in
  let run := tail_run false evlog e in
  match texec false (tail_init evlog e) run with
  | Some TEnd =>
      Bool.eqb (closes_conn run) closed &&
      match evlog, ev_errs with
      | false, [] => true
      | true, [b] => if vetoed then Bool.eqb b (negb (forallb (fun x => gerr_eqb x GNil) (events_of run))) else true
      | _, _ => false
      end
  | _ => false
  end.

Definition check_e2e (m : mode) (addr reqpad : String.string) (hdr_len hdr_dg : N)
       (ua ub : N) (usegs : list useg) (da db : N) (dsegs : list useg)
       (dial_err : option String.string) (resppad : String.string) (resp_len resp_dg : N)
       (tr : list obs) (tx rx sul sud sdl sdd : N) (cli : option cobs) : bool :=
  let addrb := sbytes addr in
  let reqframe := real_write_req (sbytes reqpad) addrb in
  let wr := real_write_resp (sbytes resppad) in
  drawableb tcpRequestPaddingMin tcpRequestPaddingMax (sbytes reqpad) &&
  drawableb tcpResponsePaddingMin tcpResponsePaddingMax (sbytes resppad) &&
  (blen reqframe =? hdr_len) && (dg32 reqframe =? hdr_dg) &&
  match run_on server_read_request (mk_script reqframe ua ub usegs) with
  | (Ok a, st1) =>
      beqb a addrb &&
      match dial_err with
      | Some msg =>
          let run := dial_err_run (sbytes msg) in
          let out := stream_out wr run in
          (blen out =? resp_len) && (dg32 out =? resp_dg) &&
          match tr with [OCloseS] => true | _ => false end &&
          match exec (init m) run with
          | Some s => match par s with QDone => true | _ => false end
          | None => false
          end &&
          (sul =? 0) && (sdl =? 0) &&
          match cli with Some o => client_ok out o | None => true end
      | None =>
          match replay ((0, 0), (0, 0)) (relay_init m) tr [] with
          | None => false
          | Some (s, full) =>
              let run := accept_run ++ full in
              let out := stream_out wr run in
              final_ok m tr true tx rx sul sud sdl sdd s full &&
              match exec (init m) run with Some _ => true | None => false end &&
              reads_okb (rs_script st1) (proj Up full) &&
              reads_okb (mk_script [] da db dsegs) (proj Down full) &&
              (blen (wr true Connected) =? resp_len) && (dg32 (wr true Connected) =? resp_dg) &&
              (blen out =? resp_len + sdl) &&
              match cli with Some o => client_ok out o | None => true end
          end
      end
  | _ => false
  end.

(* cut `sent` into the chunks the target's Write calls carried *)
Fixpoint carve_w (sent : bytes) (ws : list N) : list bytes :=
  match ws with
  | [] => []
  | w :: t => firstn (N.to_nat w) sent :: carve_w (skipn (N.to_nat w) sent) t
  end.

(* the run of handleTCPRequest (model/C06_Hook.v) that produces these Write calls: hooked - the ok response before the
   dial, the hook's result, the direct write of a non-empty putback - or not; then every chunk of the Up loop (Read of
   exactly that chunk, its LogTraffic with a logger, the Write), the client's EOF, the return of nil and the teardown *)
Definition sniff_run (logged hooked : bool) (pb : bytes) (chunks : list bytes) : list hact :=
  let up a := XRelay (ALoop Up a) in
  let loop c := [up (LRead CopyBufSize c EN)] ++
                (if logged then [up (LLog (blen c) 0 true)] else []) ++
                [up (LWrite c (Z.of_N (blen c)) EN)] in
  (if hooked
   then [XReadReq true; XCheck true; XWriteResp true HookMsg; XHookTCP (Some pb); XDial None] ++
        match pb with [] => [] | _ => [XPutback pb (Z.of_N (blen pb))] end
   else [XReadReq true; XCheck false; XDial None; XWriteResp true Connected]) ++
  flat_map loop chunks ++
  [up (LRead CopyBufSize [] EEOF); up (LReturn GNil); XRelay (AFirstReturn GNil); XRelay ACloseTarget; XRelay ACloseStream].

Definition sn_err (n : N) : option S17.c17_serr :=
  match n with 0 => None | 1 => Some S17.SEof | _ => Some S17.STimeout end.

Definition check_sniff (logged hooked : bool) (sent : list byte) (consumed e : N) (sni : option (list byte))
           (addr hook_addr : String.string) (pbn : N) (writes uplogs : list N) (stx gotn : N) : bool :=
  let addrb := sbytes addr in
  let taken := firstn (N.to_nat consumed) sent in
  (* the sniffer on what it took off the stream: it hands back all of it and nothing is left of those bytes *)
  let hook :=
    if hooked
    then match S17.sniff_tcp 0 (fun _ => S17.CStop None) (fun _ => sni) false [S17.Ev taken (sn_err e)] addrb with
         | Res.Ok o =>
             if negb (S17.o_err o) && (blen (S17.o_replay o) =? pbn) && bytes_eqb (S17.o_replay o) (firstn (N.to_nat pbn) sent) &&
                (match S17.c17_unread (S17.o_rest o) with [] => true | _ => false end) &&
                bytes_eqb (S17.o_addr o) (sbytes hook_addr)
             then Some (S17.o_replay o) else None
         | _ => None
         end
    else if (consumed =? 0) && (pbn =? 0) then Some [] else None in
  match hook with
  | None => false
  | Some pb =>
      let rel_writes := match pb with [] => writes | _ => tl writes end in
      (match pb, writes with [], _ => true | _, w :: _ => w =? pbn | _, [] => false end) &&
      let chunks := carve_w (skipn (N.to_nat consumed) sent) rel_writes in
      let run := sniff_run logged hooked pb chunks in
      match hexec false (if logged then Logged else Fast) HReadReq run with
      | Some (HRelay tx0 s) =>
          (match par s with QDone => true | _ => false end) &&
          bytes_eqb (htarget_in run) (firstn (N.to_nat gotn) sent) && (blen (htarget_in run) =? gotn) &&
          (if logged
           then (match hstats_tx (HRelay tx0 s) with Some t => t =? stx | None => false end) && N_list_eqb uplogs rel_writes
           else true)
      | _ => false
      end
  end.

Definition check (c : case) : bool :=
  match c with
  | CRelay m tr complete tx rx sul sud sdl sdd =>
      match replay ((0, 0), (0, 0)) (relay_init m) tr [] with
      | None => false
      | Some (s, full) => final_ok m tr complete tx rx sul sud sdl sdd s full
      end
  | CXRelay rels tr =>
      match xreplay (map (fun x => match x with XR m _ _ _ _ _ _ => mkRR ((0, 0), (0, 0)) (relay_init m) [] end) rels) [] tr with
      | None => false
      | Some ws => xfinal 0 rels ws tr
      end
  | CE2E m addr reqpad hl hd ua ub us da db ds de rp rl rd tr tx rx sul sud sdl sdd cli =>
      check_e2e m addr reqpad hl hd ua ub us da db ds de rp rl rd tr tx rx sul sud sdl sdd cli
  | CHookFail fo abort pb msg got fin => check_hookfail fo abort pb msg got fin
  | CTail evlog vetoed veto_up closed ev_errs => check_tail evlog vetoed closed ev_errs
  | CSniff logged hooked sent consumed e sni addr hook_addr pbn writes uplogs stx gotn =>
      check_sniff logged hooked sent consumed e sni addr hook_addr pbn writes uplogs stx gotn
  end.

Definition mismatches (l : list case) : list nat := mism_from check 0 l.
