(* C07 correspondence: the boundary log recorded from the implementation (one history) must be a trace
   of the model's LTS: the hidden actions (table lookup / insert / delete, Last stores, closed-flag
   checks without a socket, sweeper snapshot and stop) are resolved by simulating the LTS as a
   nondeterministic automaton (sets of states, tau-closure between visible events).  At the end some
   state of the set must be terminal with the observed table size.  The trace monitors (socket owner
   on every write / send, at most one Close per socket) are evaluated on the log as well.
   Not part of any theorem. *)
From Hy Require Import lib.Harness model.C07_UDPSessions model.C07_Birth.
From Coq Require Import NArith List Bool.
Local Open Scope N_scope.

Definition optN_eqb (a b : option N) : bool :=
  match a, b with Some x, Some y => x =? y | None, None => true | _, _ => false end.

Definition ppc_eqb (a b : ppc) : bool :=
  match a, b with
  | PNone, PNone | PRead, PRead | PC1, PC1 | PC2, PC2 | PC3, PC3 | PDone, PDone => true
  | PGot n, PGot m | PSend n, PSend m => n =? m
  | _, _ => false
  end.

Definition entry_eqb (a b : entry) : bool :=
  (e_sid a =? e_sid b) && optN_eqb (e_sock a) (e_sock b) && Bool.eqb (e_closed a) (e_closed b) &&
  (e_last a =? e_last b) && Nat.eqb (e_closes a) (e_closes b) && ppc_eqb (e_pc a) (e_pc b).

Fixpoint list_eqb {A} (eqb : A -> A -> bool) (a b : list A) : bool :=
  match a, b with
  | [], [] => true
  | x :: a', y :: b' => eqb x y && list_eqb eqb a' b'
  | _, _ => false
  end.

Definition closer_eqb (a b : closer) : bool :=
  list_eqb Nat.eqb (fst a) (fst b) &&
  match snd a, snd b with
  | None, None => true
  | Some (e, x), Some (f, y) => Nat.eqb e f && Bool.eqb x y
  | _, _ => false
  end.

Definition rpc_eqb (a b : rpc) : bool :=
  match a, b with
  | RWait, RWait | RSnap, RSnap | RDone, RDone => true
  | RGot s c, RGot s' c' | RNew s c, RNew s' c' => (s =? s') && Bool.eqb c c'
  | RFeed e s c, RFeed e' s' c' => Nat.eqb e e' && (s =? s') && Bool.eqb c c'
  | RInit e s, RInit e' s' | RWrite e s, RWrite e' s' => Nat.eqb e e' && (s =? s')
  | RClose cl x, RClose cl' x' => closer_eqb cl cl' && Bool.eqb x x'
  | _, _ => false
  end.

Definition spc_eqb (a b : spc) : bool :=
  match a, b with
  | SWait, SWait | SDone, SDone => true
  | SClose c, SClose c' => closer_eqb c c'
  | _, _ => false
  end.

Definition state_eqb (a b : state) : bool :=
  list_eqb (fun p q => (fst p =? fst q) && Nat.eqb (snd p) (snd q)) (table a) (table b) &&
  rpc_eqb (rl a) (rl b) && spc_eqb (sw a) (sw b) && (now a =? now b) && (next_tick a =? next_tick b) &&
  Bool.eqb (stopped a) (stopped b) && (nsock a =? nsock b) && list_eqb entry_eqb (heap a) (heap b).

Definition event_eqb (a b : event) : bool :=
  match a, b with
  | ERecv s c, ERecv s' c' => (s =? s') && Bool.eqb c c'
  | ERecvErr, ERecvErr => true
  | EHookErr s, EHookErr s' => s =? s'
  | EDial s k, EDial s' k' => (s =? s') && optN_eqb k k'
  | EWrite k s o, EWrite k' s' o' => (k =? k') && (s =? s') && Bool.eqb o o'
  | ESend k s o n, ESend k' s' o' n' => (k =? k') && (s =? s') && Bool.eqb o o' && (n =? n')
  | ERead k o n, ERead k' o' n' => (k =? k') && Bool.eqb o o' && (n =? n')
  | EClose k, EClose k' => k =? k'
  | ELogClose s, ELogClose s' => s =? s'
  | EAdvance d, EAdvance d' => d =? d'
  | _, _ => false
  end.

(* synctest: the fake clock advances, and synctest.Wait() returns, only when every goroutine of the bubble is
   durably blocked: receive loop in ReceiveMessage (or returned), sweeper in its select with no tick due and
   stopCh open (or returned), every reply loop in ReadFrom on an open socket (or returned); or a thread is
   inside a slow logger.Close (the harness can make the fake logger sleep), i.e. between ACloseLog and ACloseDel;
   or (slow_dial: the history makes the fake Hook / UDP() sleep on the fake clock) the receive loop is inside
   DialFunc, i.e. at RInit on an entry whose closed flag is clear.  initConn holds connLock from the closed check
   to the socket install, so the whole of it is the one action ADial / AHookErr taken when the call returns: time
   passes and sweeps run with the receive loop at RInit, and no CloseWithErr on that entry can come in between
   (a log in which the entry is reported closed and then dialed has no run);
   or (slow_close: the history makes the fake socket Close() of the FINAL cleanup sleep on the fake clock before it
   takes effect) the receive loop is inside cleanup(false) about to run part 1 of CloseWithErr on one of the
   entries still on its list: CloseWithErr holds connLock from the closed check to conn.Close() returning, the
   whole of it is the one action AClose1 taken when the fake Close() takes effect, so time passes and the sweeper's
   ticks are taken with the receive loop at RClose (todo, None) true, todo not empty. *)
Definition quiescent (slow_dial slow_close : bool) (s : state) : bool :=
  (match rl s with
   | RWait | RDone => true
   | RClose (_, Some (_, true)) _ => true
   | RClose (_ :: _, None) true => slow_close
   | RInit e _ => slow_dial && match nth_error (heap s) e with Some en => negb (e_closed en) | None => false end
   | _ => false
   end) &&
  (match sw s with
   | SWait => negb (next_tick s <=? now s) && negb (stopped s)
   | SDone => true
   | SClose (_, Some (_, true)) => true
   | _ => false
   end) &&
  forallb (fun en => match e_pc en with
                     | PNone | PDone | PC3 => true
                     | PRead => Nat.eqb (e_closes en) 0
                     | _ => false
                     end) (heap s).

(* used only to keep the state sets small.  (1) bisimulation quotient: Last of an entry that is no longer in
   the table is never read again; next_tick is never read again once the sweeper returned.  (2) partial-order
   reduction: a reply loop about to run CloseWithErr on an entry that is already closed takes the silent
   action AClose1 (TRP e) e (result: PDone) at once - the closed flag never changes back, so this action is
   always enabled until taken, has a fixed result and commutes with every other action. *)
Definition in_table (s : state) (e : nat) : bool := existsb (fun p => Nat.eqb (snd p) e) (table s).
Definition norm0 (s : state) : state :=
  mkS (table s)
      (map (fun p => let en := snd p in
                     let pc := match e_pc en with PC1 => if e_closed en then PDone else PC1 | q => q end in
                     mkE (e_sid en) (e_sock en) (e_closed en) (if in_table s (fst p) then e_last en else 0) (e_closes en) pc)
           (combine (seq 0 (length (heap s))) (heap s)))
      (rl s) (sw s) (now s) (match sw s with SDone => 0 | _ => next_tick s end) (stopped s) (nsock s).

(* (3) the same reduction for the sweeper and the receive loop: entries of their to-do lists that are already
   closed are dropped at once (CloseWithErr on them is the silent no-op AClose1 t e) *)
Definition is_open (s : state) (e : nat) : bool :=
  match nth_error (heap s) e with Some en => negb (e_closed en) | None => true end.

Definition norm (s : state) : state :=
  let s1 := norm0 s in
  let s2 := match sw s1 with SClose (todo, cur) => sw_after s1 (filter (is_open s1) todo, cur) | _ => s1 end in
  match rl s2 with RClose (todo, cur) x => rl_after s2 (filter (is_open s2) todo, cur) x | _ => s2 end.

(* (4) once ReceiveMessage has failed nobody looks a session id up any more: the table is only read by the snapshots of
   cleanup() - from which (3) drops every closed entry anyway - and by the final count.  So the table delete that ends
   CloseWithErr (always enabled once logger.Close has returned) commutes with everything that follows, and it is taken
   at once - unless the history makes the fake logger.Close sleep (slow_log), where time passes between the two. *)
Definition exiting_rl (s : state) : bool :=
  match rl s with RSnap | RDone | RClose _ true => true | _ => false end.

Definition try_act (a : action) (s : state) : state :=
  match step 0 s a with Some (s', _) => s' | None => s end.

Definition eager_del (s : state) : state :=
  if exiting_rl s then
    fold_left (fun st e => try_act (ACloseDel (TRP e)) st) (seq 0 (length (heap s)))
              (try_act (ACloseDel TSW) (try_act (ACloseDel TRL) s))
  else s.

Definition normx (slow_log : bool) (s : state) : state :=
  let s1 := norm s in
  if slow_log then s1 else if exiting_rl s1 then norm (eager_del s1) else s1.

Section Acc.
Variable timeout : N.
Variable allow_drop : bool.   (* false when the harness's policy allows every destination *)
Variable slow_dial : bool.    (* true when the history contains slow hooks / dials *)
Variable slow_close : bool.   (* true when the history contains slow socket closes in the final cleanup *)
Variable slow_log : bool.     (* true when the history contains slow logger.Close calls *)
Notation norm := (normx slow_log).
Variable cfuel : nat.         (* bound on the number of tau rounds between two visible events *)

Definition idxs (s : state) : list nat := seq 0 (length (heap s)).

Definition cand_tau (s : state) : list action :=
  [ALookup; AInsert; AFeed; AInitClosed; ASnapAll; ATick; AStop; ACloseDel TRL; ACloseDel TSW]
  ++ (if allow_drop then [ADrop] else [])
  ++ (match rl s with RClose (todo, _) _ => map (AClose1 TRL) todo | _ => [] end)
  ++ (match sw s with SClose (todo, _) => map (AClose1 TSW) todo | _ => [] end)
  ++ flat_map (fun e => [AStamp e; AClose1 (TRP e) e; ACloseDel (TRP e)]) (idxs s).

Definition tau_succ (s : state) : list state :=
  flat_map (fun a => match step timeout s a with Some (s', []) => [norm s'] | _ => [] end) (cand_tau s).

Definition cand_vis (s : state) (ev : event) : list action :=
  match ev with
  | ERecv sid c => [ARecv sid c]
  | ERecvErr => [ARecvErr]
  | EHookErr _ => [AHookErr]
  | EDial _ None => [ADial false]
  | EDial _ (Some _) => [ADial true]
  | EWrite _ _ ok => [AWrite ok]
  | ERead _ ok n => map (fun e => ARead e ok n) (idxs s)
  | ESend _ _ ok _ => map (fun e => ASend e ok) (idxs s)
  | EClose _ => flat_map (fun e => [AClose1 TRL e; AClose1 TSW e; AClose1 (TRP e) e]) (idxs s)
  | ELogClose _ => [ACloseLog TRL; ACloseLog TSW] ++ map (fun e => ACloseLog (TRP e)) (idxs s)
  | EAdvance d => [AAdvance d]
  end.

Definition vis_succ (ev : event) (s : state) : list state :=
  flat_map (fun a => match step timeout s a with
                     | Some (s', [ev']) => if event_eqb ev ev' then [norm s'] else []
                     | _ => []
                     end) (cand_vis s ev).

Definition mem_state (s : state) (l : list state) : bool := existsb (state_eqb s) l.

Fixpoint add_new (seen acc : list state) (l : list state) : list state :=
  match l with
  | [] => rev acc
  | s :: t => if mem_state s seen || mem_state s acc then add_new seen acc t else add_new seen (s :: acc) t
  end.

Fixpoint closure (fuel : nat) (seen frontier : list state) : list state :=
  match fuel with
  | O => seen
  | S f =>
      match frontier with
      | [] => seen
      | _ => let new := add_new seen [] (flat_map tau_succ frontier) in closure f (seen ++ new) new
      end
  end.

Definition close_set (St : list state) : list state := closure cfuel St St.

(* returns the set of states after the trace and the index of the first event no state could take *)
Inductive item := Ev (e : event) | Quiet.

Fixpoint sim (St : list state) (tr : list item) (i : N) : list state * option N :=
  match tr with
  | [] => (St, None)
  | Quiet :: t =>
      match filter (quiescent slow_dial slow_close) St with
      | [] => ([], Some i)
      | S1 => sim S1 t (i + 1)
      end
  | Ev ev :: t =>
      let S0 := match ev with EAdvance _ => filter (quiescent slow_dial slow_close) St | _ => St end in
      let S1 := close_set (add_new [] [] (flat_map (vis_succ ev) S0)) in
      match S1 with
      | [] => ([], Some i)
      | _ => if Nat.ltb 600 (length S1) then ([], Some (1000000 + i))   (* state-set bound exceeded: reported, not accepted *)
             else sim S1 t (i + 1)
      end
  end.

Definition accepts (tr : list item) (count : N) : bool :=
  match sim (close_set [init]) tr 0 with
  | (St, None) => existsb (fun s => terminal s && (N.of_nat (length (table s)) =? count)) St
  | _ => false
  end.

Definition stuck_at (tr : list item) : option N := snd (sim (close_set [init]) tr 0).
Definition max_states (tr : list item) : nat := length (fst (sim (close_set [init]) tr 0)).
End Acc.

(* ---- trace monitors on the log itself ---- *)
Fixpoint owner_of (k : N) (seen : list (N * N)) : option N :=
  match seen with
  | [] => None
  | (k', s) :: t => if k' =? k then Some s else owner_of k t
  end.

(* owners: socket -> session id from the EDial events; closed: sockets already closed *)
Fixpoint monitor (owners : list (N * N)) (closed : list N) (tr : list event) : bool :=
  match tr with
  | [] => true
  | EDial s (Some k) :: t =>
      match owner_of k owners with Some _ => false | None => monitor ((k, s) :: owners) closed t end
  | EWrite k s ok :: t =>
      optN_eqb (owner_of k owners) (Some s) && (negb ok || negb (existsb (N.eqb k) closed)) && monitor owners closed t
  | ESend k s _ _ :: t => optN_eqb (owner_of k owners) (Some s) && monitor owners closed t
  | ERead k ok _ :: t => (negb ok || negb (existsb (N.eqb k) closed)) && monitor owners closed t
  | EClose k :: t => negb (existsb (N.eqb k) closed) && monitor owners (k :: closed) t
  | _ :: t => monitor owners closed t
  end.

Definition events_of (tr : list item) : list event :=
  flat_map (fun i => match i with Ev e => [e] | Quiet => [] end) tr.

(* ---- stress histories (real goroutines, real clock; c07_stress_test.go) against model/C07_Birth.v ----
   What the harness saw of every session id is one outcome code (Birth.code) plus the id's kind (how its remote / dial /
   hook behaves).  The code must be one of the outcomes of the one-entry LTS under SOME schedule of receive loop, sweeper,
   reply loop and final cleanup, explored exhaustively with the environment of that kind.  The clock of the exploration
   is scaled: idle timeout 1, start 5; when the whole history took no longer than the idle timeout the clock may advance
   by at most 1 in total (nothing can be older than the timeout), otherwise by 4.
   A wedge is not a behaviour of the model (LocksP.no_deadlock / all_finish): the check is false.  Count() and the
   goroutines left at the end must be 0 (C07_no_leak_at_exit, Birth one_close_event); a Close(nil) before the loss of the
   connection must be older than the timeout (young_not_swept). *)
Definition kind_env (k : N) : list Birth.bact :=
  match k with
  | 0 | 4 | 6 => Birth.env_refuse     (* refuse / echo / sendfail: the reply loop ends the session *)
  | 1 => Birth.env_dialfail
  | 2 => Birth.env_hookfail
  | 3 => Birth.env_stay
  | 5 => Birth.env_frag
  | _ => []
  end.

Definition explore (k : N) (max_now : N) : list N * bool := Birth.outcomes 1 true (kind_env k) 5 [1] max_now 1 400.

Definition young_refuse := Eval vm_compute in explore 0 6.
Definition young_dialfail := Eval vm_compute in explore 1 6.
Definition young_hookfail := Eval vm_compute in explore 2 6.
Definition young_stay := Eval vm_compute in explore 3 6.
Definition young_frag := Eval vm_compute in explore 5 6.
Definition old_refuse := Eval vm_compute in explore 0 9.
Definition old_dialfail := Eval vm_compute in explore 1 9.
Definition old_hookfail := Eval vm_compute in explore 2 9.
Definition old_stay := Eval vm_compute in explore 3 9.
Definition old_frag := Eval vm_compute in explore 5 9.

Definition outs (young : bool) (k : N) : list N * bool :=
  match k with
  | 0 | 4 | 6 => if young then young_refuse else old_refuse
  | 1 => if young then young_dialfail else old_dialfail
  | 2 => if young then young_hookfail else old_hookfail
  | 3 => if young then young_stay else old_stay
  | 5 => if young then young_frag else old_frag
  | _ => ([], false)
  end.

(* every exploration ran to the end *)
Example explorations_exhaustive :
  forallb (fun k => snd (outs true k) && snd (outs false k)) [0; 1; 2; 3; 4; 5; 6] = true.
Proof. vm_compute. reflexivity. Qed.

(* with the code as it is no young session is reported closed as idle or has its datagram dropped; with the neighbouring
   design (Last stamped by Feed only) both are outcomes of the very same exploration *)
Definition dropped_code : N := 288.   (* one Close event, Close(nil) before the loss, no hook / New / dial / write *)
Example code_never_drops_young :
  forallb (fun k => negb (existsb (fun c => N.testbit c 5) (fst (outs true k)))) [0; 1; 2; 3; 4; 5; 6] = true.
Proof. vm_compute. reflexivity. Qed.
Example stamped_by_feed_drops_young :
  existsb (N.eqb dropped_code) (fst (Birth.outcomes 1 false Birth.env_refuse 5 [1] 6 1 400)) = true.
Proof. vm_compute. reflexivity. Qed.

Inductive oc := Oc (code count : N).   (* code = Birth.code + 1024 * kind *)

Definition code_allowed (young : bool) (o : oc) : bool :=
  match o with Oc c _ => existsb (N.eqb (c mod 1024)) (fst (outs young (c / 1024))) end.

Definition birth_ok (lo last hi : N) : bool :=
  (* the model's creation action, run at a clock value inside the window the harness measured, stores that value *)
  (lo <=? last) && (last <=? hi) &&
  match Birth.bstep 0 true (Birth.set_rl (Birth.binit last 0) (Birth.BNew true)) Birth.ACreate with
  | Some s => (Birth.b_last s =? last) && match Birth.b_born s with Some t => t =? last | None => false end
  | None => false
  end.

Fixpoint zip3_all (f : N -> N -> N -> bool) (a b c : list N) : bool :=
  match a, b, c with
  | [], [], [] => true
  | x :: a', y :: b', z :: c' => f x y z && zip3_all f a' b' c'
  | _, _, _ => false
  end.

Inductive case :=
| CHist (timeout : N) (count : N) (slow_dial slow_close slow_log : bool) (tr : list item)
| CStress (timeout_ms wall_ms : N) (wedged : bool) (count left_goroutines : N) (min_nil_age_ms : option N) (hist : list oc)
| CBirth (lo last hi : list N).

Definition check (c : case) : bool :=
  match c with
  | CHist timeout count slow slowc slowl tr => monitor [] [] (events_of tr) && accepts timeout false slow slowc slowl 60 tr count
  | CStress timeout wall wedged count leftg nilage hist =>
      negb wedged && (count =? 0) && (leftg =? 0) &&
      match nilage with None => true | Some a => timeout <? a end &&
      forallb (code_allowed (wall <=? timeout)) hist
  | CBirth lo last hi => match lo with [] => false | _ => zip3_all birth_ok lo last hi end
  end.

Definition mismatches (l : list case) : list nat := mism_from check 0 l.

(* short constructors for the generated files *)
Definition Rc (s : N) := Ev (ERecv s true).
Definition Rf (s : N) := Ev (ERecv s false).
Definition Re := Ev ERecvErr.
Definition He (s : N) := Ev (EHookErr s).
Definition Dk (s k : N) := Ev (EDial s (Some k)).
Definition Df (s : N) := Ev (EDial s None).
Definition Wk (k s : N) := Ev (EWrite k s true).
Definition Wf (k s : N) := Ev (EWrite k s false).
Definition Gk (k n : N) := Ev (ERead k true n).
Definition Gf (k : N) := Ev (ERead k false 0).
Definition Sk (k s n : N) := Ev (ESend k s true n).
Definition Sf (k s n : N) := Ev (ESend k s false n).
Definition Cl (k : N) := Ev (EClose k).
Definition Lc (s : N) := Ev (ELogClose s).
Definition Ad (d : N) := Ev (EAdvance d).
Definition Q := Quiet.

(* ---- the slow-dial interleaving, on two recorded logs (timeout 2 s, first dial of session 7 lasts 3 s) ----
   The sweep at 3000 ms selects the entry (idle since the datagram arrived at 0 ms) while its dial is in progress.
   Recorded from udp.go as it is (connLock held across DialFunc): the sweeper's CloseWithErr takes effect after the
   socket install and closes that socket - a run of the LTS. *)
Definition slow_dial_log : list item :=
  [Q;Q;Rc 7;Q;Ad 1000;Ad 1000;Ad 1000;Dk 7 0;Wk 0 7;Cl 0;Lc 7;Gf 0;Ad 1000;Q;Rc 7;Dk 7 1;Wk 1 7;Q;
   Ad 1000;Ad 1000;Ad 1000;Cl 1;Lc 7;Gf 1;Ad 100;Re;Q;Ad 900;Ad 1000;Ad 600;Q].
Example slow_dial_accepted : check (CHist 2000 0 true false true slow_dial_log) = true /\ check (CHist 2000 0 true false false slow_dial_log) = true.
Proof. vm_compute. split; reflexivity. Qed.

(* Recorded from a tree whose initConn releases connLock during the dial and does not look at the closed flag again:
   the session is reported closed inside the dial, then the dial installs socket 0 into the dead entry (never
   closed, its reply loop keeps serving it).  ADial is atomic with the closed check, so this log has no run: the
   acceptor is stuck at the dial record (index 8). *)
Definition slow_dial_close_inside_log : list item :=
  [Q;Q;Rc 7;Q;Ad 1000;Ad 1000;Ad 1000;Lc 7;Dk 7 0;Wk 0 7;Ad 1000;Q;Rc 7;Dk 7 1;Wk 1 7;Gk 0 8;Sk 0 7 8;Q;
   Ad 1000;Ad 1000;Ad 1000;Cl 1;Lc 7;Gf 1;Ad 100;Re;Q;Ad 900;Ad 1000;Ad 600;Q].
Example slow_dial_close_inside_rejected :
  check (CHist 2000 0 true false true slow_dial_close_inside_log) = false /\
  stuck_at 2000 false true false true 60 slow_dial_close_inside_log = Some 8.
Proof. vm_compute. split; reflexivity. Qed.
