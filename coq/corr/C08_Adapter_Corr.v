(* C08 adapter correspondence: for a generated pipeline (outbound entries, text rules, resolver table) and a list
   of destinations, the outbound reached by PluggableOutboundAdapter.CheckUDP and by .UDP on the real code, and
   whether each call succeeded, are compared with adapter_check_udp / adapter_udp of model/C08_Adapter.v on the
   rule set compiled by the C09 model.  Not part of any theorem. *)
From Hy Require Import lib.Harness model.C09_ACL proof.C09_ACL model.C08_Adapter.
From Coq Require Import ZArith Bool.
Local Open Scope N_scope.

Definition DIRECT : N := 1000.
Definition REJECT : N := 1001.

(* entries: outbound names with ids 1.. ; acc: ids of the fakes that accept ; tbl: the resolver's table, every host
   that is queried is listed (IP literals with their parsed address, failed lookups with two empty addresses) ;
   qs: host, port, observed (outbound reached by CheckUDP, CheckUDP==nil, outbound reached by UDP, UDP ok) with
   REJECT for "no fake outbound was reached" *)
Inductive case :=
| CPipe (entries : list (str * N)) (acc : list N) (rules : list trule) (tbl : list (str * (ip * ip)))
        (qs : list (str * N * (N * bool * N * bool))).

Fixpoint tbl_get (t : list (str * (ip * ip))) (h : str) : option (ip * ip) :=
  match t with
  | [] => Some ([], [])
  | (k, v) :: t' => if beqb k h then Some v else tbl_get t' h
  end.

Definition check (c : case) : bool :=
  match c with
  | CPipe entries acc rules tbl qs =>
      let m := outbounds_to_map entries DIRECT REJECT in
      match compile m rules (Z.of_N AclCacheSize), map_get m s_default with
      | Ok rs, Some d =>
          let accepts := fun ob => existsb (N.eqb ob) acc in
          forallb (fun q =>
                     let '(h, p, (co, cok, uo, uok)) := q in
                     let cm := fst (adapter_check_udp ip_str_hex rs d (tbl_get tbl) h p) in
                     let um := fst (adapter_udp ip_str_hex rs d (tbl_get tbl) h p) in
                     (cm =? co) && Bool.eqb (accepts cm) cok && (um =? uo) && Bool.eqb (accepts um) uok) qs
      | _, _ => false
      end
  end.

Definition mismatches (l : list case) : list nat := mism_from check 0 l.
