(* C08 correspondence: one recorded session of the implementation (inputs, injected faults, the
   eviction choices Go's map iteration made) is replayed on the model; every per-step observable must
   be equal.  Addresses are pool indices (N); index 0 is the empty string.  Not part of any theorem. *)
From Hy Require Import lib.Harness model.C08_UDPPolicy.
From Coq Require Import NArith List Bool.
Local Open Scope N_scope.

Inductive hmode := HMOff | HMConst (a' : N) | HMMod (k a' : N) | HMErr.

(* SD a code x ev d : datagram to a; code = kind(0 fwd,1 drop,2 dial failed) + 4*consulted + 8*fault
                      + 16*evicted + 32*dialed ; x forwarded-to ; ev evicted key ; d dialed address
   SR r code x      : socket read from r; code 1 = reply sent from x, 0 = nothing
   SC               : close *)
Inductive stp := SD (a code x ev d : N) | SR (r code x : N) | SC.

(* short forms of the frequent steps (the cases files are parse-bound) *)
Definition Fc (a : N) := SD a 0 a 0 0.   (* forwarded, verdict from the cache *)
Definition Fk (a : N) := SD a 4 a 0 0.   (* forwarded, CheckUDP consulted, no eviction *)
Definition Dc (a : N) := SD a 1 0 0 0.   (* dropped, verdict from the cache *)
Definition Dk (a : N) := SD a 5 0 0 0.   (* dropped, CheckUDP consulted, no eviction *)
Definition Fe (a ev : N) := SD a 20 a ev 0.  (* forwarded, consulted, evicted ev *)
Definition De (a ev : N) := SD a 21 0 ev 0.  (* dropped, consulted, evicted ev *)

Inductive case := CSess (bits : list N) (h : hmode) (steps : list stp).

(* the policy as a bit set: 24 addresses per list element *)
Definition Pof (bits : list N) (a : N) : bool := N.testbit (nth (N.to_nat (a / 24)) bits 0) (a mod 24).

Definition hook_of (h : hmode) (a : N) : hookres N :=
  match h with
  | HMOff => HKeep
  | HMConst a' => HRewrite a'
  | HMMod k a' => if (a mod k =? 0) then HRewrite a' else HKeep
  | HMErr => HFail
  end.

Definition optN_eqb (a b : option N) : bool :=
  match a, b with Some x, Some y => x =? y | None, None => true | _, _ => false end.

Definition obs_match (o : obs N) (code x ev d : N) : bool :=
  let kind := code mod 4 in
  (match o_out N o with
   | OFwd _ y => (kind =? 0) && (y =? x)
   | ODrop _ => kind =? 1
   | ODialFail _ => kind =? 2
   | _ => false
   end) &&
  Bool.eqb (o_consulted N o) (N.testbit code 2) &&
  optN_eqb (o_evicted N o) (if N.testbit code 4 then Some ev else None) &&
  optN_eqb (o_dialed N o) (if N.testbit code 5 then Some d else None).

Fixpoint go (P : N -> bool) (hk : N -> hookres N) (st : state N) (l : list stp) : bool :=
  match l with
  | [] => true
  | SD a code x ev d :: t =>
      let (st1, o) := step N N.eqb 0 P hk st (IDgram N a (N.testbit code 3) ev) in
      obs_match o code x ev d && go P hk st1 t
  | SR r code x :: t =>
      let (st1, o) := step N N.eqb 0 P hk st (IReply N r) in
      (match o_out N o with
       | OReply _ y => (code =? 1) && (y =? x)
       | ONone _ => code =? 0
       | _ => false
       end) && go P hk st1 t
  | SC :: t =>
      let (st1, _) := step N N.eqb 0 P hk st (IClose N) in go P hk st1 t
  end.

Definition check (c : case) : bool :=
  match c with
  | CSess bits h steps => go (Pof bits) (hook_of h) None steps
  end.

Definition mismatches (l : list case) : list nat := mism_from check 0 l.
