(* C08 correspondence: one recorded session of the implementation (inputs, injected faults, the
   eviction choices Go's map iteration made) is replayed on the model; every per-step observable must
   be equal.  Addresses are pool indices (N); index 0 is the empty string.  Not part of any theorem. *)
From Hy Require Import lib.Harness model.C08_UDPPolicy model.C08_Feed.
From Coq Require Import NArith List Bool.
Local Open Scope N_scope.

Inductive hmode := HMOff | HMConst (a' : N) | HMMod (k a' : N) | HMErr.

(* SM pid fid cnt a code x ev d chk : client message (PacketID pid, FragID fid, FragCount cnt, Addr a);
       code = kind (0 WriteTo called with x, 1 nothing written and the entry is still there, 2 nothing written and the
              entry is gone: dial failed) + 4*CheckUDP consulted + 8*dial fault injected + 16*evicted + 32*dialed
              + 64*write error injected + 128*the WriteTo that was called failed ;
       x written-to ; ev evicted key ; d dialed address ; chk the address CheckUDP was consulted for
   SD a code x ev d : the complete message (FragCount 1) for a; a consulted CheckUDP was consulted for a
   SR r code x      : socket read from r; code 1 = reply sent from x, 0 = nothing
   SC               : close *)
Inductive stp := SM (pid fid cnt a code x ev d chk : N) | SR (r code x : N) | SC.

Definition SD (a code x ev d : N) := SM 0 0 1 a code x ev d a.

(* short forms of the frequent steps (the cases files are parse-bound) *)
Definition Fc (a : N) := SD a 0 a 0 0.   (* forwarded, verdict from the cache *)
Definition Fk (a : N) := SD a 4 a 0 0.   (* forwarded, CheckUDP consulted, no eviction *)
Definition Dc (a : N) := SD a 1 0 0 0.   (* dropped, verdict from the cache *)
Definition Dk (a : N) := SD a 5 0 0 0.   (* dropped, CheckUDP consulted, no eviction *)
Definition Fe (a ev : N) := SD a 20 a ev 0.  (* forwarded, consulted, evicted ev *)
Definition De (a ev : N) := SD a 21 0 ev 0.  (* dropped, consulted, evicted ev *)
Definition Nf (pid fid cnt a : N) := SM pid fid cnt a 1 0 0 0 0.   (* fragment: nothing called *)

Inductive case := CSess (bits : list N) (h : hmode) (steps : list stp).

(* the policy as a bit set: 24 addresses per list element *)
Definition Pof (bits : list N) (a : N) : bool := N.testbit (nth (N.to_nat (a / 24)) bits 0) (a mod 24).

Definition hook_of (h : hmode) (a : N) : hookres N :=
  match h with
  | HMOff => HKeep
  | HMConst a' => HRewrite a'
  | HMMod k a' => if (a mod k =? 0) then HRewrite a' else HKeep
  | HMErr => HFail
  end.

Definition optN_eqb (a b : option N) : bool :=
  match a, b with Some x, Some y => x =? y | None, None => true | _, _ => false end.

(* the implementation cannot show the address handed to checkAddr on a cache hit: compared when CheckUDP was consulted *)
Definition chk_match (o : fobs N) (c chk : N) : bool := if fo_consulted N o then c =? chk else true.

Definition obs_match (o : fobs N) (code x ev d chk : N) : bool :=
  let kind := code mod 4 in
  (match fo_out N o with
   | FWrite _ c y ok =>
       (kind =? 0) && (y =? x) && Bool.eqb ok (negb (N.testbit code 7)) &&
       match c with Some c' => chk_match o c' chk | None => true end
   | FDrop _ c => (kind =? 1) && chk_match o c chk
   | FNone _ => kind =? 1          (* only for a fragment that completes nothing: the model never says FNone for FragCount <= 1 *)
   | FDialFail _ => kind =? 2
   | FRep _ _ => false
   end) &&
  Bool.eqb (fo_consulted N o) (N.testbit code 2) &&
  optN_eqb (fo_evicted N o) (if N.testbit code 4 then Some ev else None) &&
  optN_eqb (fo_dialed N o) (if N.testbit code 5 then Some d else None).

Fixpoint go (P : N -> bool) (hk : N -> hookres N) (st : fstate N) (l : list stp) : bool :=
  match l with
  | [] => true
  | SM pid fid cnt a code x ev d chk :: t =>
      let (st1, o) := fstep N N.eqb 0 P hk st (FMsg N (mkU N pid fid cnt a) (N.testbit code 3) ev (N.testbit code 6)) in
      obs_match o code x ev d chk && go P hk st1 t
  | SR r code x :: t =>
      let (st1, o) := fstep N N.eqb 0 P hk st (FReply N r) in
      (match fo_out N o with
       | FRep _ y => (code =? 1) && (y =? x)
       | FNone _ => code =? 0
       | _ => false
       end) && go P hk st1 t
  | SC :: t =>
      let (st1, _) := fstep N N.eqb 0 P hk st (FClose N) in go P hk st1 t
  end.

Definition check (c : case) : bool :=
  match c with
  | CSess bits h steps => go (Pof bits) (hook_of h) None steps
  end.

Definition mismatches (l : list case) : list nat := mism_from check 0 l.
