(* C08 correspondence, third layer: (1) one recorded session of the implementation driven through the real udpIOImpl with
   a three-outcome policy is replayed on model/C08_Fail.v with the code's wrapper io_result; every per-step observable
   must be equal.  (2) what the real leaf outbounds of extras/outbounds answered in UDP() / CheckUDP() is compared
   with the leaf table.  Addresses are pool indices (N); index 0 is the empty string.  Not part of any theorem. *)
From Hy Require Import lib.Harness model.C08_UDPPolicy model.C08_Fail.
From Coq Require Import NArith List Bool.
Local Open Scope N_scope.

(* no RequestHook, or one whose Check says no | rewrite all to a' | rewrite a with a mod k = 0 to a' | the hook returns an
   error | the hook panics for a mod k = 0 and keeps the address otherwise *)
Inductive hmode3 := H3Off | H3Const (a' : N) | H3Mod (k a' : N) | H3Err | H3PanicMod (k : N).

(* FS a code x d : complete client datagram for a;
       code = kind (0 WriteTo called with x, 1 nothing written and the entry is still there, 2 nothing written and the
              entry is gone, 3 a panic propagated out of feed and nothing was written) + 4*CheckUDP consulted
              + 32*UDP() called with d + 64*the panic left the dial (the history ends)
   FC : close *)
Inductive fstp := FS (a code x d : N) | FC.

Inductive case :=
| CFail (outs : list N) (dmode : bool) (h : hmode3) (steps : list fstp)   (* outs: per address 0 rejected, 1 allowed, 2 fails *)
| CLeaf (l : leaf) (udp chk : bool).

Definition Qc_of (outs : list N) (a : N) : pres :=
  match nth (N.to_nat a) outs 0 with 1 => PAllow | 2 => PFail | _ => PDeny end.

(* dmode false: UDP() refuses a destination its policy fails on with an ordinary error; true: it fails the same way *)
Definition Qd_of (outs : list N) (dmode : bool) (a : N) : pres :=
  match Qc_of outs a with PFail => if dmode then PFail else PDeny | r => r end.

Definition hook3_of (h : hmode3) (a : N) : option (hookres N) :=
  match h with
  | H3Off => Some HKeep
  | H3Const a' => Some (HRewrite a')
  | H3Mod k a' => if (a mod k =? 0) then Some (HRewrite a') else Some HKeep
  | H3Err => Some HFail
  | H3PanicMod k => if (a mod k =? 0) then None else Some HKeep
  end.

Definition optN_eqb3 (a b : option N) : bool :=
  match a, b with Some x, Some y => x =? y | None, None => true | _, _ => false end.

Definition obs3_match (o : obs3 N) (st1 : state3 N) (code x d : N) : bool :=
  let kind := code mod 4 in
  let dead := match st1 with SDead _ => true | _ => false end in
  (match o3_out N o with
   | O3 _ (OFwd _ y) => (kind =? 0) && (y =? x)
   | O3 _ (ODrop _) => kind =? 1
   | O3 _ (ODialFail _) => kind =? 2
   | OPanic _ => kind =? 3
   | _ => false
   end) &&
  Bool.eqb (o3_consulted N o) (N.testbit code 2) &&
  Bool.eqb dead (N.testbit code 6) &&
  (if dead then true else optN_eqb3 (o3_dialed N o) (if N.testbit code 5 then Some d else None)) &&
  match o3_evicted N o with None => true | Some _ => false end.

Fixpoint go3 (Qd Qc : N -> pres) (hk : N -> option (hookres N)) (st : state3 N) (l : list fstp) : bool :=
  match l with
  | [] => true
  | FS a code x d :: t =>
      let (st1, o) := step3 N N.eqb 0 Qd Qc hk io_result st (IDgram N a false 0) in
      obs3_match o st1 code x d && go3 Qd Qc hk st1 t
  | FC :: t =>
      let (st1, _) := step3 N N.eqb 0 Qd Qc hk io_result st (IClose N) in go3 Qd Qc hk st1 t
  end.

Definition check (c : case) : bool :=
  match c with
  | CFail outs dmode h steps => go3 (Qd_of outs dmode) (Qc_of outs) (hook3_of h) (S3 N None) steps
  | CLeaf l udp chk => Bool.eqb (leaf_udp l) udp && Bool.eqb (leaf_check l) chk
  end.

Definition mismatches (l : list case) : list nat := mism_from check 0 l.
