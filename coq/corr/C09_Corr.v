(* C09 correspondence: how the observed answers of acl.Compile / CompiledRuleSet.Match /
   aclEngine.handle are compared with the model.  Used by the generated run/C09/cases_*.v files. *)
From Hy Require Import lib.Harness model.C09_ACL proof.C09_ACL model.C09_Conc model.C09_IPString model.C09_Text model.C09_Engine.
From Coq Require Import ZArith.
Local Open Scope N_scope.

Inductive case :=
(* outbound map, text rules, cache size, host pool, queries (host index, protocol, port),
   observed: None = Compile returned an error, Some answers (outbound id or 0, hijack bytes), each
   given as an index into the pool of distinct answers *)
| CAcl (obs : list (str * N)) (rules : list trule) (csize : Z) (hosts : list host)
       (qs : list (nat * N * N)) (pool : list (N * list byte)) (exp : option (list nat))
(* engine: outbound entries in order; observed per query: outbound id, rewritten?, new ResolveInfo v4, v6 *)
| CEng (entries : list (str * N)) (rules : list trule) (hosts : list host)
       (qs : list (nat * N * N)) (pool : list (N * N * list byte * list byte)) (exp : option (list nat))
(* overlapping lookups on one compiled rule set, schedule observed by the gate harness (package acl):
   HStart q = a new caller entered Match(q) and performed its Cache.Get (it was then either suspended
   inside the rule scan or ran to its return); HDone i = caller i (numbered by HStart order) left the
   scan, performed its Cache.Add if its Get had missed, and returned.  exp: the answer of every caller,
   by caller number, as indices into the pool. *)
| CConc (obs : list (str * N)) (rules : list trule) (csize : Z) (hosts : list host)
        (evs : list hev) (pool : list (N * list byte)) (exp : list nat)
(* lookups made by many goroutines at once with an unknown interleaving: by C09_concurrent_lookups
   every answer, in every interleaving, is the fresh evaluation; qs / exp list every DISTINCT
   (query, answer) pair that was observed. *)
| CConcAny (obs : list (str * N)) (rules : list trule) (csize : Z) (hosts : list host)
        (qs : list (nat * N * N)) (pool : list (N * list byte)) (exp : list nat)
(* a rule file given to acl.ParseTextRules: observed rules with their line numbers, or None and the
   InvalidSyntaxError (LineNum, Line) *)
| CFile (text : str) (exp : option (list (nat * trule))) (eline : nat) (etext : str)
(* net.IP.String() of addresses of any length and HostInfo.String() of hosts *)
| CIpStr (addrs : list ip) (exp : list str) (hosts : list host) (hexp : list str)
(* engine built by NewACLEngineFromString from the TEXT of a rule file (ParseTextRules ; Compile), then as CEng *)
| CEngT (entries : list (str * N)) (text : str) (hosts : list host)
        (qs : list (nat * N * N)) (pool : list (N * N * list byte * list byte)) (exp : option (list nat))
(* engine entry points TCP / UDP / CheckUDP (model/C09_Engine.v) of an engine built from the TEXT of a rule file, called with
   requests whose ResolveInfo is nil (mode 0), has no error (1) or carries an error next to its addresses (2).
   qs: (host index, entry point 1 TCP / 2 UDP / 3 CheckUDP, port).  Observed per call: outbound id, method that ran on it
   (0 = none: errRejected from the built-in reject), rewritten?, the ResolveInfo the outbound saw (v4, v6, error flag;
   all empty / 0 when nil) and the Host it saw. *)
| CEngX (entries : list (str * N)) (text : str) (hosts : list (host * N))
        (qs : list (nat * N * N)) (pool : list (N * N * N * list byte * list byte * N * list byte)) (exp : option (list nat))
with hev := HStart (q : nat * N * N) | HDone (i : nat).

Definition mkq (hosts : list host) (q : nat * N * N) : query :=
  mkQuery (nth (fst (fst q)) hosts (mkHost [] [] [])) (snd (fst q)) (snd q).

Definition res_eqb (r : result) (o : N * list byte) : bool :=
  (match fst r with Some x => negb (x =? 0) && (x =? fst o) | None => fst o =? 0 end) && beqb (snd r) (snd o).

Fixpoint all2 {A B} (f : A -> B -> bool) (a : list A) (b : list B) : bool :=
  match a, b with
  | [], [] => true
  | x :: a', y :: b' => f x y && all2 f a' b'
  | _, _ => false
  end.

Definition eng_eqb (r : N * rewrite) (o : N * N * list byte * list byte) : bool :=
  let '(ob, rw, v4, v6) := o in
  (fst r =? ob) &&
  match snd r with
  | RwNone => (rw =? 0) && beqb v4 [] && beqb v6 []
  | RwHijack _ a b => (rw =? 1) && beqb v4 a && beqb v6 b
  end.

Definition op_of (n : N) : eop := if n =? 1 then OpTCP else if n =? 2 then OpUDP else OpCheckUDP.
Definition op_code (o : eop) : N := match o with OpTCP => 1 | OpUDP => 2 | OpCheckUDP => 3 end.

Definition ri_of (h : host) (mode : N) : option rinfo :=
  if mode =? 0 then None else Some (mkRI (h_v4 h) (h_v6 h) (mode =? 2)).

Definition engx_eqb (reject : N) (rwm : rewrite) (r : N * eop * reqx) (o : N * N * N * list byte * list byte * N * list byte) : bool :=
  let '(ob, opseen, rw, v4, v6, err, hostseen) := o in
  let '(mob, mop, after) := r in
  (mob =? ob) &&
  (match dispatched reject mob mop with Some x => opseen =? op_code x | None => opseen =? 0 end) &&
  (* rewritten = the outbound did not get the caller's Host and ResolveInfo object *)
  (match rwm with RwNone => rw =? 0 | RwHijack _ _ _ => rw =? 1 end) &&
  beqb (rx_host after) hostseen &&
  match rx_ri after with
  | Some ri => beqb (ri_v4 ri) v4 && beqb (ri_v6 ri) v6 && (if ri_err ri then err =? 1 else err =? 0)
  | None => beqb v4 [] && beqb v6 [] && (err =? 0)
  end.

(* observed schedule -> schedule of the LTS of model/C09_Conc.v; n = number of callers so far *)
Fixpoint to_cevs (hosts : list host) (n : nat) (evs : list hev) : list cev :=
  match evs with
  | [] => []
  | HStart q :: t => ESpawn (mkq hosts q) :: EStep n :: to_cevs hosts (S n) t
  | HDone i :: t => EStep i :: to_cevs hosts n t
  end.

Definition ans_eqb (a : option (query * result)) (o : N * list byte) : bool :=
  match a with Some (_, r) => res_eqb r o | None => false end.

Definition ans_fresh (rs : list rule) (a : option (query * result)) : bool :=
  match a with
  | Some (q, r) => let f := fresh rs q in
                   match fst r, fst f with Some x, Some y => x =? y | None, None => true | _, _ => false end && beqb (snd r) (snd f)
  | None => false
  end.

Definition trule_eqb (a b : trule) : bool :=
  beqb (t_ob a) (t_ob b) && beqb (t_addr a) (t_addr b) && beqb (t_pp a) (t_pp b) && beqb (t_hijack a) (t_hijack b).

Definition lrule_eqb (a b : nat * trule) : bool := Nat.eqb (fst a) (fst b) && trule_eqb (snd a) (snd b).

Definition DIRECT : N := 1000.
Definition REJECT : N := 1001.

Definition check (c : case) : bool :=
  match c with
  | CAcl obs rules csize hosts qs pool exp =>
      match compile obs rules csize with
      | Ok rs =>
          match exp with
          | Some ei =>
              let e := map (fun i => nth i pool (77777, [])) ei in
              let qq := map (mkq hosts) qs in
              all2 res_eqb (map (fresh rs) qq) e &&
              all2 res_eqb (run ip_string (pol_fifo (Z.to_nat csize)) rs qq) e
          | None => false
          end
      | Err EInvalid => match exp with None => true | Some _ => false end
      | _ => false
      end
  | CConc obs rules csize hosts evs pool exp =>
      match compile obs rules csize with
      | Ok rs =>
          let e := map (fun i => nth i pool (77777, [])) exp in
          let a := answers (snd (conc_run ip_string (pol_fifo (Z.to_nat csize) 0) rs (to_cevs hosts 0 evs))) in
          all2 ans_eqb a e && forallb (ans_fresh rs) a
      | _ => false
      end
  | CConcAny obs rules csize hosts qs pool exp =>
      match compile obs rules csize with
      | Ok rs =>
          let e := map (fun i => nth i pool (77777, [])) exp in
          all2 res_eqb (map (fresh rs) (map (mkq hosts) qs)) e
      | _ => false
      end
  | CFile text exp eline etext =>
      match parse_text text, exp with
      | PRules lrs, Some e => all2 lrule_eqb lrs e
      | PSyntax n c, None => Nat.eqb n eline && beqb c etext
      | _, _ => false
      end
  | CIpStr addrs exp hosts hexp =>
      all2 beqb (map ip_string addrs) exp && all2 beqb (map (host_string ip_string) hosts) hexp
  | CEngT entries text hosts qs pool exp =>
      let m := outbounds_to_map entries DIRECT REJECT in
      match compile_text m text (Z.of_N AclCacheSize) with
      | Ok rs =>
          match exp, map_get m s_default with
          | Some ei, Some d =>
              let e := map (fun i => nth i pool (77777, 0, [], [])) ei in
              all2 eng_eqb
                   (map (fun q => let h := nth (fst (fst q)) hosts (mkHost [] [] []) in
                                  engine_handle rs d (mkReq (h_name h) (snd q) (Some (h_v4 h, h_v6 h))) (snd (fst q))) qs) e
          | _, _ => false
          end
      | Err EInvalid => match exp with None => true | Some _ => false end
      | _ => false
      end
  | CEngX entries text hosts qs pool exp =>
      let m := outbounds_to_map entries DIRECT REJECT in
      match compile_text m text (Z.of_N AclCacheSize) with
      | Ok rs =>
          match exp, map_get m s_default with
          | Some ei, Some d =>
              let e := map (fun i => nth i pool (77777, 0, 0, [], [], 0, [])) ei in
              let reqs := map (fun q : nat * N * N =>
                                 let hm := nth (fst (fst q)) hosts (mkHost [] [] [], 0) in
                                 (mkReqX (h_name (fst hm)) (snd q) (ri_of (fst hm) (snd hm)), op_of (snd (fst q)))) qs in
              all2 (fun ao o => engx_eqb REJECT (snd (engine_handle rs d (reqx_forget (fst ao)) (op_proto (snd ao))))
                                         (engine_call ip_string rs d (fst ao) (snd ao)) o) reqs e
          | _, _ => false
          end
      | Err EInvalid => match exp with None => true | Some _ => false end
      | _ => false
      end
  | CEng entries rules hosts qs pool exp =>
      let m := outbounds_to_map entries DIRECT REJECT in
      match compile m rules (Z.of_N AclCacheSize) with
      | Ok rs =>
          match exp, map_get m s_default with
          | Some ei, Some d =>
              let e := map (fun i => nth i pool (77777, 0, [], [])) ei in
              all2 eng_eqb
                   (map (fun q => let h := nth (fst (fst q)) hosts (mkHost [] [] []) in
                                  engine_handle rs d (mkReq (h_name h) (snd q) (Some (h_v4 h, h_v6 h))) (snd (fst q))) qs) e
          | _, _ => false
          end
      | Err EInvalid => match exp with None => true | Some _ => false end
      | _ => false
      end
  end.

Definition mismatches (l : list case) : list nat := mism_from check 0 l.
