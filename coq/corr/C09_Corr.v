(* C09 correspondence: how the observed answers of acl.Compile / CompiledRuleSet.Match /
   aclEngine.handle are compared with the model.  Used by the generated run/C09/cases_*.v files. *)
From Hy Require Import lib.Harness model.C09_ACL proof.C09_ACL.
From Coq Require Import ZArith.
Local Open Scope N_scope.

Inductive case :=
(* outbound map, text rules, cache size, host pool, queries (host index, protocol, port),
   observed: None = Compile returned an error, Some answers (outbound id or 0, hijack bytes), each
   given as an index into the pool of distinct answers *)
| CAcl (obs : list (str * N)) (rules : list trule) (csize : Z) (hosts : list host)
       (qs : list (nat * N * N)) (pool : list (N * list byte)) (exp : option (list nat))
(* engine: outbound entries in order; observed per query: outbound id, rewritten?, new ResolveInfo v4, v6 *)
| CEng (entries : list (str * N)) (rules : list trule) (hosts : list host)
       (qs : list (nat * N * N)) (pool : list (N * N * list byte * list byte)) (exp : option (list nat)).

Definition mkq (hosts : list host) (q : nat * N * N) : query :=
  mkQuery (nth (fst (fst q)) hosts (mkHost [] [] [])) (snd (fst q)) (snd q).

Definition res_eqb (r : result) (o : N * list byte) : bool :=
  (match fst r with Some x => negb (x =? 0) && (x =? fst o) | None => fst o =? 0 end) && beqb (snd r) (snd o).

Fixpoint all2 {A B} (f : A -> B -> bool) (a : list A) (b : list B) : bool :=
  match a, b with
  | [], [] => true
  | x :: a', y :: b' => f x y && all2 f a' b'
  | _, _ => false
  end.

Definition eng_eqb (r : N * rewrite) (o : N * N * list byte * list byte) : bool :=
  let '(ob, rw, v4, v6) := o in
  (fst r =? ob) &&
  match snd r with
  | RwNone => (rw =? 0) && beqb v4 [] && beqb v6 []
  | RwHijack _ a b => (rw =? 1) && beqb v4 a && beqb v6 b
  end.

Definition DIRECT : N := 1000.
Definition REJECT : N := 1001.

Definition check (c : case) : bool :=
  match c with
  | CAcl obs rules csize hosts qs pool exp =>
      match compile obs rules csize with
      | Ok rs =>
          match exp with
          | Some ei =>
              let e := map (fun i => nth i pool (77777, [])) ei in
              let qq := map (mkq hosts) qs in
              all2 res_eqb (map (fresh rs) qq) e &&
              all2 res_eqb (run ip_str_hex (pol_fifo (Z.to_nat csize)) rs qq) e
          | None => false
          end
      | Err EInvalid => match exp with None => true | Some _ => false end
      | _ => false
      end
  | CEng entries rules hosts qs pool exp =>
      let m := outbounds_to_map entries DIRECT REJECT in
      match compile m rules (Z.of_N AclCacheSize) with
      | Ok rs =>
          match exp, map_get m s_default with
          | Some ei, Some d =>
              let e := map (fun i => nth i pool (77777, 0, [], [])) ei in
              all2 eng_eqb
                   (map (fun q => let h := nth (fst (fst q)) hosts (mkHost [] [] []) in
                                  engine_handle rs d (mkReq (h_name h) (snd q) (Some (h_v4 h, h_v6 h))) (snd (fst q))) qs) e
          | _, _ => false
          end
      | Err EInvalid => match exp with None => true | Some _ => false end
      | _ => false
      end
  end.

Definition mismatches (l : list case) : list nat := mism_from check 0 l.
