(* C10 correspondence: how one observed implementation result is compared with the model.
   Used by the generated run/C10/cases_*.v files.  Not part of any theorem. *)
From Hy Require Import lib.Harness model.C10_Negotiate model.C10_Reuse.
From Hy Require Import model.C10_Wire.
From Hy Require corr.C11_Corr.
From Coq Require Import ZArith.
Local Open Scope N_scope.

(* numbers in the generated cases files: numerals of 20 digits are slow to parse (number notation),
   byte lists are not, so large numbers are written as their decimal digits *)
Definition nd (s : list byte) : N := fold_left (fun x c => x * 10 + (b2n c - 48)) s 0.
Definition zd (neg : bool) (s : list byte) : Z := if neg then (- Z.of_N (nd s))%Z else Z.of_N (nd s).

Inductive case :=
(* AuthRequestFromHeader on the given Hysteria-CC-RX values -> Rx *)
| CPReq (vals : list (list byte)) (rx : N)
(* AuthResponseFromHeader -> Rx, RxAuto *)
| CPResp (vals : list (list byte)) (rx : N) (auto : bool)
(* AuthRequestToHeader(Rx = n) -> header value, number of values *)
| CFReq (n : N) (hdr : list byte) (nvals : nat)
(* AuthResponseToHeader(Rx = n, RxAuto = auto) *)
| CFResp (auto : bool) (n : N) (hdr : list byte) (nvals : nat)
(* server Config.fill() with MaxTx, MaxRx -> accepted *)
| CCfg (stx srx : N) (accepted : bool)
(* brutal.NewBrutalSender(n).bps *)
| CBrutal (n : N) (bps : Z)
(* complete handshake, real client and real server *)
| CHs (s : server_cfg) (c : client_cfg) (auth_tx connect_tx : N) (si : installed)
      (info_tx : N) (ci : installed)
(* raw request header against the real server *)
| CRawReq (s : server_cfg) (vals : list (list byte)) (auth_tx connect_tx : N) (si : installed)
          (resp_hdr : list byte)
(* real client against a raw response header; req_hdr is what the client declared *)
| CRawResp (c : client_cfg) (vals : list (list byte)) (info_tx : N) (ci : installed)
           (req_hdr : list byte)
(* several POST /auth on ONE connection against the real server: per request the Hysteria-CC-RX values and whether the
   Authenticator accepts; observed per request: status 233?, the response header, the controller on the connection
   right after the response; at the end every Authenticate tx and every Connect tx, in order *)
| CReauth (s : server_cfg) (rqs : list (list (list byte) * bool))
          (obs : list (bool * list byte * installed)) (auth_txs connect_txs : list N)
(* several real client.NewClient calls, one after the other, on ONE *client.Config, each answered by a bare HTTP/3
   server with the given Hysteria-CC-RX values; before a handshake the caller may write new limits into the object.
   Observed per handshake: HandshakeInfo.Tx, the installed controller, the Hysteria-CC-RX the client sent, and
   the object's MaxTx / MaxRx right after NewClient returned *)
| CSeq (c : client_cfg) (steps : list seq_step) (obs : list (N * installed * list byte * (N * N)))
(* C10 o C11: a complete handshake (as CHs) with DisableLossCompensation configured on both sides; additionally the
   disableLossCompensation flag read from each installed sender, and for each side that installed a Brutal sender a
   recorded call history (the C11 harness's step script, observation count and digest) of a sender constructed by
   brutal.NewBrutalSender with the rate and flag read from the installed object.  The model's side: the sender C10's
   model says was installed (sender_of) replayed by C11's model must produce the same observations, and the composed
   bound (windows_ok, with the model's REPORTED rate) must hold on the recorded sends. *)
| CWire (s : server_cfg) (c : client_cfg) (sdis cdis : bool) (auth_tx connect_tx : N) (si : installed)
        (info_tx : N) (ci : installed) (s_dis_obs c_dis_obs : bool)
        (sruns cruns : list (list C11_Corr.cstep * Z * Z)).

Definition inst_eqb (a b : installed) : bool :=
  match a, b with
  | IBrutal x, IBrutal y => (x =? y)%Z
  | IBbr, IBbr | IDefault, IDefault => true
  | _, _ => false
  end.

Definition hdr1_eqb (vals : list (list byte)) (h : list byte) : bool :=
  match vals with [v] => bytes_eqb v h | _ => false end.

Fixpoint all2 {A B} (f : A -> B -> bool) (a : list A) (b : list B) : bool :=
  match a, b with
  | [], [] => true
  | x :: a', y :: b' => f x y && all2 f a' b'
  | _, _ => false
  end.

Definition reply_eqb (m : reply * installed) (o : bool * list byte * installed) : bool :=
  let '(ok, hdr, i) := o in
  inst_eqb (snd m) i &&
  match fst m with
  | R233 r => ok && hdr1_eqb (resp_to_header r) hdr
  | RMasq => negb ok
  end.

Definition seq_eqb (m : client_cfg * client_out * list (list byte)) (o : N * installed * list byte * (N * N)) : bool :=
  let '(c2, co, qh) := m in
  let '(itx, ci, rh, (tx_after, rx_after)) := o in
  (co_info_tx co =? itx) && inst_eqb (co_installed co) ci && hdr1_eqb qh rh &&
  (c_max_tx c2 =? tx_after) && (c_max_rx c2 =? rx_after).

(* short names for the generated files *)
Definition wSn := C11_Corr.Sn.
Definition wEv := C11_Corr.Ev.
Definition wMd := C11_Corr.Md.
Definition wWt := C11_Corr.Wt.
Definition wRt := C11_Corr.Rt.

Definition bop_of (st : C11_Corr.cstep) : list bop :=
  match st with
  | C11_Corr.Sn t size => [OSent t size]
  | C11_Corr.Ev t a l => [OEvent t a l]
  | C11_Corr.Md v => [OSetMds v]
  | _ => []
  end.

Definition max_mds (steps : list C11_Corr.cstep) : Z :=
  fold_left (fun m st => match st with C11_Corr.Md v => Z.max m v | _ => m end) steps InitialPacketSize.

(* one recorded history against the sender the model installed, reported = the model's reported rate *)
Definition wire_run_ok (i : installed) (dis dis_obs : bool) (reported : N) (run : list C11_Corr.cstep * Z * Z) : bool :=
  let '(steps, nobs, dig) := run in
  match sender_of i dis with
  | None => false
  | Some b0 =>
      Bool.eqb (b_disable b0) dis_obs &&
      (let '(n, h) := C11_Corr.run_dig (C11_Corr.mkR b0 0 0) steps 0 0 in (n =? nobs)%Z && (h =? dig)%Z) &&
      (if (65536 <=? reported) && (reported <=? 1099511627776)
       then windows_ok (comp_rate reported) (burst_bound (comp_rate reported) (max_mds steps)) (sends_of (flat_map bop_of steps))
       else true)
  end.

Definition is_brutal (i : installed) : bool := match i with IBrutal b => (0 <? b)%Z | _ => false end.

Definition check (c : case) : bool :=
  match c with
  | CPReq vals rx => req_from_header vals =? rx
  | CPResp vals rx auto =>
      let r := resp_from_header vals in (r_rx r =? rx) && Bool.eqb (r_auto r) auto
  | CFReq n hdr nvals =>
      hdr1_eqb (req_to_header n) hdr && Nat.eqb nvals 1
  | CFResp auto n hdr nvals =>
      hdr1_eqb (resp_to_header (mkResp n auto)) hdr && Nat.eqb nvals 1
  | CCfg stx srx acc => Bool.eqb (server_cfg_ok (mkSrv false stx srx TBbr)) acc
  | CBrutal n bps => inst_eqb (use_brutal n) (IBrutal bps)
  | CHs s c atx ctx si itx ci =>
      server_cfg_ok s &&
      (let '(so, co) := handshake s c in
       (so_auth_tx so =? atx) && (so_connect_tx so =? ctx) && inst_eqb (so_installed so) si &&
       (co_info_tx co =? itx) && inst_eqb (co_installed co) ci)
  | CRawReq s vals atx ctx si rh =>
      server_cfg_ok s &&
      (let so := server_auth s vals in
       (so_auth_tx so =? atx) && (so_connect_tx so =? ctx) && inst_eqb (so_installed so) si &&
       hdr1_eqb (resp_to_header (so_resp so)) rh)
  | CRawResp c vals itx ci qh =>
      let co := client_connect c vals in
      (co_info_tx co =? itx) && inst_eqb (co_installed co) ci &&
      hdr1_eqb (req_to_header (c_max_rx c)) qh
  | CReauth s rqs obs atxs ctxs =>
      server_cfg_ok s &&
      (let (st, rps) := serve_run s conn_init rqs in
       all2 reply_eqb rps obs && N_list_eqb (cs_authcalls st) atxs && N_list_eqb (cs_connects st) ctxs)
  | CSeq c steps obs => all2 seq_eqb (client_seq c steps) obs
  | CWire s c sdis cdis atx ctx si itx ci sdo cdo sruns cruns =>
      server_cfg_ok s &&
      (let '(so, co) := handshake s c in
       (so_auth_tx so =? atx) && (so_connect_tx so =? ctx) && inst_eqb (so_installed so) si &&
       (co_info_tx co =? itx) && inst_eqb (co_installed co) ci &&
       Nat.eqb (length sruns) (if is_brutal (so_installed so) then 1 else 0) &&
       Nat.eqb (length cruns) (if is_brutal (co_installed co) then 1 else 0) &&
       forallb (wire_run_ok (so_installed so) sdis sdo (so_connect_tx so)) sruns &&
       forallb (wire_run_ok (co_installed co) cdis cdo (co_info_tx co)) cruns)
  end.

Definition mismatches (l : list case) : list nat := mism_from check 0 l.
