(* C10 correspondence: how one observed implementation result is compared with the model.
   Used by the generated run/C10/cases_*.v files.  Not part of any theorem. *)
From Hy Require Import lib.Harness model.C10_Negotiate model.C10_Reuse.
From Coq Require Import ZArith.
Local Open Scope N_scope.

(* numbers in the generated cases files: numerals of 20 digits are slow to parse (number notation),
   byte lists are not, so large numbers are written as their decimal digits *)
Definition nd (s : list byte) : N := fold_left (fun x c => x * 10 + (b2n c - 48)) s 0.
Definition zd (neg : bool) (s : list byte) : Z := if neg then (- Z.of_N (nd s))%Z else Z.of_N (nd s).

Inductive case :=
(* AuthRequestFromHeader on the given Hysteria-CC-RX values -> Rx *)
| CPReq (vals : list (list byte)) (rx : N)
(* AuthResponseFromHeader -> Rx, RxAuto *)
| CPResp (vals : list (list byte)) (rx : N) (auto : bool)
(* AuthRequestToHeader(Rx = n) -> header value, number of values *)
| CFReq (n : N) (hdr : list byte) (nvals : nat)
(* AuthResponseToHeader(Rx = n, RxAuto = auto) *)
| CFResp (auto : bool) (n : N) (hdr : list byte) (nvals : nat)
(* server Config.fill() with MaxTx, MaxRx -> accepted *)
| CCfg (stx srx : N) (accepted : bool)
(* brutal.NewBrutalSender(n).bps *)
| CBrutal (n : N) (bps : Z)
(* complete handshake, real client and real server *)
| CHs (s : server_cfg) (c : client_cfg) (auth_tx connect_tx : N) (si : installed)
      (info_tx : N) (ci : installed)
(* raw request header against the real server *)
| CRawReq (s : server_cfg) (vals : list (list byte)) (auth_tx connect_tx : N) (si : installed)
          (resp_hdr : list byte)
(* real client against a raw response header; req_hdr is what the client declared *)
| CRawResp (c : client_cfg) (vals : list (list byte)) (info_tx : N) (ci : installed)
           (req_hdr : list byte)
(* several POST /auth on ONE connection against the real server: per request the Hysteria-CC-RX values and whether the
   Authenticator accepts; observed per request: status 233?, the response header, the controller on the connection
   right after the response; at the end every Authenticate tx and every Connect tx, in order *)
| CReauth (s : server_cfg) (rqs : list (list (list byte) * bool))
          (obs : list (bool * list byte * installed)) (auth_txs connect_txs : list N)
(* several real client.NewClient calls, one after the other, on ONE *client.Config, each answered by a bare HTTP/3
   server with the given Hysteria-CC-RX values; before a handshake the caller may write new limits into the object.
   Observed per handshake: HandshakeInfo.Tx, the installed controller, the Hysteria-CC-RX the client sent, and
   the object's MaxTx / MaxRx right after NewClient returned *)
| CSeq (c : client_cfg) (steps : list seq_step) (obs : list (N * installed * list byte * (N * N))).

Definition inst_eqb (a b : installed) : bool :=
  match a, b with
  | IBrutal x, IBrutal y => (x =? y)%Z
  | IBbr, IBbr | IDefault, IDefault => true
  | _, _ => false
  end.

Definition hdr1_eqb (vals : list (list byte)) (h : list byte) : bool :=
  match vals with [v] => bytes_eqb v h | _ => false end.

Fixpoint all2 {A B} (f : A -> B -> bool) (a : list A) (b : list B) : bool :=
  match a, b with
  | [], [] => true
  | x :: a', y :: b' => f x y && all2 f a' b'
  | _, _ => false
  end.

Definition reply_eqb (m : reply * installed) (o : bool * list byte * installed) : bool :=
  let '(ok, hdr, i) := o in
  inst_eqb (snd m) i &&
  match fst m with
  | R233 r => ok && hdr1_eqb (resp_to_header r) hdr
  | RMasq => negb ok
  end.

Definition seq_eqb (m : client_cfg * client_out * list (list byte)) (o : N * installed * list byte * (N * N)) : bool :=
  let '(c2, co, qh) := m in
  let '(itx, ci, rh, (tx_after, rx_after)) := o in
  (co_info_tx co =? itx) && inst_eqb (co_installed co) ci && hdr1_eqb qh rh &&
  (c_max_tx c2 =? tx_after) && (c_max_rx c2 =? rx_after).

Definition check (c : case) : bool :=
  match c with
  | CPReq vals rx => req_from_header vals =? rx
  | CPResp vals rx auto =>
      let r := resp_from_header vals in (r_rx r =? rx) && Bool.eqb (r_auto r) auto
  | CFReq n hdr nvals =>
      hdr1_eqb (req_to_header n) hdr && Nat.eqb nvals 1
  | CFResp auto n hdr nvals =>
      hdr1_eqb (resp_to_header (mkResp n auto)) hdr && Nat.eqb nvals 1
  | CCfg stx srx acc => Bool.eqb (server_cfg_ok (mkSrv false stx srx TBbr)) acc
  | CBrutal n bps => inst_eqb (use_brutal n) (IBrutal bps)
  | CHs s c atx ctx si itx ci =>
      server_cfg_ok s &&
      (let '(so, co) := handshake s c in
       (so_auth_tx so =? atx) && (so_connect_tx so =? ctx) && inst_eqb (so_installed so) si &&
       (co_info_tx co =? itx) && inst_eqb (co_installed co) ci)
  | CRawReq s vals atx ctx si rh =>
      server_cfg_ok s &&
      (let so := server_auth s vals in
       (so_auth_tx so =? atx) && (so_connect_tx so =? ctx) && inst_eqb (so_installed so) si &&
       hdr1_eqb (resp_to_header (so_resp so)) rh)
  | CRawResp c vals itx ci qh =>
      let co := client_connect c vals in
      (co_info_tx co =? itx) && inst_eqb (co_installed co) ci &&
      hdr1_eqb (req_to_header (c_max_rx c)) qh
  | CReauth s rqs obs atxs ctxs =>
      server_cfg_ok s &&
      (let (st, rps) := serve_run s conn_init rqs in
       all2 reply_eqb rps obs && N_list_eqb (cs_authcalls st) atxs && N_list_eqb (cs_connects st) ctxs)
  | CSeq c steps obs => all2 seq_eqb (client_seq c steps) obs
  end.

Definition mismatches (l : list case) : list nat := mism_from check 0 l.
