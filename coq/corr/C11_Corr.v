(* C11 correspondence: a recorded history of calls on the real BrutalSender is replayed on the model.
   After every call the harness queries Budget(now), TimeUntilSend, Budget(at the announced time),
   HasPacingBudget(now), GetCongestionWindow, CanSend (at one datagram, at the window, one above)
   and math.Float64bits(ackRate); the model must produce the identical values.  To keep the
   generated cases files small the values are compared through a running digest over the whole
   history (polynomial hash modulo 2^61-1, computed identically by the Go harness); the detailed
   form (one expected value list per step) is kept for diagnosis.
   Used by the generated run/C11/cases_*.v files.  Not part of any theorem. *)
From Hy Require Import lib.Harness lib.F64 model.C11_Pacer model.C11_Brutal model.C11_Calls.
From Coq Require Import ZArith Bool.
Local Open Scope Z_scope.

(* compact script: every call is followed by the queries, made at the current virtual time and
   with the current smoothed RTT *)
Inductive cstep :=
| Sn (t size : Z)       (* OnPacketSent(t, 0, 0, size, true); now := t *)
| Ev (t nack nloss : Z) (* OnCongestionEventEx(_, t, nack acked, nloss lost); now := t *)
| Md (s : Z)            (* SetMaxDatagramSize(s) *)
| Wt (now : Z)          (* nothing is called; now := now *)
| Rt (rtt : Z)          (* the fake RTT provider's SmoothedRTT := rtt; no call, no queries *)
| Sx (t size : Z).      (* OnPacketSent(t, 0, 0, size, false): a packet that is not ack-eliciting; now := t *)

Inductive case :=
| CDig (bps : Z) (disable : bool) (steps : list cstep) (nobs : Z) (dig : Z)
| CDet (bps : Z) (disable : bool) (steps : list cstep) (exp : list (list Z)).

Definition b2z (b : bool) : Z := if b then 1 else 0.

Definition obs_list (b1 : brutal) (pan : bool) (now rtt : Z) : list Z :=
  let bw := bandwidth b1 in
  let p := b_pacer b1 in
  let tus := time_until_send bw p in
  let cw := cwnd b1 rtt in
  let bud := budget bw p now in
  [ b2z pan;
    bud;
    match tus with Ok _ => 0 | _ => 1 end;
    match tus with Ok w => w | _ => 0 end;
    match tus with Ok w => if w =? 0 then 0 else budget bw p w | _ => 0 end;
    b2z (b_mds b1 <=? bud);                       (* = has_pacing_budget b1 now *)
    cw;
    b2z (can_send_w cw (b_mds b1));               (* = can_send b1 rtt _ *)
    b2z (can_send_w cw cw);
    b2z (can_send_w cw (wrap64 (cw + 1)));
    bits (b_rate b1) ].

Definition dig_P : Z := 2305843009213693951.   (* 2^61 - 1 *)
(* x mod (2^61-1) for 0 <= x < 2^120, by folding (division-free: Z.modulo is slow in the VM) *)
Definition dig_fold (x : Z) : Z := Z.land x dig_P + Z.shiftr x 61.
Definition dig_red (x : Z) : Z :=
  let y := dig_fold (dig_fold x) in if dig_P <=? y then y - dig_P else y.
(* every value is offset by 2^63 so that int64 values are non-negative *)
Definition dig_add (h v : Z) : Z := dig_red (h * 1000003 + (v + two63)).

Record rstate := mkR { r_b : brutal; r_now : Z; r_rtt : Z }.

(* one step: new state and the observations (None for R) *)
Definition rstep (r : rstate) (s : cstep) : rstate * option (list Z) :=
  match s with
  | Rt v => (mkR (r_b r) (r_now r) v, None)
  | _ =>
      let '(o, now) := match s with
                       | Sn t size => (KSent t 0 0 size true, t)
                       | Sx t size => (KSent t 0 0 size false, t)
                       | Ev t a l => (KEvent t a l, t)
                       | Md v => (KSetMds v, r_now r)
                       | Wt n => (KNop, n)
                       | Rt _ => (KNop, r_now r)
                       end in
      let '(b1, pan) := kstep (r_b r) o in
      (mkR b1 now (r_rtt r), Some (obs_list b1 pan now (r_rtt r)))
  end.

Fixpoint run_dig (r : rstate) (l : list cstep) (n h : Z) : Z * Z :=
  match l with
  | [] => (n, h)
  | s :: t =>
      let '(r1, o) := rstep r s in
      match o with
      | None => run_dig r1 t n h
      | Some vs => run_dig r1 t (n + 1) (fold_left dig_add vs h)
      end
  end.

Fixpoint Z_list_eqb (a b : list Z) : bool :=
  match a, b with
  | [], [] => true
  | x :: a', y :: b' => (x =? y) && Z_list_eqb a' b'
  | _, _ => false
  end.

Fixpoint run_det (r : rstate) (l : list cstep) (exp : list (list Z)) : bool :=
  match l with
  | [] => match exp with [] => true | _ => false end
  | s :: t =>
      let '(r1, o) := rstep r s in
      match o with
      | None => run_det r1 t exp
      | Some vs => match exp with
                   | e :: exp' => Z_list_eqb vs e && run_det r1 t exp'
                   | [] => false
                   end
      end
  end.

Definition rinit (bps : Z) (dis : bool) : rstate := mkR (brutal_init bps dis) 0 0.

Definition check (c : case) : bool :=
  (* the parameters file is tied to the float constant too *)
  (bits min_ack_rate =? minAckRate_bits) &&
  match c with
  | CDig bps dis steps nobs dig =>
      let '(n, h) := run_dig (rinit bps dis) steps 0 0 in (n =? nobs) && (h =? dig)
  | CDet bps dis steps exp => run_det (rinit bps dis) steps exp
  end.

Definition mismatches (l : list case) : list nat := mism_from check 0 l.
