(* C12 correspondence: how observed implementation steps are compared with the model.
   Used by the generated run/C12/cases_*.v files.  Not part of any theorem. *)
From Hy Require Import lib.Harness lib.F64 lib.F64x model.C12_Queue model.C12_Sender model.C12_Full.
From Coq Require Import ZArith Bool List.
Import ListNotations.
Local Open Scope Z_scope.

Definition zdigest (l : list Z) : Z :=
  fold_left (fun h v => Z.land (h * 131 + v + 1) 4294967295) l 0.

Fixpoint Zl_eqb (a b : list Z) : bool :=
  match a, b with
  | [], [] => true
  | x :: s, y :: t => (x =? y) && Zl_eqb s t
  | _, _ => false
  end.

Definition b2z (b : bool) : Z := if b then 1 else 0.

(* ---------------------------------------------------------------- ring *)
Definition ring_obs (r : ring Z) : list Z :=
  [Z.of_nat (rb_len r); Z.of_nat (rb_cap r); Z.of_nat (r_head r); Z.of_nat (r_tail r);
   b2z (r_full r); b2z (rb_empty r); zdigest (r_buf r)].

(* one operation: (panicked, returned value, next state); a panic leaves the ring unchanged *)
Definition ring_step (r : ring Z) (code arg : Z) : bool * Z * ring Z :=
  let of_idx (x : Res nat) :=
    match x with Ok i => (false, rb_get 0 r i, r) | _ => (true, 0, r) end in
  match code with
  | 0 => match rb_push 0 r arg with Ok r1 => (false, 0, r1) | _ => (true, 0, r) end
  | 1 => match rb_pop 0 r with Ok (t, r1) => (false, t, r1) | _ => (true, 0, r) end
  | 2 => of_idx (rb_offset r arg)
  | 3 => of_idx (rb_front r)
  | 4 => of_idx (rb_back r)
  | _ => (false, 0, rb_clear 0 r)
  end.

Fixpoint ring_run (r : ring Z) (steps : list (Z * Z * list Z)) : bool :=
  match steps with
  | [] => true
  | (code, arg, exp) :: t =>
      let '(p, ret, r1) := ring_step r code arg in
      Zl_eqb exp (b2z p :: ret :: ring_obs r1) && ring_run r1 t
  end.

(* ---------------------------------------------------------------- indexed queue *)
Definition pq_obs (q : pq Z) : list Z :=
  let r := q_entries q in
  [q_np q; q_first q; pq_last q; pq_slots q; Z.of_nat (rb_cap r); Z.of_nat (r_head r);
   Z.of_nat (r_tail r); b2z (r_full r); b2z (pq_is_empty q);
   zdigest (flat_map (fun e : bool * Z => [b2z (fst e); snd e]) (r_buf r))].

Definition pq_step (q : pq Z) (code pn val : Z) : bool * Z * Z * pq Z :=
  match code with
  | 0 => match pq_emplace 0 q pn (if val <? 0 then None else Some val) with
         | Ok (q1, b) => (false, b2z b, 0, q1) | _ => (true, 0, 0, q) end
  | 1 => match pq_get 0 q pn with
         | Ok (Some v) => (false, 1, v, q) | Ok None => (false, 0, 0, q) | _ => (true, 0, 0, q) end
  | 2 => match pq_remove 0 q pn with
         | Ok (q1, Some v) => (false, 1, v, q1) | Ok (q1, None) => (false, 0, 0, q1)
         | _ => (true, 0, 0, q) end
  | _ => match pq_remove_upto 0 q pn with Ok q1 => (false, 0, 0, q1) | _ => (true, 0, 0, q) end
  end.

Fixpoint pq_run (q : pq Z) (steps : list (Z * Z * Z * list Z)) : bool :=
  match steps with
  | [] => true
  | (code, pn, val, exp) :: t =>
      let '(p, flag, ret, q1) := pq_step q code pn val in
      Zl_eqb exp (b2z p :: flag :: ret :: pq_obs q1) && pq_run q1 t
  end.

(* ---------------------------------------------------------------- windowed filter *)
Definition wfz_obs (f : wfilt Z) : list Z :=
  [fst (w0 f); snd (w0 f); fst (w1 f); snd (w1 f); fst (w2 f); snd (w2 f); w_len f].

Definition wf_step {V} (zeroV : V) (cmp : V -> V -> Z) (f : wfilt V) (code : Z) (s : V) (t : Z) : wfilt V :=
  match code with
  | 0 => wf_update zeroV cmp f s t
  | 1 => wf_reset f s t
  | 2 => wf_clear zeroV f
  | _ => wf_set_window f t
  end.

Fixpoint wfz_run (cmp : Z -> Z -> Z) (f : wfilt Z) (steps : list (list Z * list Z)) : bool :=
  match steps with
  | [] => true
  | (code :: s :: t :: _, exp) :: rest =>
      let f1 := wf_step 0 cmp f code s t in
      Zl_eqb exp (wfz_obs f1) && wfz_run cmp f1 rest
  | _ => false
  end.

Definition xev_obs (e : xev * Z) : list Z :=
  let '(x, b, _, r) := fst e in [x; b; r; snd e].
Definition wfx_obs (f : wfilt xev) : list Z :=
  xev_obs (w0 f) ++ xev_obs (w1 f) ++ xev_obs (w2 f) ++ [w_len f].

Fixpoint wfx_run (f : wfilt xev) (steps : list (list Z * list Z)) : bool :=
  match steps with
  | [] => true
  | (code :: s :: t :: a :: b :: _, exp) :: rest =>
      let f1 := wf_step xev0 cmp_xev f code (s, a, 0, b) t in
      Zl_eqb exp (wfx_obs f1) && wfx_run f1 rest
  | _ => false
  end.

(* ---------------------------------------------------------------- simulator dumps (layer 2) *)
Definition g (l : list Z) (i : nat) : Z := nth i l 0.

Definition st_at (l : list Z) (o : nat) : wstate :=
  mkW (g l o) (g l (o + 1)) (g l (o + 2)) (g l (o + 3)) (g l (o + 4)) (g l (o + 5)) (g l (o + 6)) (g l (o + 7))
      (g l (o + 8)) (g l (o + 9)) (g l (o + 10) =? 1) (g l (o + 11)) (g l (o + 12)) (g l (o + 13)) (g l (o + 14))
      (g l (o + 15)).

Definition st_list (st : wstate) : list Z :=
  [mds st; minCW st; maxCW st; initCW st; cwndMinPacing st; maxCWAdj st; cwnd st; recWin st; mode st; recState st;
   b2z (atFullBw st); endRecoveryAt st; lastSent st; curRoundEnd st; roundCount st; inflight st].

Definition st_eqb (a b : wstate) : bool := Zl_eqb (st_list a) (st_list b).

(* After every dumped event: GetCongestionWindow; bandwidthForPacer recomputed by the model from the dumped
   pacingRate field (bits/s) and PacingRate()'s fallback - the bits/s -> bytes/s division and the floor are the
   model's, the implementation only supplies its result; and the range property itself.
   l[o] = GetCongestionWindow, l[o+1] = pacingRate field, l[o+2] = fallback oracle, l[o+3] = bandwidthForPacer() *)
Definition tail_ok (st : wstate) (l : list Z) (o : nat) : bool :=
  (get_cwnd st =? g l o) &&
  (bandwidth_for_pacer (pacing_rate (u64 (g l (o + 1))) (u64 (g l (o + 2)))) =? g l (o + 3)) &&
  (c12_minBps <=? g l (o + 3)) &&
  (c12_minCongestionWindowPackets * mds st <=? get_cwnd st) && (get_cwnd st <=? maxCW st).

(* calculateCongestionWindow recomputed on its own from the dumped inputs: the state just before it is the state
   after the event with the window put back (it writes nothing else), mode and full-bandwidth flag already updated *)
Definition calc_ok (agg : bool) (before after : wstate) (o : oracle) : bool :=
  let pre := set_cwnd after (cwnd before) in
  cwnd (calc_cwnd pre agg (o_target o) (o_maxAckHeight o) (o_excess o) (o_bytesAcked o) (o_totalAcked o)) =? cwnd after.

(* one dumped event: recompute the modelled update from the dumped inputs and oracle values *)
Definition dump_ok (agg : bool) (l : list Z) : bool :=
  let before := st_at l 1 in
  match g l 0 with
  | 0 => let st' := on_sent before (g l 17) (g l 18) in
         st_eqb st' (st_at l 19) && tail_ok st' l 35
  | 1 => let o := mkO (g l 23) (g l 24 =? 1) (g l 25) (g l 26) (g l 27) (g l 28) (g l 29) (g l 30) in
         let st' := cong_event before agg (g l 17) (g l 18) (g l 19)
                      (if g l 20 =? 1 then Some (g l 21) else None) (g l 22 =? 1) o in
         st_eqb st' (st_at l 31) && calc_ok agg before (st_at l 31) o && tail_ok st' l 47
  | _ => match set_mds before (g l 17) with
         | Ok st' => st_eqb st' (st_at l 18) && tail_ok st' l 34
         | _ => false
         end
  end.

(* the trace prefix: quic_consistent, and the sampler's queue under the same events *)
Fixpoint pairs (n : nat) (l : list Z) : list (Z * Z) * list Z :=
  match n with
  | O => ([], l)
  | S k => match l with
           | a :: b :: t => let x := pairs k t in ((a, b) :: fst x, snd x)
           | _ => ([], [])
           end
  end.

Definition dec_ev (l : list Z) : option (qevent * list Z) :=
  match l with
  | 0 :: pn :: sz :: rt :: obs => Some (QSent pn sz (rt =? 1), obs)
  | 1 :: na :: nl :: rest =>
      let x := pairs (Z.to_nat na) rest in
      let y := pairs (Z.to_nat nl) (snd x) in
      Some (QCong (fst x) (fst y), snd y)
  | 2 :: s :: obs => Some (QSetMds s, obs)
  | _ => None
  end.

Fixpoint dec_all (tr : list (list Z)) : option (list (qevent * list Z)) :=
  match tr with
  | [] => Some []
  | l :: t => match dec_ev l, dec_all t with
              | Some e, Some r => Some (e :: r)
              | _, _ => None
              end
  end.

Fixpoint bk_cmp (q : pq Z) (evs : list (qevent * list Z)) : bool :=
  match evs with
  | [] => true
  | (e, obs) :: t =>
      match bk_step q e with
      | Ok q1 => Zl_eqb obs [q_np q1; q_first q1; pq_slots q1] && bk_cmp q1 t
      | _ => false
      end
  end.

Definition trace_ok (m0 : Z) (tr : list (list Z)) : bool :=
  match dec_all tr with
  | None => false
  | Some evs => quic_consistent m0 (map fst evs) && bk_cmp (pq_new 0 c12_connectionStateMapQueueSize) evs
  end.


(* ---------------------------------------------------------------- whole-trace replay (layer 3) *)
(* The harness records every call made on the real bbrSender from its construction on, one packed number per call
   (plus one per acked / lost packet) carrying the call's arguments and a digest of the FULL state after the call
   (harness/go/c12/c12_replay_test.go: c12FullObs).  The model replays the calls from new_full and has to reproduce
   every digest.  obs_of is the model's rendering of c12FullObs, field by field in the same order. *)
Definition sts_obs (s : sts) : list Z :=
  [b2z (s_valid s); b2z (s_appLimited s); s_sent s; s_acked s; s_lost s; s_inflight s].
Definition cse_obs (e : cse) : list Z :=
  [c_sentTime e; c_size e; c_tbsAtLastAcked e; c_lastAckedSentTime e; c_lastAckedAckTime e] ++ sts_obs (c_sts e).
Definition went_obs (e : Z * Z) : list Z := [fst e; snd e].
Definition xent_obs (e : xev * Z) : list Z := let '(x, b, d, r) := fst e in [x; b; d; r; snd e].
Definition ring_layout {T} (r : ring T) : list Z :=
  [Z.of_nat (rb_len r); Z.of_nat (rb_cap r); Z.of_nat (r_head r); Z.of_nat (r_tail r); b2z (r_full r)].

Definition res_z (r : Res Z) : Z := match r with Ok v => v | _ => -7 end.

Definition obs_of (P : prof) (st : fstate) (now rttMin idx : Z) : list Z :=
  let w := fw st in let m := fm st in let pc := fpc st in let s := fs st in let t := sm_trk s in let q := sm_csm s in
  let bw := res_z (f_bw_for_pacer P st rttMin) in
  st_list w ++
  [m_numLossEv m; m_bytesLostInRound m] ++ went_obs (w0 (m_maxBw m)) ++ went_obs (w1 (m_maxBw m)) ++ went_obs (w2 (m_maxBw m)) ++
  [w_len (m_maxBw m); m_minRtt m; m_minRttTs m; m_pacingRate m; bits (m_pacingGain m); bits (m_cwndGain m);
   m_cycleOff m; m_lastCycleStart m; m_roundsNoGain m; m_bwAtLastRound m; b2z (m_exitingQuiescence m);
   m_exitProbeRttAt m; b2z (m_probeRttRoundPassed m); b2z (m_lastSampleAppLimited m); b2z (m_hasNoAppLimitedSample m);
   b2z (m_detectOvershooting m); m_bytesLostOvershoot m;
   bits (p_highGain P); bits (p_highCwndGain P); bits (p_drainGain P); bits (p_cwndGainConst P); p_numStartupRtts P;
   b2z (p_drainToTarget P); p_bytesLostMult P; b2z (p_enableAckAgg P); b2z (p_expireAckAgg P);
   p_budget pc; p_mds pc; p_last pc;
   sm_totalSent s; sm_totalAcked s; sm_totalLost s; 0; sm_tbsAtLastAcked s; sm_lastAckedSentTime s; sm_lastAckedAckTime s;
   sm_lastSent s; sm_lastAcked s; b2z (sm_appLimited s); sm_endOfAppLimited s;
   fst (sm_rap0 s); snd (sm_rap0 s); fst (sm_rap1 s); snd (sm_rap1 s); sm_totalAckedAfterLast s;
   b2z (p_overestimateAvoidance P); 0;
   t_epochStart t; t_epochBytes t; t_lastSentBeforeEpoch t; t_numEpochs t; bits (t_threshold t);
   b2z (t_newEpochAfterFullRound t); b2z (t_reduce t)] ++
  xent_obs (w0 (t_filter t)) ++ xent_obs (w1 (t_filter t)) ++ xent_obs (w2 (t_filter t)) ++ [w_len (t_filter t)] ++
  [q_np q; q_first q] ++ ring_layout (q_entries q) ++ ring_layout (sm_a0 s) ++
  (match pq_get cse0 q (sm_lastSent s) with
   | Ok (Some e) => 1 :: cse_obs e
   | _ => [0; 0; 0; 0; 0; 0; 0; 0; 0; 0; 0; 0]
   end) ++
  [f_get_cwnd st; res_z (pacing_rate_f P w m rttMin); bw; pacer_budget pc bw now; pacer_time_until_send pc bw;
   b2z (mds w <=? pacer_budget pc bw now); b2z (f_can_send st (inflight w))] ++
  (if Z.rem idx 50 =? 0
   then [zdigest (flat_map (fun e : bool * cse => b2z (fst e) :: cse_obs (snd e)) (r_buf (q_entries q)));
         zdigest (flat_map (fun a : ackpt => [fst a; snd a]) (r_buf (sm_a0 s)))]
   else [0; 0]).

(* uint64 rendering of an int64 (the harness digests two's complement values; zdigest works modulo 2^32, so the
   sign does not matter) *)

(* low k bits of a positive / the rest *)
Fixpoint psplit (k : nat) (p : positive) : Z * Z :=
  match k with
  | O => (0, Zpos p)
  | S k' => match p with
            | xH => (1, 0)
            | xO q => let x := psplit k' q in (Z.double (fst x), snd x)
            | xI q => let x := psplit k' q in (Z.succ_double (fst x), snd x)
            end
  end.
Definition zsplit (k : nat) (z : Z) : Z * Z := match z with Zpos p => psplit k p | _ => (0, 0) end.

Fixpoint take_pkts (n : nat) (tr : list Z) : list (Z * Z) * list Z :=
  match n with
  | O => ([], tr)
  | S k => match tr with
           | z :: t => let a := zsplit 40 z in let b := zsplit 20 (snd a) in
                       let x := take_pkts k t in ((fst a, fst b) :: fst x, snd x)
           | [] => ([], [])
           end
  end.

(* -1: every digest reproduced; i >= 0: first call whose digest differs; -(i+2): the model failed at call i *)
Fixpoint replay (fuel : nat) (P : prof) (st : fstate) (idx : Z) (tr : list Z) : Z :=
  match fuel, tr with
  | _, [] => -1
  | O, _ => -(idx + 2)
  | S fuel', z :: rest =>
    let a := zsplit 2 z in let kind := fst a in
    let a := zsplit 32 (snd a) in let dig := fst a in
    let a := zsplit 48 (snd a) in let now := fst a in
    let a := zsplit 40 (snd a) in let rttMin := fst a in
    let args := snd a in
    let r :=
      match kind with
      | 0 => let a := zsplit 44 args in let b := zsplit 40 (snd a) in let c := zsplit 20 (snd b) in
             (f_sent P st now (fst a) (fst b) (fst c) (snd c =? 1) rttMin, rest)
      | 1 => let a := zsplit 44 args in let b := zsplit 14 (snd a) in let c := zsplit 16 (snd b) in
             let x := take_pkts (Z.to_nat (fst c)) rest in
             let y := take_pkts (Z.to_nat (snd c)) (snd x) in
             (f_cong P st now (fst a) rttMin (fst b) (fst x) (fst y), snd y)
      | 2 => (f_set_mds st args, rest)
      | _ => (Ok st, rest)
      end in
    match fst r with
    | Ok st' => if zdigest (obs_of P st' now rttMin idx) =? dig then replay fuel' P st' (idx + 1) (snd r) else idx
    | _ => -(idx + 2)
    end
  end.

Definition replay_ok (prof_i m icw mcw : Z) (tr : list Z) : bool :=
  let P := prof_of prof_i in
  replay (length tr) P (new_full P m icw mcw) 0 tr =? -1.

(* diagnostics (not used by check): the model's observation vector after call number `stop` *)
Fixpoint replay_obs (fuel : nat) (P : prof) (st : fstate) (idx stop : Z) (tr : list Z) : list Z :=
  match fuel, tr with
  | S fuel', z :: rest =>
    let a := zsplit 2 z in let kind := fst a in
    let a := zsplit 32 (snd a) in
    let a := zsplit 48 (snd a) in let now := fst a in
    let a := zsplit 40 (snd a) in let rttMin := fst a in
    let args := snd a in
    let r :=
      match kind with
      | 0 => let a := zsplit 44 args in let b := zsplit 40 (snd a) in let c := zsplit 20 (snd b) in
             (f_sent P st now (fst a) (fst b) (fst c) (snd c =? 1) rttMin, rest)
      | 1 => let a := zsplit 44 args in let b := zsplit 14 (snd a) in let c := zsplit 16 (snd b) in
             let x := take_pkts (Z.to_nat (fst c)) rest in
             let y := take_pkts (Z.to_nat (snd c)) (snd x) in
             (f_cong P st now (fst a) rttMin (fst b) (fst x) (fst y), snd y)
      | 2 => (f_set_mds st args, rest)
      | _ => (Ok st, rest)
      end in
    match fst r with
    | Ok st' => if idx =? stop then obs_of P st' now rttMin idx else replay_obs fuel' P st' (idx + 1) stop (snd r)
    | Panic n => [-(idx + 2); Z.of_N n]
    | Err _ => [-(idx + 2); -1]
    end
  | _, _ => []
  end.

(* ---------------------------------------------------------------- cases *)
Inductive case :=
| CRing (init : nat) (steps : list (Z * Z * list Z))
| CPQ (size : nat) (steps : list (Z * Z * Z * list Z))
| CWF (inst : nat) (win : Z) (steps : list (list Z * list Z))
| CSim (agg : bool) (m0 : Z) (trace : list (list Z)) (dumps : list (list Z))
| CSeed (cases : list (Z * Z * Z))
| CReplay (prof_i m icw mcw : Z) (trace : list Z).

Definition check (c : case) : bool :=
  match c with
  | CRing init steps => ring_run (rb_init 0 init) steps
  | CPQ size steps => pq_run (pq_new 0 size) steps
  | CWF 0 win steps => wfz_run cmp_max (wf_new 0 win) steps
  | CWF 1 win steps => wfz_run cmp_min (wf_new 0 win) steps
  | CWF _ win steps => wfx_run (wf_new xev0 win) steps
  | CSim agg m0 trace dumps => trace_ok m0 trace && forallb (dump_ok agg) dumps
  | CSeed cs => forallb (fun c => seed_packet_size (fst (fst c)) (snd (fst c)) =? snd c) cs
  | CReplay p m icw mcw tr => replay_ok p m icw mcw tr
  end.

Definition mismatches (l : list case) : list nat := mism_from check 0 l.
