(* C13 correspondence: how one observed run of the Go code (harness/go/c13) is compared with the
   model, with H := the Gallina BLAKE2b-256 of lib/Blake2b.v.  Used by the generated
   run/C13/cases_*.v files.  Not part of any theorem. *)
From Hy Require Import lib.Harness lib.Blake2b model.C13_Salamander model.C13_Lock.
From Coq Require Import ZArith.
Local Open Scope N_scope.

Definition Hm := blake2b256.

(* a byte string of a case: literal or generated (byte i = (a*i+b) mod 256) *)
Inductive bsrc := BLit (l : list byte) | BGen (a b n : N).
Definition bytes_of (s : bsrc) : list byte :=
  match s with BLit l => l | BGen a b n => gen_data a b n end.

(* observed byte string: length, first bytes (the harness sends 16), digest of the whole *)
Record bobs := mkObs { o_len : nat; o_head : list byte; o_dig : N }.
Definition obs_ok (o : bobs) (l : list byte) : bool :=
  Nat.eqb (o_len o) (length l) && bytes_eqb (o_head o) (firstn (length (o_head o)) l) &&
  (o_dig o =? digest l).

Definition optN_eqb (a b : option N) : bool :=
  match a, b with Some x, Some y => x =? y | None, None => true | _, _ => false end.

(* items of a stream case, in network order towards the reading socket:
   IW  = payload written through the writing wrapper (salt read back from the observed wire,
         uerr = error returned by the underlying WriteTo: then nothing is delivered);
   IRaw = datagram injected below the reading wrapper (junk, foreign packets, errors) *)
Inductive item :=
| IW (payload : bsrc) (salt : list byte) (addr : N) (uerr : option N)
| IRaw (data : bsrc) (addr : N) (err : option N).

(* observed WriteTo: wire handed to the underlying conn, n, err *)
Record wobs := mkW { w_wire : bobs; w_n : nat; w_err : option N }.
(* observed ReadFrom return: n, p[:n], addr, err *)
Record robs := mkRO { ro_n : nat; ro_data : bobs; ro_addr : N; ro_err : option N }.

Inductive case :=
| CKey (psk : bsrc) (refused : bool)
| CObf (psk : bsrc) (salt : list byte) (inp : bsrc) (outcap : nat) (n : nat) (out : bobs)
| CDeobf (psk : bsrc) (inp : bsrc) (outcap : nat) (n : nat) (out : bobs)
| CStream (psk : bsrc) (plen : nat) (items : list item) (ws : list wobs) (rs : list robs)
          (lkw lkr : list (option bool)).
  (* lkw: per WriteTo that returned, was the writing wrapper's writeMutex found held afterwards;
     lkr: per ReadFrom that returned, was the reading wrapper's readMutex found held afterwards.
     Some b = observed (the field exists in the tree under test and is a sync.Mutex);
     None = not observed (the tree has no such field): that component is not compared, the number of
     calls still is.  The harness reports per case which fields it could observe and the driver
     refuses a None for a field the source declares. *)

(* model side of the writes: events delivered to the reader, write results and the writing
   wrapper's writeMutex after each call, in order; the calls run through the lock model
   (model/C13_Lock.v write_to_lk) from the lock state l.  A Stuck call delivers nothing and has no
   observation to be compared with: None *)
Fixpoint run_items (psk : list byte) (its : list item) (l : locks)
  : option (list uev * list (list byte * nat * option N) * list bool) :=
  match its with
  | [] => Some ([], [], [])
  | IW p salt addr uerr :: t =>
      match write_to_lk Hm psk salt (bytes_of p) uerr l with
      | Ok (RetW wire n e, l') =>
          match run_items psk t l' with
          | Some (evs, wr, lk) =>
              Some (match uerr with None => mkEv wire addr None :: evs | Some _ => evs end,
                    (wire, n, e) :: wr, wr_held l' :: lk)
          | None => None
          end
      | _ => None
      end
  | IRaw d addr err :: t =>
      match run_items psk t l with
      | Some (evs, wr, lk) => Some (mkEv (bytes_of d) addr err :: evs, wr, lk)
      | None => None
      end
  end.

Fixpoint bools_eqb (a b : list bool) : bool :=
  match a, b with
  | [], [] => true
  | x :: a', y :: b' => Bool.eqb x y && bools_eqb a' b'
  | _, _ => false
  end.

(* observed lock states against the model's: an unobserved component matches anything *)
Fixpoint lobs_eqb (a : list (option bool)) (b : list bool) : bool :=
  match a, b with
  | [], [] => true
  | x :: a', y :: b' =>
      match x with Some v => Bool.eqb v y | None => true end && lobs_eqb a' b'
  | _, _ => false
  end.

Definition w_ok (p : wobs * (list byte * nat * option N)) : bool :=
  let '(o, (wire, n, e)) := p in
  obs_ok (w_wire o) wire && Nat.eqb (w_n o) n && optN_eqb (w_err o) e.

Definition r_ok (p : robs * rres) : bool :=
  let '(o, r) := p in
  Nat.eqb (ro_n o) (r_n r) && obs_ok (ro_data o) (r_data r) && (ro_addr o =? r_addr r) &&
  optN_eqb (ro_err o) (r_err r).

Definition check (c : case) : bool :=
  match c with
  | CKey psk refused =>
      match new_obfs (bytes_of psk) with
      | Ok k => negb refused && bytes_eqb k (bytes_of psk)
      | Err _ => refused
      | Panic _ => false
      end
  | CObf psk salt inp outcap n out =>
      match obfuscate Hm (bytes_of psk) salt (bytes_of inp) outcap with
      | Ok (m, o) => Nat.eqb n m && obs_ok out o
      | _ => false
      end
  | CDeobf psk inp outcap n out =>
      match deobfuscate Hm (bytes_of psk) (bytes_of inp) outcap with
      | Ok (m, o) => Nat.eqb n m && obs_ok out o
      | _ => false
      end
  | CStream psk plen items ws rs lkw lkr =>
      match run_items (bytes_of psk) items (mkL false false) with
      | None => false
      | Some (evs, wr, lk) =>
          Nat.eqb (length ws) (length wr) && forallb w_ok (combine ws wr) && lobs_eqb lkw lk &&
          match read_seq Hm (bytes_of psk) (repeat plen (S (length evs))) evs with
          | Ok res => Nat.eqb (length rs) (length res) && forallb r_ok (combine rs res) &&
                      (* every iteration of the reading wrapper releases readMutex (read_iter_lk; C13_locks_released) *)
                      lobs_eqb lkr (map (fun _ => false) res)
          | _ => false
          end
      end
  end.

Definition mismatches (l : list case) : list nat := mism_from check 0 l.
