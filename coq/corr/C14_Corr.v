(* C14 correspondence: how one observed run of the Go code is compared with the model.
   Used by the generated run/C14/cases_*.v files.  Not part of any theorem. *)
From Hy Require Import lib.Harness model.C14_Gecko.
From Coq Require Import ZArith.
Local Open Scope Z_scope.

Record mspec := mkM { m_snd : nat; m_len : N; m_a : N; m_b : N; m_first : N }.

Definition build (m : mspec) : list byte :=
  match gen_data (m_a m) (m_b m) (m_len m) with
  | [] => []
  | _ :: t => n2b (m_first m) :: t
  end.

(* observed: frames the inner (Salamander) conn accepted, their wire datagram sizes, returned n;
   the inner fault of this call: index of the inner WriteTo call that returned an error (if any), the
   frame it refused, and whether WriteTo returned an error *)
Record mobs := mkO { ob_frames : list (list byte); ob_wire : list Z; ob_n : Z;
                     ob_fail : option nat; ob_ref : list byte; ob_err : bool }.

Inductive op :=
| OFrame (d : Z) (s : N) (m i : nat)                 (* frame i (mod count) of message m from s *)
| OFrameE (d : Z) (s : N) (m i : nat)                (* frame with exactly index i (an empty datagram when there is none) *)
| OMut (d : Z) (s : N) (m i pos : nat) (v : N)        (* the same with one byte overwritten *)
| OPkt (d : Z) (s : N) (b : list byte)               (* raw inner datagram *)
| OSleep (d : Z)                                     (* clock advance; the gc loop runs *)
| OGc (d : Z) (t : Z).                               (* direct gcExpired(t0 + t) *)

Inductive dres := DOk (l : list N) | DShort | DInvalid.

(* SOURCE NAMES.  The receiver model keys its table by an abstract source name (an N).  A case carries
   names = the String() value of every row of its source-address table, byte for byte as the Go standard
   library computed it on the harness's net.Addr values (the harness reports them; nothing on the python or Coq
   side guesses what String() prints).  The operations name a source by its row; the model's name of row s is
   the FIRST row whose string equals that of row s, so two rows have the same model name exactly when their
   String() values are equal (src_name_inj in proof/C14_Names.v) - addresses that differ only in the IPv6
   zone, the port, the address family, the Go type ... are different sources as soon as String() differs, and
   an IPv4 address and its IPv4-mapped form, or a *net.UDPAddr and a custom net.Addr printing the same text,
   are ONE source.  An empty table means the harness's own addresses c14Addr(s), String() = "s" ++ decimal s
   (injective), and the name of source s is s.  A row outside the table has no name: the case is rejected. *)
Fixpoint find_name (nm : list byte) (l : list (list byte)) (i : N) : option N :=
  match l with
  | [] => None
  | h :: t => if bytes_eqb nm h then Some i else find_name nm t (N.succ i)
  end.

Definition src_name (names : list (list byte)) (s : N) : option N :=
  match names with
  | [] => Some s
  | _ => match nth_error names (N.to_nat s) with
         | Some nm => find_name nm names 0%N
         | None => None
         end
  end.

Inductive case :=
| CSeq (omin omax : Z) (rbuf : nat) (ctr0 : list N) (names : list (list byte)) (msgs : list (mspec * mobs))
       (ops : list op) (choices : list (N * key)) (hexp : Z) (final : list (list Z))
| CDec (b : list byte) (r : dres)
| CCfg (omin omax : Z) (r : option (Z * Z)).

Definition Z_list_eqb (a b : list Z) : bool :=
  Nat.eqb (length a) (length b) && forallb (fun p => fst p =? snd p) (combine a b).

Definition frames_eqb (a b : list (list byte)) : bool :=
  Nat.eqb (length a) (length b) && forallb (fun p => bytes_eqb (fst p) (snd p)) (combine a b).

(* the random draws that explain an observed frame list (if any do) *)
Definition oracle_of (c : cfg) (fs : list (list byte)) (nchunks : N) : oracle :=
  let padof := fun f : list byte => be_dec [nth 3 f x00; nth 4 f x00] in
  mkOracle (nchunks - 2)
    (fun i => let f := nth i fs [] in
              let P := Z.of_N (padof f) in
              let L := zlen f - geckoHeaderSize - P in
              let base := smSaltLen + geckoHeaderSize + L in
              let lo := Z.max (c_min c) base in
              Z.to_N (P - (lo - base)))
    (fun i => let f := nth i fs [] in firstn (N.to_nat (padof f)) (skipn 5 f)).

Fixpoint upd_nth {A} (i : nat) (x : A) (l : list A) : list A :=
  match l, i with
  | [], _ => []
  | _ :: t, O => x :: t
  | h :: t, S j => h :: upd_nth j x t
  end.

(* sender: every message written through the model with the draws read off the observation *)
Fixpoint check_msgs (c : cfg) (ctrs : list N) (ms : list (mspec * mobs)) : bool :=
  match ms with
  | [] => true
  | (m, o) :: t =>
      let ctr := nth (m_snd m) ctrs 0%N in
      let p := build m in
      (* frames handed to the inner conn = accepted ones ++ the refused one; the chunk count of a call
         that was cut short is read off the header of its first frame *)
      let att := match ob_fail o with Some _ => ob_frames o ++ [ob_ref o] | None => ob_frames o end in
      let nch := match ob_fail o with
                 | Some _ => N.land (b2n (nth 2 (nth 0 att []) x00)) 15
                 | None => N.of_nat (length att)
                 end in
      match write_to_f c ctr p (oracle_of c att nch) (ob_fail o) with
      | Ok r =>
          frames_eqb (w_wire r) (ob_frames o) &&
          match w_res r with
          | WDone n => negb (ob_err o) && (n =? ob_n o)
          | WFail => ob_err o && (ob_n o =? 0)
          end &&
          match w_refused r, ob_fail o with
          | Some f, Some _ => bytes_eqb f (ob_ref o)
          | None, None => true
          | _, _ => false
          end &&
          Z_list_eqb (map (fun f => smSaltLen + zlen f) (w_wire r)) (ob_wire o) &&
          (* without a fault the fault-aware function is write_to *)
          match ob_fail o, write_to c ctr p (oracle_of c att nch) with
          | None, Ok (fs, ctr', n) => frames_eqb fs (w_wire r) && (ctr' =? w_ctr r)%N
          | None, _ => false
          | Some _, _ => true
          end &&
          check_msgs c (upd_nth (m_snd m) (w_ctr r) ctrs) t
      | _ => false
      end
  end.

Definition op_delay (o : op) : Z :=
  match o with OFrame d _ _ _ | OFrameE d _ _ _ | OMut d _ _ _ _ _ | OPkt d _ _ | OSleep d | OGc d _ => d end.

Definition frame_of (frames : list (list (list byte))) (m i : nat) : list byte :=
  let fs := nth m frames [] in
  match fs with [] => [] | _ => nth (i mod length fs) fs [] end.

Definition bitmap (l : list (option (list byte))) : Z :=
  fst (fold_left (fun acc o => (fst acc + (match o with Some _ => snd acc | None => 0 end), 2 * snd acc)) l (0, 1)).

Definition row_of_entry (k : key) (e : entry) : list Z :=
  [Z.of_N (fst k); Z.of_N (snd k); Z.of_N (e_total e); e_received e; e_deadline e; bitmap (e_chunks e)].

Definition check_final (st : rstate) (final : list (list Z)) : bool :=
  Nat.eqb (length final) (length (tbl st)) &&
  forallb (fun r => match tget (Z.to_N (nth 0 r 0), Z.to_N (nth 1 r 0)) st with
                    | Some e => Z_list_eqb r (row_of_entry (Z.to_N (nth 0 r 0), Z.to_N (nth 1 r 0)) e)
                    | None => false
                    end) final.

Definition obs_row (out : option (list byte)) (st : rstate) (s : option N) : list Z :=
  [match out with Some b => zlen b + 1 | None => 0 end;
   match out with Some b => Z.of_N (digest b) | None => 0 end;
   zlen (tbl st); zlen (per st);
   match s with Some x => pget x st | None => 0 end].

(* running digest of the observation rows (same function in vlib/props/C14.py) *)
Definition hrow (h : Z) (row : list Z) : Z :=
  fold_left (fun h v => (h * 131 + v + 1) mod 4294967291) row h.

(* choices: (step index, evicted key) recorded on the Go side, sorted by step.  The step index is an N
   (a nat literal in the thousands costs thousands of constructors to elaborate, per choice). *)
Definition ch (i s m : N) : N * key := (i, (s, m)).

Fixpoint run_ops (names : list (list byte)) (rbuf : nat) (frames : list (list (list byte))) (st : rstate) (now : Z) (i : N)
         (h : Z) (ops : list op) (choices : list (N * key)) (hexp : Z) (final : list (list Z)) {struct ops} : bool :=
  match ops with
  | [] => check_final st final && (h =? hexp)
  | o :: t =>
      let now1 := now + op_delay o in
      let st1 := fold_left (fun s tk => gc_expired tk s) (ticks_between now now1) st in
      let '(choice, rest) := match choices with
                             | (j, k) :: r => if N.eqb j i then (k, r) else ((0%N, 0%N), choices)
                             | [] => ((0%N, 0%N), [])
                             end in
      let pkt := fun (row : N) (dg : list byte) =>
        match src_name names row with
        | None => false
        | Some s =>
            let r := on_packet rbuf now1 choice s dg st1 in
            run_ops names rbuf frames (fst r) now1 (N.succ i) (hrow h (obs_row (snd r) (fst r) (Some s))) t rest hexp final
        end in
      match o with
      | OSleep _ => run_ops names rbuf frames st1 now1 (N.succ i) (hrow h (obs_row None st1 None)) t rest hexp final
      | OGc _ tk => let st2 := gc_expired tk st1 in
                    run_ops names rbuf frames st2 now1 (N.succ i) (hrow h (obs_row None st2 None)) t rest hexp final
      | OFrame _ s m i' => pkt s (frame_of frames m i')
      | OFrameE _ s m i' => pkt s (nth i' (nth m frames []) [])
      | OMut _ s m i' pos v =>
          let f := frame_of frames m i' in
          pkt s (match f with [] => [] | _ => upd_nth (pos mod length f) (n2b v) f end)
      | OPkt _ s b => pkt s b
      end
  end.

Definition dres_of (r : Res (hdr * list byte)) : dres :=
  match r with
  | Ok (h, pl) => DOk [h_pad h; h_mid h; h_idx h; h_tot h; N.of_nat (length pl); digest pl]
  | Err EShort => DShort
  | _ => DInvalid
  end.

Definition dres_eqb (a b : dres) : bool :=
  match a, b with
  | DOk x, DOk y => N_list_eqb x y
  | DShort, DShort | DInvalid, DInvalid => true
  | _, _ => false
  end.

Definition check (c : case) : bool :=
  match c with
  | CSeq omin omax rbuf ctr0 names msgs ops choices hexp final =>
      match wrap_cfg omin omax with
      | None => false
      | Some cf =>
          check_msgs cf ctr0 msgs &&
          run_ops names rbuf (map (fun mo => ob_frames (snd mo)) msgs) r_init 0 0%N 0 ops choices hexp final
      end
  | CDec b r => dres_eqb r (dres_of (decode_frame b)) && negb (is_panic (decode_frame b))
  | CCfg omin omax r =>
      match wrap_cfg omin omax, r with
      | None, None => true
      | Some cf, Some (a, b) => (c_min cf =? a) && (c_max cf =? b)
      | _, _ => false
      end
  end.

Definition mismatches (l : list case) : list nat := mism_from check 0 l.
