(* C15 correspondence: how recorded behaviour of the real trafficStatsServerImpl is compared
   with the model.  Used by the generated run/C15/cases_*.v files; not part of any theorem.

   CSeq : one goroutine; every call's observed result must equal the model's, call by call.
   CLin : several goroutines; the recorded history (call/return stamps from one atomic counter)
          must be linearizable with respect to the model as an atomic object (lib/Lin.v).
   CWorld : end-to-end run (real hysteria server + real clients over loopback, the stats server
          as its TrafficLogger, every LogTraffic / LogOnlineState call recorded at the logger
          boundary): the server events in the order they were observed, each with the recorded
          answer, and "is this connection still usable" probes; the world model of
          model/C15_Sites.v must give the same answers, event by event.  Histories in which a
          connection is closed (or its request cancelled) while its auth is pending are replayed in the
          auth handler's atomic steps (EAuthBegin / EClientClose / EAuthDecide / EAnnounce /
          EHandlerReturn), each with the notifications recorded for it (WN). *)
From Hy Require Import lib.Harness lib.Lin model.C15_Stats model.C15_Sites.
From Hy Require gen.ParamsC01.
From Hy Require Import model.C15_FromC01 model.C15_Pending model.C15_Copy.
From Coq Require Import ZArith String.
Local Open Scope N_scope.

Fixpoint stats_eqb (a b : list (id * (N * N))) : bool :=
  match a, b with
  | [], [] => true
  | (i, (t, r)) :: x, (j, (u, v)) :: y => (i =? j) && (t =? u) && (r =? v) && stats_eqb x y
  | _, _ => false
  end.

Fixpoint online_eqb (a b : list (id * Z)) : bool :=
  match a, b with
  | [], [] => true
  | (i, c) :: x, (j, d) :: y => (i =? j) && (c =? d)%Z && online_eqb x y
  | _, _ => false
  end.

Definition hbody_eqb (a b : hbody) : bool :=
  match a, b with
  | BError, BError | BIndex, BIndex | BEmpty, BEmpty | BStreams, BStreams => true
  | BStats x, BStats y => stats_eqb x y
  | BOnline x, BOnline y => online_eqb x y
  | _, _ => false
  end.

Definition cres_eqb (a b : cres) : bool :=
  match a, b with
  | XBool x, XBool y => Bool.eqb x y
  | XUnit, XUnit => true
  | XHttp s x, XHttp t y => (s =? t) && hbody_eqb x y
  | _, _ => false
  end.

Definition c15_spec (secret : string) : spec :=
  mkSpec state call cres init_state (call_step secret) cres_eqb.

(* one observation of an end-to-end run *)
Inductive wobs :=
| WE (e : wevent) (r : wresp)      (* a server event and what was observed as its answer *)
| WAlive (slot : nat) (b : bool)   (* did a proxy attempt on that connection succeed? *)
| WN (e : wevent) (ns : list (id * bool))
| WReq (slot : nat) (k : N)        (* k proxy requests of that connection went into an outbound dial that does not return *)
| WRel (slot : nat)                (* the pending dials of that connection failed: its request goroutines returned *)
| WR (fn : string) (slot : nat) (tx rx : N) (acc : bool).
                                   (* a LogTraffic(id, tx, rx) call recorded at the logger boundary, made from function fn of
                                      core/server (read off the call stack) on behalf of that connection, and its answer.  fn must
                                      be a report site of the model (site_of_caller) with these arguments - otherwise the run shows
                                      a REPORT SITE THAT IS NOT IN THE MODEL and the check fails *)
                                   (* a server event that was enabled, and the LogOnlineState calls the
                                      logger boundary recorded for that connection at that point (auth
                                      handler steps and handleClient's continuation of a connection that
                                      was closed / cancelled while its auth was pending) *)

Fixpoint notes_eqb (a b : list (id * bool)) : bool :=
  match a, b with
  | [], [] => true
  | (i, x) :: s, (j, y) :: t => (i =? j) && Bool.eqb x y && notes_eqb s t
  | _, _ => false
  end.

Definition wresp_eqb (a b : wresp) : bool :=
  match a, b with
  | WNone, WNone | WUnit, WUnit => true
  | WBool x, WBool y => Bool.eqb x y
  | WHttp s x, WHttp t y => (s =? t) && hbody_eqb x y
  | _, _ => false
  end.

Fixpoint world_check (secret : string) (w : world) (l : list wobs) : bool :=
  match l with
  | [] => true
  | WE e obs :: t =>
      let (w', r) := wstep secret w e in
      wresp_eqb r obs && world_check secret w' t
  | WAlive slot b :: t => Bool.eqb (is_open slot w) b && world_check secret w t
  | WN e ns :: t =>
      let (w', r) := wstep secret w e in
      wresp_eqb r WUnit && notes_eqb (map snd (wnote w e)) ns && world_check secret w' t
  | WReq _ _ :: t | WRel _ :: t => world_check secret w t
  | WR fn slot tx rx acc :: t =>
      match site_of_caller fn tx rx with
      | Some st =>
          let (w', r) := wstep secret w (EReport slot st (tx + rx) false) in
          (site_tx st (tx + rx) =? tx) && (site_rx st (tx + rx) =? rx) &&
          wresp_eqb r (WBool acc) && world_check secret w' t
      | None => false
      end
  end.

(* the callers seen in a run that the model does not know *)
Fixpoint unmodelled_callers (l : list wobs) : list string :=
  match l with
  | [] => []
  | WR fn _ tx rx _ :: t =>
      match site_of_caller fn tx rx with Some _ => unmodelled_callers t | None => fn :: unmodelled_callers t end
  | _ :: t => unmodelled_callers t
  end.

(* the same observations against model/C15_Pending.v (the code: handleClient does not wait): the requests went into
   their dials on an open connection, and every later event - in particular the connection's offline notification
   while its requests are still pending - is answered as observed *)
Fixpoint pworld_check (secret : string) (p : pworld) (l : list wobs) : bool :=
  match l with
  | [] => true
  | WE e obs :: t =>
      let (p', r) := pstep false secret p (PW e) in
      wresp_eqb r obs && pworld_check secret p' t
  | WAlive slot b :: t => Bool.eqb (is_open slot (pw p)) b && pworld_check secret p t
  | WN e ns :: t =>
      let (p', r) := pstep false secret p (PW e) in
      wresp_eqb r WUnit && pworld_check secret p' t
  | WReq slot k :: t =>
      let (p', r) := pstep false secret p (PReqBegin slot k) in
      wresp_eqb r WUnit && pworld_check secret p' t
  | WRel slot :: t =>
      let (p', r) := pstep false secret p (PReqEnd slot (pend_at slot (pend p))) in
      wresp_eqb r WUnit && pworld_check secret p' t
  | WR fn slot tx rx acc :: t =>
      match site_of_caller fn tx rx with
      | Some st =>
          let (p', r) := pstep false secret p (PW (EReport slot st (tx + rx) false)) in
          wresp_eqb r (WBool acc) && pworld_check secret p' t
      | None => false
      end
  end.

Definition has_req (l : list wobs) : bool :=
  existsb (fun o => match o with WReq _ _ => true | _ => false end) l.

(* ---------- the same end-to-end runs against the COMPOSITION of C01's server model with this object ----------
   (model/C15_FromC01.v; A = model/C01_ServerAuth.v, S = model/C15_Stats.v.)  The recorded server events are read as
   actions of C01's labelled transition system - connection number = slot, user number i = the one-byte id string [i]:
     EAuth i            POST /auth enters ServeHTTP on a new connection, the Authenticator accepts it as user i
     EAuthBegin i       POST /auth enters ServeHTTP on a new connection (Authenticate pending)
     EAuthDecide k no   the Authenticator rejects                  (an accepting answer only stores the flag: the
     EAnnounce k        ... accepts; ServeHTTP runs to its end      model's accepting verdict is placed at the announcement)
     EAuthAgain k _     a further POST /auth on connection k
     EHandlerReturn k   handleClient's tail
   (client-side closes, traffic reports and API requests are not actions of that model).  The sequence must be a run of
   C01's model, and at every recorded GET /online the listing must be the one the stats object shows after exactly the
   LogOnlineState calls that run has emitted so far (listing_after) - the function C15_online_listing_after_C01_run is about. *)
Definition c01_cfg : A.config := A.mkCfg true false 0 0.
Definition c01_masq : A.request -> A.response := fun _ => A.mkResp 404 [] [].
Definition c01_areq : A.request :=
  A.mkReq ParamsC01.method_post ParamsC01.url_host ParamsC01.url_path [] [] 0.
Definition c01_sid (i : id) : A.str := [A.n2b i].
Definition c01_enc (s : A.str) : id := match s with [b] => A.b2n b | _ => 0 end.

Definition c01_actions (ids : list id) (e : wevent) : list A.action * list id :=
  let k := N.of_nat (List.length ids) in
  match e with
  | EAuth i => ([A.HttpReq k c01_areq []; A.AuthVerdict k true (c01_sid i) []], ids ++ [i])
  | EAuthBegin i => ([A.HttpReq k c01_areq []], ids ++ [i])
  | EAuthDecide slot ok => (if ok then [] else [A.AuthVerdict (N.of_nat slot) false [] []], ids)
  | EAnnounce slot => ([A.AuthVerdict (N.of_nat slot) true (c01_sid (nth slot ids 0)) []], ids)
  | EAuthAgain slot _ => ([A.HttpReq (N.of_nat slot) c01_areq []], ids)
  | EHandlerReturn slot => ([A.ConnClosed (N.of_nat slot)], ids)
  | _ => ([], ids)
  end.

Fixpoint c01_world_check (st : A.state) (tr : list A.ev) (ids : list id) (l : list wobs) : bool :=
  let go e t :=
    let (acts, ids') := c01_actions ids e in
    match A.run c01_cfg c01_masq st acts with
    | Some (st', tr') => c01_world_check st' (tr ++ tr') ids' t
    | None => false
    end in
  match l with
  | [] => true
  | WE (EHttp _) (WHttp _ (BOnline m)) :: t =>
      online_eqb (listing_after c01_enc tr) m && c01_world_check st tr ids t
  | WE _ WNone :: t => c01_world_check st tr ids t
  | WE e _ :: t => go e t
  | WN e _ :: t => go e t
  | WAlive _ _ :: t | WReq _ _ :: t | WRel _ :: t | WR _ _ _ _ _ :: t => c01_world_check st tr ids t
  end.

(* ---------- the real copyBufferLog / copyTwoWayEx on scripted Reads (harness/go/c15/c15_copy_test.go, run inside
   core/server): the result class and the observed sequence of log / Write calls must be those of copy_loop ---------- *)
Definition cpres_eqb (a b : cpres) : bool :=
  match a, b with
  | CNil, CNil | CDisconnect, CDisconnect | CWriteErr, CWriteErr | CReadErr, CReadErr | CBlocked, CBlocked => true
  | _, _ => false
  end.

Fixpoint cacts_eqb (a b : list cact) : bool :=
  match a, b with
  | [], [] => true
  | ALog n x :: s, ALog m y :: t => (n =? m) && Bool.eqb x y && cacts_eqb s t
  | AWrite n x :: s, AWrite m y :: t => (n =? m) && Bool.eqb x y && cacts_eqb s t
  | _, _ => false
  end.

Definition copy_check (l : list rdstep) (res : cpres) (acts : list cact) (closed : bool) : bool :=
  let (r, tr) := copy_loop l in
  cpres_eqb r res && cacts_eqb tr acts &&
  (* what handleTCPRequest would do with that result (two-way runs: the other direction is blocked) *)
  Bool.eqb (match tcp_relay_action l false with CloseConn => true | Forward => false end) closed.

Inductive case :=
| CSeq (secret : string) (l : list (call * cres))
| CLin (secret : string) (h : list (event call cres))
| CWorld (secret : string) (l : list wobs)
| CCopy (l : list rdstep) (res : cpres) (acts : list cact) (closed : bool).

Fixpoint seq_check (secret : string) (s : state) (l : list (call * cres)) : bool :=
  match l with
  | [] => true
  | (c, obs) :: t =>
      let (s', r) := call_step secret s c in
      cres_eqb r obs && seq_check secret s' t
  end.

Definition check (c : case) : bool :=
  match c with
  | CSeq secret l => seq_check secret init_state l
  | CLin secret h => lin_check (c15_spec secret) h
  | CWorld secret l => world_check secret init_world l && c01_world_check A.init [] [] l &&
                       (if has_req l then pworld_check secret init_pworld l else true)
  | CCopy l res acts closed => copy_check l res acts closed
  end.

Definition mismatches (l : list case) : list nat := mism_from check 0 l.

(* short constructors for the generated files *)
Definition ev (c : call) (r : cres) (a b : N) : event call cres := mkEv c r a b.
Definition rq (auth method path clear : string) (body : option (list id)) : call :=
  CHttp (mkReq auth method path clear body).
Definition wrq (auth method path clear : string) (body : option (list id)) : wevent :=
  EHttp (mkReq auth method path clear body).
