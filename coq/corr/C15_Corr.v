(* C15 correspondence: how recorded behaviour of the real trafficStatsServerImpl is compared
   with the model.  Used by the generated run/C15/cases_*.v files; not part of any theorem.

   CSeq : one goroutine; every call's observed result must equal the model's, call by call.
   CLin : several goroutines; the recorded history (call/return stamps from one atomic counter)
          must be linearizable with respect to the model as an atomic object (lib/Lin.v).
   CWorld : end-to-end run (real hysteria server + real clients over loopback, the stats server
          as its TrafficLogger, every LogTraffic / LogOnlineState call recorded at the logger
          boundary): the server events in the order they were observed, each with the recorded
          answer, and "is this connection still usable" probes; the world model of
          model/C15_Sites.v must give the same answers, event by event.  Histories in which a
          connection is closed (or its request cancelled) while its auth is pending are replayed in the
          auth handler's atomic steps (EAuthBegin / EClientClose / EAuthDecide / EAnnounce /
          EHandlerReturn), each with the notifications recorded for it (WN). *)
From Hy Require Import lib.Harness lib.Lin model.C15_Stats model.C15_Sites.
From Coq Require Import ZArith String.
Local Open Scope N_scope.

Fixpoint stats_eqb (a b : list (id * (N * N))) : bool :=
  match a, b with
  | [], [] => true
  | (i, (t, r)) :: x, (j, (u, v)) :: y => (i =? j) && (t =? u) && (r =? v) && stats_eqb x y
  | _, _ => false
  end.

Fixpoint online_eqb (a b : list (id * Z)) : bool :=
  match a, b with
  | [], [] => true
  | (i, c) :: x, (j, d) :: y => (i =? j) && (c =? d)%Z && online_eqb x y
  | _, _ => false
  end.

Definition hbody_eqb (a b : hbody) : bool :=
  match a, b with
  | BError, BError | BIndex, BIndex | BEmpty, BEmpty | BStreams, BStreams => true
  | BStats x, BStats y => stats_eqb x y
  | BOnline x, BOnline y => online_eqb x y
  | _, _ => false
  end.

Definition cres_eqb (a b : cres) : bool :=
  match a, b with
  | XBool x, XBool y => Bool.eqb x y
  | XUnit, XUnit => true
  | XHttp s x, XHttp t y => (s =? t) && hbody_eqb x y
  | _, _ => false
  end.

Definition c15_spec (secret : string) : spec :=
  mkSpec state call cres init_state (call_step secret) cres_eqb.

(* one observation of an end-to-end run *)
Inductive wobs :=
| WE (e : wevent) (r : wresp)      (* a server event and what was observed as its answer *)
| WAlive (slot : nat) (b : bool)   (* did a proxy attempt on that connection succeed? *)
| WN (e : wevent) (ns : list (id * bool)).
                                   (* a server event that was enabled, and the LogOnlineState calls the
                                      logger boundary recorded for that connection at that point (auth
                                      handler steps and handleClient's continuation of a connection that
                                      was closed / cancelled while its auth was pending) *)

Fixpoint notes_eqb (a b : list (id * bool)) : bool :=
  match a, b with
  | [], [] => true
  | (i, x) :: s, (j, y) :: t => (i =? j) && Bool.eqb x y && notes_eqb s t
  | _, _ => false
  end.

Definition wresp_eqb (a b : wresp) : bool :=
  match a, b with
  | WNone, WNone | WUnit, WUnit => true
  | WBool x, WBool y => Bool.eqb x y
  | WHttp s x, WHttp t y => (s =? t) && hbody_eqb x y
  | _, _ => false
  end.

Fixpoint world_check (secret : string) (w : world) (l : list wobs) : bool :=
  match l with
  | [] => true
  | WE e obs :: t =>
      let (w', r) := wstep secret w e in
      wresp_eqb r obs && world_check secret w' t
  | WAlive slot b :: t => Bool.eqb (is_open slot w) b && world_check secret w t
  | WN e ns :: t =>
      let (w', r) := wstep secret w e in
      wresp_eqb r WUnit && notes_eqb (map snd (wnote w e)) ns && world_check secret w' t
  end.

Inductive case :=
| CSeq (secret : string) (l : list (call * cres))
| CLin (secret : string) (h : list (event call cres))
| CWorld (secret : string) (l : list wobs).

Fixpoint seq_check (secret : string) (s : state) (l : list (call * cres)) : bool :=
  match l with
  | [] => true
  | (c, obs) :: t =>
      let (s', r) := call_step secret s c in
      cres_eqb r obs && seq_check secret s' t
  end.

Definition check (c : case) : bool :=
  match c with
  | CSeq secret l => seq_check secret init_state l
  | CLin secret h => lin_check (c15_spec secret) h
  | CWorld secret l => world_check secret init_world l
  end.

Definition mismatches (l : list case) : list nat := mism_from check 0 l.

(* short constructors for the generated files *)
Definition ev (c : call) (r : cres) (a b : N) : event call cres := mkEv c r a b.
Definition rq (auth method path clear : string) (body : option (list id)) : call :=
  CHttp (mkReq auth method path clear body).
Definition wrq (auth method path clear : string) (body : option (list id)) : wevent :=
  EHttp (mkReq auth method path clear body).
