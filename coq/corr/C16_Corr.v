(* C16 correspondence: the boundary log recorded by the Go harness (real reconnectable client, real
   server) is replayed against the LTS of model/C16_Reconnect.v.  Sections that emit boundary
   events (configFunc / factory.New / PacketConn.Close / connectedFunc), call starts and returns,
   kills and Close are observed; the sections that emit nothing (Enter on an existing client, Do,
   Leave that closes nothing) are hidden and searched for: the acceptor keeps the set of all model
   states compatible with the log so far.  Soundness of [accepts] for the LTS is proved in
   proof/C16_Accept.v (props/C16.v, the C16_accepted theorems); completeness is tested there on all bounded runs. *)
From Coq Require Import List Arith Bool.
Import ListNotations.
From Hy Require Import gen.ParamsC16 model.C16_Reconnect model.C16_Loss lib.Harness.

Inductive obs :=
| OInit (lz : bool) (evs : list ev) (ok : bool)
| OStart (g : nat) (t : retc) | OSec (g : nat) (evs : list ev) | OReq (g : nat) | ORet (g : nat) (t : retc)
| OKill (c : nat) | OCloseBegin | OCloseSec (evs : list ev) | OCloseEnd | OQuiet (opens : list nat).

(* The log as recorded: every boundary event of a locked section (configFunc / factory.New /
   PacketConn.Close / connectedFunc) on its own, tagged with the goroutine that emitted it
   ([close_actor] = not a calling goroutine: the caller of rc.Close()), interleaved with the other
   observations in log order.  Cutting it into locked sections is done here ([group]), not by the
   driver, because the cut is where the mutex discipline of reconnect.go is checked: the model runs
   Enter (incl. the whole reconnect()) under rc.m as ONE action. *)
Inductive robs := RO (o : obs) | RE (who : nat) (e : ev).

(* [CPanic l]: a call of the history (TCP / UDP / Close / the constructor) did not come back with a
   value: it panicked (recovered by the harness) or took the process down; [l] is the raw log up to
   there.  Every call of the LTS ends in a [Ret] with one of the six return classes and [Close]
   always returns, so such a history matches no run of the model whatever its log: it is a
   disagreement by construction ([panicked_history_never_matches] below). *)
(* [CRawK l ks]: a raw log together with the error VALUES the harness really saw in that history, each as
   (site, kind id, wrapped as ClosedError?): site 0 = the value went through wrapIfConnectionClosed (it came
   back from TCP() / UDP(), or it is the close reason quic-go gave for a connection the harness killed,
   probed on the spot), site 1 = it ended a connection attempt (inside ConnectError).  kind id = position in
   model/C16_Loss.v [all_kinds]; a value of none of the kinds has no id ([kobs_ok] below is false for it: the
   enum the theorems are stated over does not cover what quic-go returns). *)
Inductive case :=
| CHist (l : list obs)
| CRaw (l : list robs)
| CClass
| CPanic (l : list robs)
| CRawK (l : list robs) (ks : list (nat * nat * bool)).

(* ---- decidable equalities *)
Definition res_eqb (a b : res) : bool :=
  match a, b with ROk, ROk | RRecov, RRecov | RClosed, RClosed => true | _, _ => false end.
Definition retc_eqb (a b : retc) : bool :=
  match a, b with
  | TOk, TOk | TRecov, TRecov | TClosed, TClosed | TCfgErr, TCfgErr | TNewErr, TNewErr | THsErr, THsErr => true
  | _, _ => false
  end.
Definition pc_eqb (a b : pc) : bool :=
  match a, b with
  | PIdle, PIdle | PStarted, PStarted => true
  | PEntered c, PEntered d => Nat.eqb c d
  | PDone c r, PDone d q => Nat.eqb c d && res_eqb r q
  | PRet t, PRet u => retc_eqb t u
  | _, _ => false
  end.
Definition ev_eqb (a b : ev) : bool :=
  match a, b with
  | ECfg x, ECfg y => Bool.eqb x y
  | ENew x, ENew y | ESockClose x, ESockClose y | EConnected x, EConnected y | EKill x, EKill y => Nat.eqb x y
  | ENewErr, ENewErr => true
  | ERet g t, ERet h u => Nat.eqb g h && retc_eqb t u
  | _, _ => false
  end.
Definition sock_eqb (a b : sock) : bool :=
  Bool.eqb (s_open a) (s_open b) && Nat.eqb (s_closes a) (s_closes b) &&
  Bool.eqb (s_client a) (s_client b) && Bool.eqb (s_dead a) (s_dead b).
Fixpoint list_eqb {A} (e : A -> A -> bool) (a b : list A) : bool :=
  match a, b with
  | [], [] => true
  | x :: s, y :: t => e x y && list_eqb e s t
  | _, _ => false
  end.
Definition onat_eqb (a b : option nat) : bool :=
  match a, b with Some x, Some y => Nat.eqb x y | None, None => true | _, _ => false end.
Definition st_eqb (a b : st) : bool :=
  onat_eqb (cur a) (cur b) && Nat.eqb (count a) (count b) && Bool.eqb (closed a) (closed b) &&
  list_eqb sock_eqb (socks a) (socks b) && list_eqb pc_eqb (pcs a) (pcs b) &&
  Nat.eqb (ncfg a) (ncfg b) && Nat.eqb (nnew a) (nnew b) && Nat.eqb (nclose a) (nclose b).

(* Search state: model state, "rc.Close() has begun and its locked section has not been placed yet",
   and for every goroutine what its call in flight will eventually return (a pruning hint taken
   from the log; the return itself is still checked at ORet).

   The hidden sections are searched in a normal form (soundness: proof/C16_Accept.v accepts_sound;
   completeness: argued below, tested by acceptor_complete_bounded):
   - a hidden Enter only reads rc.closed / rc.client and writes the pc, so only its position between
     two observed changes of the shared state matters: it is explored in the closure;
   - liveness of a client only decreases, so a Do that needs a live client (WOk, WStreamLimit) is
     placed right after its Enter, and one that does not (WDial, WDead) right before the Leave;
   - a Leave that closes nothing only writes the pc and, once enabled, stays enabled (a dropped
     client never becomes current again), so it is placed right before the Ret. *)
Definition astate := (st * bool * list retc)%type.
Definition a_st (a : astate) : st := fst (fst a).
Definition astate_eqb (a b : astate) : bool :=
  st_eqb (a_st a) (a_st b) && Bool.eqb (snd (fst a)) (snd (fst b)).

Fixpoint mem (a : astate) (l : list astate) : bool :=
  match l with [] => false | h :: t => astate_eqb a h || mem a t end.
(* elements of [new] that are neither in [acc] nor earlier in [new] *)
Fixpoint fresh_of (new acc fr : list astate) : list astate :=
  match new with
  | [] => fr
  | h :: t => if mem h acc || mem h fr then fresh_of t acc fr else fresh_of t acc (fr ++ [h])
  end.

Definition NG : nat := 4.
Definition gs : list nat := seq 0 NG.
Definition faults : list fault := [FOk; FCfgErr; FNewErr; FHsErr].

Definition hint (hs : list retc) (g : nat) : retc := nth g hs TOk.
Fixpoint set_hint (hs : list retc) (g : nat) (t : retc) : list retc :=
  match g, hs with
  | O, [] => [t]
  | O, _ :: r => t :: r
  | S k, [] => TOk :: set_hint [] k t
  | S k, h :: r => h :: set_hint r k t
  end.

Definition silent (s : st) (a : action) : list st :=
  match step true s a with Some (s1, []) => [s1] | _ => [] end.

(* after the first locked section of g: branch on where its Do is placed *)
Definition post_enter (t : retc) (g : nat) (s1 : st) : list st :=
  match get_pc s1 g with
  | PRet u => if retc_eqb u t then [s1] else []
  | PEntered _ =>
      (match t with TRecov | TClosed => [s1] | _ => [] end)
      ++ flat_map (fun w => if retc_eqb (ret_of (classify w)) t then silent s1 (Do g w) else [])
                  [WOk; WStreamLimit]
  | _ => []
  end.

Definition hidden_succ (a : astate) : list astate :=
  let '(s, cl, hs) := a in
  flat_map (fun g => match get_pc s g with
                     | PStarted => map (fun x => (x, cl, hs))
                                       (flat_map (post_enter (hint hs g) g) (silent s (Enter g FOk)))
                     | _ => []
                     end) gs
  ++ (if cl then map (fun x => (x, false, hs)) (silent s Close) else []).

Fixpoint closure (n : nat) (front acc : list astate) : list astate :=
  match n with
  | O => acc
  | S k => match fresh_of (flat_map hidden_succ front) acc [] with
           | [] => acc
           | fr => closure k fr (acc ++ fr)
           end
  end.

(* bring g to the point where its Do is done (late Do for the results that need no live client) *)
Definition to_done (g : nat) (s : st) : list st :=
  match get_pc s g with
  | PDone _ _ => [s]
  | PEntered _ => silent s (Do g WDial) ++ silent s (Do g WDead)
  | _ => []
  end.

(* bring g to its return *)
Definition to_ret (g : nat) (s : st) : list st :=
  match get_pc s g with
  | PRet _ => [s]
  | _ => flat_map (fun x => silent x (Leave g)) (to_done g s)
  end.

Definition with_evs (s : st) (a : action) (evs : list ev) : list st :=
  match evs with
  | [] => []
  | _ => match step true s a with
         | Some (s1, e1) => if list_eqb ev_eqb e1 evs then [s1] else []
         | None => []
         end
  end.

Definition apply_obs (o : obs) (a : astate) : list astate :=
  let '(s, cl, hs) := a in
  let keep := map (fun x => (x, cl, hs)) in
  match o with
  | OInit _ _ _ => []
  | OStart g t => map (fun x => (x, cl, set_hint hs g t)) (silent s (Start g))
  | OSec g evs =>
      keep (flat_map (fun f => flat_map (post_enter (hint hs g) g) (with_evs s (Enter g f) evs)) faults
            ++ flat_map (fun x => with_evs x (Leave g) evs) (to_done g s))
  (* the server saw the request of g: logged on a goroutine of the server, so it can trail the second
     locked section of a call whose connection was closed under it (Close racing with a request in
     flight: the call is on its way out with ClosedError); never before the first section *)
  | OReq g => match get_pc s g with PEntered _ | PDone _ _ | PRet TClosed => [a] | _ => [] end
  | ORet g t =>
      keep (flat_map (fun x => match step true x (Ret g) with
                               | Some (s1, [ERet h u]) => if Nat.eqb g h && retc_eqb t u then [s1] else []
                               | _ => []
                               end) (to_ret g s))
  | OKill c => match step true s (Kill c) with Some (s1, _) => [(s1, cl, hs)] | None => [] end
  | OCloseBegin => if cl then [] else [(s, true, hs)]
  | OCloseSec evs => if cl then map (fun x => (x, false, hs)) (with_evs s Close evs) else []
  | OCloseEnd => if cl then [] else [a]
  | OQuiet opens => if quiescent s && list_eqb Nat.eqb (open_sids s) opens then [a] else []
  end.

Definition depth : nat := NG + 2.

Definition feed (S0 : list astate) (o : obs) : list astate :=
  fresh_of (flat_map (apply_obs o) (closure depth S0 S0)) [] [].

Definition all_closed (s : st) : bool := forallb (fun k => negb (s_open k)) (socks s).

Definition accepts (l : list obs) : bool :=
  match l with
  | OInit true [] true :: rest =>
      match fold_left feed rest [(init0, false, [])] with [] => false | _ => true end
  | OInit false evs ok :: rest =>
      existsb (fun f =>
        let '(s, e1, err) := reconnect init0 f in
        list_eqb ev_eqb e1 evs &&
        match err, ok with
        | None, true => match fold_left feed rest [(s, false, [])] with [] => false | _ => true end
        | Some _, false => all_closed s && match rest with [] => true | _ => false end
        | _, _ => false
        end) faults
  | _ => false
  end.

(* ---- cutting the raw log into locked sections *)
Definition close_actor : nat := 99.

(* event grammar of a section that is more than one event long: the reconnect() inside Enter,
   cfg(ok) (newerr | new s (sockclose s | connected n)) *)
Definition sec_continues (evs : list ev) (e : ev) : bool :=
  match evs, e with
  | [ECfg true], ENew _ | [ECfg true], ENewErr => true
  | [ECfg true; ENew s], ESockClose c => Nat.eqb s c
  | [ECfg true; ENew _], EConnected _ => true
  | _, _ => false
  end.
(* ... and the prefixes of it that are not a whole section yet: the lock is still held *)
Definition sec_unfinished (evs : list ev) : bool :=
  match evs with
  | [ECfg true] | [ECfg true; ENew _] => true
  | _ => false
  end.

Definition mk_sec (w : nat) (evs : list ev) : obs :=
  if Nat.eqb w close_actor then OCloseSec evs else OSec w evs.

(* What cannot be observed while goroutine [w] is inside an unfinished locked section:
   - a boundary event of ANOTHER locked section (another goroutine's reconnect or Leave, the locked
     section of Close): two sections would overlap (handled in [group]: different actor);
   - the return of rc.Close(): its locked section would lie inside this one;
   - a quiescent point; the start / server request / return of the call of [w] itself.
   Everything else (starts, requests and returns of other goroutines, the begin of a Close that then
   waits for the mutex, kills) does not take rc.m and commutes with the section. *)
Definition breaks (w : nat) (o : obs) : bool :=
  match o with
  | OCloseEnd | OQuiet _ | OInit _ _ _ | OSec _ _ | OCloseSec _ => true
  | OStart g _ | OReq g | ORet g _ => Nat.eqb g w
  | OCloseBegin | OKill _ => false
  end.

(* [open] = the unfinished section (actor, events so far), [pend] = the commuting observations seen
   since it was opened (reversed), [out] = output so far (reversed).  A finished section is placed
   where its first event was logged.  An unfinished section that gets broken is emitted as it is: no
   action of the LTS emits a proper prefix of the reconnect() events, so the acceptor rejects it. *)
Definition flush (open : option (nat * list ev)) (pend out : list obs) : list obs :=
  match open with
  | Some (w, evs) => pend ++ mk_sec w evs :: out
  | None => pend ++ out
  end.

Fixpoint group_aux (l : list robs) (open : option (nat * list ev)) (pend out : list obs) : list obs :=
  match l with
  | [] => rev (flush open pend out)
  | RE w e :: t =>
      match open with
      | Some (w0, evs) =>
          if Nat.eqb w w0 && sec_continues evs e then
            let evs1 := evs ++ [e] in
            if sec_unfinished evs1 then group_aux t (Some (w0, evs1)) pend out
            else group_aux t None [] (flush (Some (w0, evs1)) pend out)
          else
            let out1 := flush open pend out in
            if sec_unfinished [e] then group_aux t (Some (w, [e])) [] out1
            else group_aux t None [] (mk_sec w [e] :: out1)
      | None =>
          if sec_unfinished [e] then group_aux t (Some (w, [e])) [] out
          else group_aux t None [] (mk_sec w [e] :: out)
      end
  | RO o :: t =>
      match open with
      | Some (w0, _) =>
          if breaks w0 o then group_aux t None [] (o :: flush open pend out)
          else group_aux t open (o :: pend) out
      | None => group_aux t None [] (o :: out)
      end
  end.

Definition group (l : list robs) : list obs := group_aux l None [] [].

(* no action of the LTS emits an unfinished section: a section that [group] had to cut short is
   rejected by [with_evs] whatever the state *)
Lemma step_never_unfinished : forall col s a s1 evs,
  step col s a = Some (s1, evs) -> sec_unfinished evs = false.
Proof.
  intros col s a s1 evs H. destruct a; cbn in H.
  - destruct (get_pc s g); inversion H; reflexivity.
  - destruct (get_pc s g); try discriminate.
    destruct (closed s); [inversion H; reflexivity|].
    destruct (cur s) eqn:C; [inversion H; reflexivity|].
    unfold reconnect in H. rewrite C in H.
    destruct f; cbn in H; inversion H; reflexivity.
  - destruct (get_pc s g); try discriminate.
    match type of H with (if ?b then _ else _) = _ => destruct b end; inversion H; reflexivity.
  - destruct (get_pc s g); try discriminate.
    destruct r; try (inversion H; reflexivity).
    destruct (is_cur s c); [destruct col|]; inversion H; reflexivity.
  - destruct (get_pc s g); inversion H; reflexivity.
  - destruct (alive s c); inversion H; reflexivity.
  - destruct (cur s); inversion H; reflexivity.
Qed.

(* the error classification facts (other than the stream-limit row, which is a theorem) *)
Definition class_ok : bool :=
  Nat.eqb c16_nonpermanent_count 1 && c16_eof_is_closed && c16_remote_close_is_closed &&
  c16_idle_timeout_is_closed.

(* the classification table of the tree (gen/ParamsC16.v c16_kind_closed): every kind has a row, the
   stream limit is the one recoverable kind *)
Definition table_ok : bool :=
  forallb (fun k => match wrap_kind k with
                    | Some r => res_eqb r (if kind_eqb k KStreamLimit then RRecov else RClosed)
                    | None => false
                    end) all_kinds.

Lemma kind_of_id_reset : kind_of_id (kind_id KReset) = Some KReset.
Proof. reflexivity. Qed.

(* a real error value, as observed: its kind is one of the enum; where it went through
   wrapIfConnectionClosed it was classified as the table (the oracle of do_kind) says AND as the LTS
   classifies the raw outcome the kind stands for; where it ended a connection attempt it is a
   connection-level kind *)
Definition kobs_ok (o : nat * nat * bool) : bool :=
  let '(site, id, cl) := o in
  match kind_of_id id with
  | None => false
  | Some k =>
      match site with
      | O => let seen := if cl then RClosed else RRecov in
             match wrap_kind k with
             | Some r => res_eqb r seen &&
                         match raw_of k with Some w => res_eqb (classify w) seen | None => true end
             | None => false
             end
      | _ => terminal k
      end
  end.

Definition check (c : case) : bool :=
  match c with
  | CHist l => accepts l
  | CRaw l => accepts (group l)
  | CClass => class_ok && table_ok
  | CPanic _ => false
  | CRawK l ks => accepts (group l) && forallb kobs_ok ks
  end.

(* an error value of no kind of the enum, and a stateless reset that came back unwrapped, are disagreements
   whatever the table of the tree says *)
Example unknown_kind_rejected : kobs_ok (0, 99, true) = false.
Proof. reflexivity. Qed.
Example unwrapped_reset_rejected : kobs_ok (0, kind_id KReset, false) = false.
Proof. unfold kobs_ok. rewrite kind_of_id_reset. destruct (wrap_kind KReset) as [[| |]|]; reflexivity. Qed.

Lemma panicked_history_never_matches : forall l, check (CPanic l) = false.
Proof. reflexivity. Qed.

Definition mismatches (l : list case) : list nat := mism_from check 0 l.

(* ---- recorded logs of one script (first use held inside configFunc, then rc.Close(), then the hold
   is opened) on the working tree and on a tree whose reconnect() leaves rc.m around configFunc *)
Example held_close_waits_accepted :
  check (CRaw [RO (OInit true [] true); RO (OQuiet []); RO (OStart 0 TClosed); RE 0 (ECfg true);
               RO OCloseBegin; RE 0 (ENew 0); RE 0 (EConnected 1); RE 99 (ESockClose 0); RO OCloseEnd;
               RE 0 (ESockClose 0); RO (ORet 0 TClosed); RO (OQuiet []); RO (OStart 1 TClosed);
               RO (ORet 1 TClosed); RO (OQuiet [])]) = true.
Proof. vm_compute. reflexivity. Qed.

Example close_inside_reconnect_rejected :
  check (CRaw [RO (OInit true [] true); RO (OQuiet []); RO (OStart 0 TOk); RE 0 (ECfg true);
               RO OCloseBegin; RO OCloseEnd; RE 0 (ENew 0); RE 0 (EConnected 1); RO (OReq 0);
               RO (ORet 0 TOk); RO (OQuiet [0])]) = false.
Proof. vm_compute. reflexivity. Qed.

(* a second configFunc evaluation between cfg and new of the same Enter: the section of goroutine 0
   is cut at the event of goroutine 1 *)
Example second_cfg_inside_reconnect_cut :
  group [RO (OStart 0 TOk); RE 0 (ECfg true); RO (OStart 1 THsErr); RE 1 (ECfg true); RE 1 (ENew 0);
         RE 1 (ESockClose 0); RO (ORet 1 THsErr); RE 0 (ENew 1); RE 0 (EConnected 1)]
  = [OStart 0 TOk; OSec 0 [ECfg true]; OStart 1 THsErr; OSec 1 [ECfg true; ENew 0; ESockClose 0];
     ORet 1 THsErr; OSec 0 [ENew 1]; OSec 0 [EConnected 1]].
Proof. vm_compute. reflexivity. Qed.

Example second_cfg_inside_reconnect_rejected :
  check (CRaw [RO (OInit true [] true); RO (OQuiet []); RO (OStart 0 TOk); RE 0 (ECfg true);
               RO (OStart 1 THsErr); RE 1 (ECfg true); RE 1 (ENew 0); RE 1 (ESockClose 0);
               RO (ORet 1 THsErr); RE 0 (ENew 1); RE 0 (EConnected 1); RO (OReq 0); RO (ORet 0 TOk);
               RO (OQuiet [1])]) = false.
Proof. vm_compute. reflexivity. Qed.
