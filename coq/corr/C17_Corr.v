(* C17 correspondence: how one observed implementation result is compared with the model.
   Used by the generated run/C17/cases_*.v files.  Not part of any theorem.
   The library oracles of the model (http.ReadRequest behind bufio, utls, AES header protection,
   AEAD, net.ParseIP, strconv.Atoi) are instantiated with the answers the Go harness computed
   independently of the code under test; the crypto oracles answer only the exact query the
   harness recorded, so a model that asks something else is seen as a mismatch. *)
From Hy Require Import lib.Harness model.C17_Sniff.
From Hy Require gen.ParamsC06 model.C06_Relay model.C17_Putback.
From Coq Require Import ZArith.
Local Open Scope N_scope.
Module R := Hy.model.C06_Relay.
Module P := Hy.model.C17_Putback.

(* offsets, lengths and buffer sizes are written as N in the cases files (cheap literals) *)
Definition sub (l : list byte) (off len : N) : list byte := firstn (N.to_nat len) (skipn (N.to_nat off) l).

Definition serr_of (n : N) : option c17_serr :=
  match n with 0 => None | 1 => Some SEof | 2 => Some STimeout | _ => Some SOther end.
Definition serr_code (e : option c17_serr) : N :=
  match e with None => 0 | Some SEof => 1 | Some STimeout => 2 | Some SOther => 3 end.

Fixpoint carve (sent : list byte) (evs : list (N * N)) : c17_script :=
  match evs with
  | [] => []
  | (l, e) :: t => Ev (firstn (N.to_nat l) sent) (serr_of e) :: carve (skipn (N.to_nat l) sent) t
  end.

(* number of stream.Read calls io.ReadFull makes *)
Fixpoint read_full_calls_f (fuel k : nat) (s : c17_script) : nat :=
  match k with
  | O => O
  | S _ =>
      match fuel with
      | O => O
      | S f =>
          let '(bs, e, s') := c17_read k s in
          if Nat.leb k (length bs) then 1%nat
          else match e with
               | Some _ => 1%nat
               | None => S (read_full_calls_f f (k - length bs) s')
               end
      end
  end.
Definition read_full_calls (k : nat) (s : c17_script) := read_full_calls_f (S (length s)) k s.

(* the consumer as observed: the buffer sizes bufio asked for, then stop with the Host found *)
Definition consumer_of (sizes : list nat) (host : option (list byte)) : c17_consumer :=
  fun hist => match nth_error sizes (length hist) with Some k => CRead k | None => CStop host end.

Definition opt_bytes_eqb (a b : option (list byte)) : bool :=
  match a, b with
  | Some x, Some y => bytes_eqb x y
  | None, None => true
  | _, _ => false
  end.

Fixpoint script_eqb (s : c17_script) (l : list (list byte * N)) : bool :=
  match s, l with
  | [], [] => true
  | Ev d e :: s', (d', c) :: l' => bytes_eqb d d' && (serr_code e =? c) && script_eqb s' l'
  | _, _ => false
  end.

Definition hdr_t := (N * list byte * list byte * list byte * N * N)%type.

Inductive case :=
| CTcp (sent : list byte) (evs : list (N * N)) (addr : list byte) (dlfail : bool)
       (sizes : list N) (hhost sni : option (list byte))
       (exp_panic : bool) (exp_replay : list byte) (exp_rem : list (list byte * N))
       (exp_addr : list byte) (exp_err : bool)
| CUdp (data addr : list byte)
       (q_hp : option (N * list byte * list byte * list byte))           (* ver dcid sample -> mask *)
       (q_aead : option (Z * list byte * N * N * bool * list byte))    (* pn ad |ct| dg(ct) -> ok out *)
       (sni : option (list byte))
       (exp_hdr : option (option hdr_t))          (* None = panic, Some None = error *)
       (exp_pl : option (option (list byte)))
       (exp_panic : bool) (exp_after : option (list byte)) (exp_addr : list byte) (exp_err : bool)
| CCheck (addr : list byte) (rw : bool) (tcp udp : option (list (N * N))) (isudp : bool)
       (split : option (list byte * list byte * list byte))              (* host port join *)
       (isip : bool) (atoi : option Z) (exp : bool)
(* a history of several hooked streams on one Sniffer; the expected values of every stream were
   observed when its replay was looked at, i.e. AFTER other streams had been sniffed: in the model
   (model/C17_Own.v, fresh cell per call) that is still what sniff_tcp returned *)
| CSeq (streams : list case)
(* the server side (model/C17_Putback.v), observed end to end on a real client + server: the hook took the first putn bytes
   of `sent` off the stream and handed them back; `writes` are the sizes of the target connection's Write calls in
   order, `uplogs` the tx arguments of the LogTraffic calls, stx StreamStats.Tx, gotn/gotdg length and digest of what
   the target held when the server had torn the relay down after the client's EOF (gotdg = None: the harness found it
   to be the first gotn bytes of `sent`, compared as such here; the digest costs 40 us per byte) *)
| CSrv (logged : bool) (sent : list byte) (putn : N) (writes uplogs : list N) (stx gotn : N) (gotdg : option N).

Definition hp_of (q : option (N * list byte * list byte * list byte))
  : N -> list byte -> list byte -> list byte :=
  fun v d s =>
    match q with
    | Some (qv, qd, qs, m) => if (v =? qv) && bytes_eqb d qd && bytes_eqb s qs then m else []
    | None => []
    end.

Definition aead_of (qv : option (N * list byte * list byte * list byte))
           (q : option (Z * list byte * N * N * bool * list byte))
  : N -> list byte -> Z -> list byte -> list byte -> bool * list byte :=
  fun v d pn ct ad =>
    match q with
    | Some (qpn, qad, qn, qdg, ok, out) =>
        if (pn =? qpn)%Z && bytes_eqb ad qad && (N.of_nat (length ct) =? qn) && (digest ct =? qdg)
        then (ok, out) else (false, [])
    | None => (false, [])
    end.

Definition hdr_eqb (a : hdr_t) (h : qhdr) (off : N) : bool :=
  let '(v, d, s, t, l, o) := a in
  (h_version h =? v) && bytes_eqb (h_dcid h) d && bytes_eqb (h_scid h) s &&
  bytes_eqb (h_token h) t && (h_length h =? l) && (off =? o).

(* cut `sent` into the chunks the target's Write calls carried *)
Fixpoint carve_w (sent : list byte) (ws : list N) : list (list byte) :=
  match ws with
  | [] => []
  | w :: t => firstn (N.to_nat w) sent :: carve_w (skipn (N.to_nat w) sent) t
  end.

(* the run of the hooked path that produces these Write calls: the first one is the direct write of the putback (if
   there is one), every later one a chunk of the Up loop (Read of exactly that chunk, its LogTraffic with a logger, the
   Write), then the client's EOF, the return of nil and the teardown *)
Definition srv_trace (logged : bool) (put : list byte) (chunks : list (list byte)) : list P.hact :=
  let up a := P.HARel (R.ALoop R.Up a) in
  let loop c := [up (R.LRead ParamsC06.CopyBufSize c R.EN)] ++
                (if logged then [up (R.LLog (R.blen c) 0 true)] else []) ++
                [up (R.LWrite c (Z.of_N (R.blen c)) R.EN)] in
  let '(pw, rest) := match put, chunks with
                     | [], _ => ([], chunks)
                     | _, c :: t => ([P.HAPutWrite c (Z.of_N (R.blen c)) R.EN], t)
                     | _, [] => ([], [])
                     end in
  [P.HAReadReq true; P.HACheck true; P.HAWriteResp P.HookEnabled; P.HAHook (Some put); P.HADial true] ++ pw ++
  flat_map loop rest ++
  [up (R.LRead ParamsC06.CopyBufSize [] R.EEOF); up (R.LReturn R.GNil); P.HARel (R.AFirstReturn R.GNil);
   P.HARel R.ACloseTarget; P.HARel R.ACloseStream].

Definition check_srv (logged : bool) (sent : list byte) (putn : N) (writes uplogs : list N) (stx gotn : N) (gotdg : option N) : bool :=
  let put := sub sent 0 putn in
  let chunks := carve_w sent writes in
  let tr := srv_trace logged put chunks in
  match P.hexec (P.hinit (if logged then R.Logged else R.Fast)) tr with
  | None => false
  | Some s =>
      let tgt := P.htarget tr in
      (match R.par (P.hin s) with R.QDone => true | _ => false end) &&
      (N.of_nat (length tgt) =? gotn) &&
      (match gotdg with Some dg => digest tgt =? dg | None => bytes_eqb tgt (sub sent 0 gotn) end) &&
      (if logged
       then (P.hstats_tx s =? stx) &&
            N_list_eqb uplogs (match put with [] => writes | _ => tl writes end)
       else true)
  end.

Fixpoint check (c : case) : bool :=
  match c with
  | CTcp sent evs addr dlfail sizes hhost sni exp_panic exp_replay exp_rem exp_addr exp_err =>
      let s := carve sent evs in
      let csizes := map N.to_nat (4096 :: skipn (read_full_calls 3 s) sizes) in
      match sniff_tcp (S (length csizes)) (consumer_of csizes hhost) (fun _ => sni) dlfail s addr with
      | Panic _ => exp_panic
      | Err _ => false
      | Ok o =>
          negb exp_panic && bytes_eqb (o_replay o) exp_replay && script_eqb (o_rest o) exp_rem &&
          bytes_eqb (o_addr o) exp_addr && Bool.eqb (o_err o) exp_err
      end
  | CUdp data addr q_hp q_aead sni exp_hdr exp_pl exp_panic exp_after exp_addr exp_err =>
      let hp := hp_of q_hp in
      let aead := aead_of q_hp q_aead in
      (match parse_initial_header data, exp_hdr with
       | Panic _, None => true
       | Err _, Some None => true
       | Ok (h, off), Some (Some a) => hdr_eqb a h off
       | _, _ => false
       end) &&
      (match read_crypto_payload hp aead isort_frames false false [data] 0, exp_pl with
       | Panic _, None => true
       | Ok (_, None), Some None => true
       | Ok (_, Some p), Some (Some q) => bytes_eqb p q
       | _, _ => false
       end) &&
      (match sniff_udp hp aead (fun _ => sni) isort_frames false false [data] 0 addr with
       | Panic _ => exp_panic
       | Err _ => false
       | Ok o =>
           negb exp_panic &&
           bytes_eqb (heap_get (u_heap o) 0) (match exp_after with Some a => a | None => data end) &&
           bytes_eqb (u_addr o) exp_addr && Bool.eqb (u_err o) exp_err
       end)
  | CCheck addr rw tcp udp isudp split isip atoi exp =>
      let is_ip_f := fun h => match split with Some (host, _, _) => bytes_eqb h host && isip | None => false end in
      let atoi_f := fun p => match split with Some (_, port, _) => if bytes_eqb p port then atoi else None | None => None end in
      (match split_host_port addr, split with
       | None, None => true
       | Some (h, p), Some (h', p', j) =>
           bytes_eqb h h' && bytes_eqb p p' && bytes_eqb (join_host_port h p) j
       | _, _ => false
       end) &&
      Bool.eqb (sniff_check is_ip_f atoi_f rw tcp udp isudp addr) exp
  | CSeq l => forallb check l
  | CSrv logged sent putn writes uplogs stx gotn gotdg => check_srv logged sent putn writes uplogs stx gotn gotdg
  end.

Definition mismatches (l : list case) : list nat := mism_from check 0 l.
