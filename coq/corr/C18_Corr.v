(* C18 correspondence: how one observed run of the implementation (boundary log of the Go harness) is
   compared with the model.  Used by the generated run/C18/cases files.  The mux replay ([replay]) is proved sound for the mux
   LTS in proof/C18_Replay.v (props/C18.v, the C18_accepted_history theorems). *)
From Hy Require Import lib.Harness model.C18_Inbounds model.C18_Relay.
From Coq Require Import ZArith.
Local Open Scope N_scope.

Fixpoint LB_eqb (a b : list (list byte)) : bool :=
  match a, b with
  | [], [] => true
  | x :: s, y :: t => bytes_eqb x y && LB_eqb s t
  | _, _ => false
  end.

(* ---------- SOCKS ---------- *)
(* observed events: the address handed to HyClient.TCP is a string; the python driver splits it at the
   last ':' and, when the host is an IP literal, gives its packed form *)
Inductive osev :=
| OReply (b : list byte)
| OAuth (u p : list byte) (ok : bool)
| OTcp (str : list byte) (ip : option (list byte)) (port : N)
| OUdp
| OUdpReply
| ORelay (b : list byte)
| OClose.

Fixpoint dec_digits (fuel : nat) (n : N) (acc : list byte) : list byte :=
  match fuel with
  | O => acc
  | S f => let acc' := n2b (48 + n mod 10) :: acc in
           if n / 10 =? 0 then acc' else dec_digits f (n / 10) acc'
  end.
Definition dec (n : N) : list byte := dec_digits 20 n [].

(* net.JoinHostPort: brackets only when the host contains a colon *)
Definition join_host_port (h : list byte) (p : list byte) : list byte :=
  if existsb (fun c => Byte.eqb c x3a) h then [x5b] ++ h ++ [x5d; x3a] ++ p
  else h ++ [x3a] ++ p.

(* net.IP.String prints a 16-byte address with the v4-mapped prefix as dotted quad *)
Definition v4mapped (a : list byte) : bool :=
  Nat.eqb (length a) 16 && bytes_eqb (firstn 12 a) [x00;x00;x00;x00;x00;x00;x00;x00;x00;x00;xff;xff].
Definition canon_ip (a : list byte) : list byte := if v4mapped a then skipn 12 a else a.

Definition sev_match (m : c18_sev) (o : osev) : bool :=
  match m, o with
  | SReply a, OReply b => bytes_eqb a b
  | SAuth u p k, OAuth u' p' k' => bytes_eqb u u' && bytes_eqb p p' && Bool.eqb k k'
  | STcp atyp addr port, OTcp str ip pn =>
      (be_dec port =? pn) &&
      (if Byte.eqb atyp x03 then bytes_eqb str (join_host_port addr (dec (be_dec port)))
       else match ip with Some a => bytes_eqb (canon_ip addr) a | None => false end)
  | SUdp, OUdp => true
  | SUdpReply, OUdpReply => true
  | SRelay a, ORelay b => bytes_eqb a b
  | SClose, OClose => true
  | _, _ => false
  end.

Fixpoint sevs_match (m : list c18_sev) (o : list osev) : bool :=
  match m, o with
  | [], [] => true
  | x :: s, y :: t => sev_match x y && sevs_match s t
  | _, _ => false
  end.

Definition cred_fn (up : list byte * list byte) : list byte -> list byte -> bool :=
  fun u p => bytes_eqb u (fst up) && bytes_eqb p (snd up).

(* ---------- HTTP ---------- *)
Definition hev_match (m o : c18_hev) : bool :=
  match m, o with
  | HAuth u p k, HAuth u' p' k' => bytes_eqb u u' && bytes_eqb p p' && Bool.eqb k k'
  | HReply a, HReply b => a =? b
  | HTcp a, HTcp b => bytes_eqb a b
  | HRelay a, HRelay b => bytes_eqb a b
  | HClose, HClose => true
  | _, _ => false
  end.
Fixpoint hevs_match (m o : list c18_hev) : bool :=
  match m, o with
  | [], [] => true
  | x :: s, y :: t => hev_match x y && hevs_match s t
  | _, _ => false
  end.

(* ---------- prefix readers (cachedConn, connWithOneByte): result of every single Read ---------- *)
Fixpoint reads_match (r : c18_pre) (sizes : list N) (obs : list (list byte * bool)) : bool :=
  match sizes, obs with
  | _, [] => true                       (* the harness stops after the first EOF *)
  | [], _ :: _ => false
  | n :: st, (b, e) :: ot =>
      let '(b', e', r') := c18_pre_read n r in
      bytes_eqb b b' && Bool.eqb e e' && (if e then match ot with [] => true | _ => false end else reads_match r' st ot)
  end.

(* ---------- mux histories ---------- *)
Inductive stim :=
| StListen (socks : bool) (code : N)
| StSubClose (s : nat)
| StSubAccept (s : nat)
| StIncoming
| StRefused
| StFirstByte (c : nat) (z : nat) (b : byte)   (* z zero-length reads, then a read that yields b *)
| StReadErr (c : nat) (z : nat)                (* z zero-length reads, then a failing read *)
| StWait (handoffs : list (nat * nat)) (conns : list N) (subs : list (N * N)) (bclosed : bool).

Definition hidden_acts (m : c18_ms) : list c18_act :=
  [AForward; AAlDrop; AAlErr; AMlSnap; AMlSeeClose true; AMlSeeClose false; AMlCheck; AMlExitA; AMlExitB]
  ++ flat_map (fun c => [ASelect c; ASeesSubClosed c; ASendPanic c]) (seq 0 (length (m_conns m)))
  ++ map AAcceptErr (seq 0 (length (m_subs m))).

Fixpoint first_enabled (m : c18_ms) (l : list c18_act) : option c18_ms :=
  match l with
  | [] => None
  | a :: t => match c18_mstep c18_now m a with Some (m', _) => Some m' | None => first_enabled m t end
  end.

(* run the code's own atomic sections (all but the rendezvous) until none is enabled *)
Fixpoint settle (fuel : nat) (m : c18_ms) : option c18_ms :=
  match fuel with
  | O => None
  | S f => match first_enabled m (hidden_acts m) with None => Some m | Some m' => settle f m' end
  end.

Definition conn_code (x : c18_cst) : N :=
  match x with
  | CClosed => 1
  | CHanded _ s => 2 + N.of_nat s
  | CPanic => 1000
  | _ => 0
  end.

Fixpoint do_handoffs (m : c18_ms) (l : list (nat * nat)) : option c18_ms :=
  match l with
  | [] => Some m
  | (c, s) :: t =>
      match c18_get_conn m c with
      | Some (CSel _ s') =>
          if Nat.eqb s s' then
            match c18_mstep c18_now m (AHandoff c) with
            | Some (m1, _) => match settle 300 m1 with Some m2 => do_handoffs m2 t | None => None end
            | None => None
            end
          else None
      | _ => None
      end
  end.

Definition no_handoff_enabled (m : c18_ms) : bool :=
  forallb (fun c => match c18_mstep c18_now m (AHandoff c) with Some _ => false | None => true end)
          (seq 0 (length (m_conns m))).

Definition snap_ok (m : c18_ms) (conns : list N) (subs : list (N * N)) (bclosed : bool) : bool :=
  N_list_eqb (map conn_code (m_conns m)) conns &&
  N_list_eqb (map (fun x => N.of_nat (sb_errs x)) (m_subs m)) (map fst subs) &&
  N_list_eqb (map (fun x => N.of_nat (sb_waiting x)) (m_subs m)) (map snd subs) &&
  Bool.eqb (m_base_closed m) bclosed.

Definition lcode (r : c18_lres) : N := match r with LOk _ => 0 | LInUse => 1 | LClosed => 2 end.

Definition vis (m : c18_ms) (a : c18_act) : option c18_ms :=
  match c18_mstep c18_now m a with Some (m', _) => Some m' | None => None end.

Fixpoint replay (m : c18_ms) (l : list stim) : bool :=
  match l with
  | [] => true
  | st :: t =>
      match st with
      | StListen socks code =>
          match c18_mstep c18_now m (AListen socks) with
          | Some (m', OListen r) => (lcode r =? code) && replay m' t
          | _ => false
          end
      | StSubClose s => match vis m (ASubClose s) with Some m' => replay m' t | None => false end
      | StSubAccept s => match vis m (ASubAccept s) with Some m' => replay m' t | None => false end
      | StIncoming => match vis m AIncoming with Some m' => replay m' t | None => false end
      | StRefused => m_base_closed m && replay m t
      | StFirstByte c z b =>
          match c18_mux_peek (repeat [] z ++ [[b]]) with
          | Some (b', _) => match vis m (AFirstByte c b') with Some m' => replay m' t | None => false end
          | None => false
          end
      | StReadErr c z =>
          match c18_mux_peek (repeat [] z) with
          | None => match vis m (AReadErr c) with Some m' => replay m' t | None => false end
          | Some _ => false
          end
      | StWait hs conns subs bc =>
          match settle 300 m with
          | Some m1 =>
              match do_handoffs m1 hs with
              | Some m2 => no_handoff_enabled m2 && snap_ok m2 conns subs bc && replay m2 t
              | None => false
              end
          | None => false
          end
      end
  end.

(* ---------- relay phase on scripted conns ---------- *)
(* slice of a payload: the generated cases name the bytes of an observed Read / Write this way *)
Definition sl (s : list byte) (off n : N) : list byte := firstn (N.to_nat n) (skipn (N.to_nat off) s).

(* The log of the two scripted conns in its global order, as a run of the relay LTS (model/C18_Relay.v) of the
   code as it is: io.Copy's loop, one buffer per direction.  pre = bytes the inbound had read beyond the header
   part before it dialled: cachedConn hands them to the client->upstream loop in its first Read (they are
   fewer than the copy buffer holds), before anything the conn itself delivers.  Every goroutine has ended
   when the harness takes the log, so both loops must have left. *)
Definition relay_ok (pre : list byte) (tr : list rl_act) : bool :=
  let tr' := match pre with
             | [] => tr
             | _ => let '(b, _, r) := c18_pre_read c18_copy_buf (mkPre pre []) in
                    match pr_buf r with
                    | [] => RlRead DUp c18_copy_buf b RN :: tr
                    | _ => []     (* more than one buffer of read-ahead: not produced by bufio's 4096 bytes *)
                    end
             end in
  match tr' with
  | [] => false
  | _ => match rl_run KIoCopy false rl_init tr' with
         | Some s => rl_is_ret (rl_pcU s) && rl_is_ret (rl_pcD s)
         | None => false
         end
  end.

(* ---------- cases ---------- *)
Inductive case :=
| CSocks (auth : option (list byte * list byte)) (dudp dial udp : bool) (s : c18_script) (obs : list osev)
| CHttp (auth : option (list byte * list byte)) (dial : bool) (reqs : list c18_hreq) (h : nat)
        (s : c18_script) (obs : list c18_hev)
| CRead (buf : list byte) (s : c18_script) (sizes : list N) (obs : list (list byte * bool))
| CMux (l : list stim)
| CMuxActs (acts : list c18_act) (conns : list N)     (* an explicit schedule of atomic sections *)
| CRelay (pre : list byte) (tr : list rl_act).

Definition check (c : case) : bool :=
  match c with
  | CSocks auth dudp dial udp s obs =>
      let cfg := mkSCfg (option_map cred_fn auth) dudp dial true udp in
      sevs_match (c18_socks cfg s) obs
  | CHttp auth dial reqs h s obs =>
      (* reqs = what net/http parsed out of s (reported by the harness): the form it reports for every
         request-target is the one the model derives, with the scheme / host shape that form implies *)
      forallb c18_form_ok reqs &&
      hevs_match (c18_http (mkHCfg (option_map cred_fn auth) dial) reqs h s) obs
  | CRead buf s sizes obs => reads_match (mkPre buf s) sizes obs
  | CMux l => replay c18_m_init l
  | CMuxActs acts conns =>
      match c18_mrun c18_now c18_m_init acts with
      | Some m => N_list_eqb (map conn_code (m_conns m)) conns
      | None => false
      end
  | CRelay pre tr => relay_ok pre tr
  end.

Definition mismatches (l : list case) : list nat := mism_from check 0 l.
