(* C19 correspondence: how one observed implementation result is compared with the model.
   Used by the generated run/C19/cases_*.v files.  Not part of any theorem.

   Port unions / intervals: the model is run on the same input and the outputs compared.
   Hop histories: the boundary log recorded by the Go harness (one mutex, one sequence) is replayed
   through [step].  Nondeterministic choices (listen failure, the rand.Intn draw, the select branch)
   are read from the log.

   Where a record sits relative to the atomic section it describes (the acceptor must accept every
   order of records that a real interleaving of the code can produce, and no other):

   * L C S W are appended by the fake socket, i.e. inside the code's section that holds connMutex;
     SN is taken under connMutex.RLock.  Their order is the order of the sections.  The first such
     record of a section names the action and the section's records must equal, one by one, the
     boundary calls the model's action emits.
   * A T D (receive path: lock-free) are appended by the fake socket / injector whenever they
     happen, possibly between two records of a locked section.  They are applied to the state
     before that section (they do not depend on what it changes).
   * WC CL2 HN R are appended by the CALLER AFTER THE CALL HAS RETURNED, outside every lock of the
     code.  The section they report (WriteTo / Close / hop finding the conn closed; the channel
     operations of ReadFrom) therefore precedes the record, and another goroutine's locked section
     may already be in progress when the record is appended: the record then lands between two
     records of that section although the reported section was over before it began.  Like the
     receive path they are applied to the state before the section in progress, which stays in
     progress.  (Closedness, the only thing WC CL2 HN depend on, is permanent, so a late record is
     judged exactly.)
   * RS is appended by the caller BEFORE ReadFrom is called: the call's closed-first look at
     closeChan comes after it.
   * Close: both C records precede close(closeChan), which is what the lock-free readers see.  A
     ReadFrom that starts (RS) after the last C record may therefore still pass its closed-first
     look.  This is the schedule [AReadBegin rid; AClose] of the LTS: AClose emits the same calls
     either way and does not touch [armed].  The window is open from the last C record of Close
     until a record shows that Close has released connMutex (any later L C S W SN WC CL2 HN) or
     that closeChan is closed (a read returning closed).
   * Socket faults: the history names the sockets whose Close() is scripted to report an error
     ([cerrs]; that is the model's [ce]).  Every C record carries what the socket's Close reported
     and must agree with the boundary call the model emits ([OSockClose k (ce k)]).  CLR err is
     appended by the caller of a Close that was started before any Close had returned, after it
     returned: the one Close that did the closing must report exactly the value the model's AClose
     returned (kept in the replay state until its CLR comes; it is an error iff currentConn's Close
     failed), every other one found the conn closed and returns nil.  At the end of the log no
     return value may be left unreported. *)
From Hy Require Import lib.Harness model.C19_PortUnion model.C19_Hop.
From Coq Require Import ZArith Bool.
Local Open Scope N_scope.

Definition range_eqb (a b : range) : bool := (fst a =? fst b) && (snd a =? snd b).
Fixpoint ranges_eqb (a b : list range) : bool :=
  match a, b with
  | [], [] => true
  | x :: a', y :: b' => range_eqb x y && ranges_eqb a' b'
  | _, _ => false
  end.

(* order-sensitive checksum without modular arithmetic: (sum (p+1), sum of the running sums) *)
Definition ports_hash (l : list N) : N * N :=
  fold_left (fun ab p => let a := fst ab + p + 1 in (a, snd ab + a)) l (0, 0).

Fixpoint bools_eqb (a b : list bool) : bool :=
  match a, b with
  | [], [] => true
  | x :: a', y :: b' => Bool.eqb x y && bools_eqb a' b'
  | _, _ => false
  end.

Definition union_obs_ok (u : list range) (np : N) (ph : N * N) (probe : list N) (cont : list bool) : bool :=
  let ps := ports u in
  let h := ports_hash ps in
  (N.of_nat (length ps) =? np) && (fst h =? fst ph) && (snd h =? snd ph) && bools_eqb (map (contains u) probe) cont.

Inductive ev :=
| EL (ok : bool) (id : nat) (r : nat)
| EC (k : nat) (err : bool)     (* socket k . Close() was called; err: it reported an error *)
| ES (k : nat) (kd : setkind) (v : Z)
| EW (k : nat) (port : N) (d : N)
| EA (k : nat) (p : N)
| ET (k : nat)
| ED (k : nat)
| ERS (rid : nat)                (* a ReadFrom call is about to start *)
| ER (rid : nat) (r : ret)        (* that call returned *)
| EWC
| ESN (prev : option nat) (cur : nat) (idx : nat) (closed : bool) (qlen : option nat) (nopen : nat)
| EHN
| ECL2
| ECR (err : bool).              (* a Close started before any Close had returned has returned err / nil *)

Inductive case :=
| CPU (s : list byte) (exp : option (list range)) (np : N) (ph : N * N) (probe : list N) (cont : list bool)
| CNorm (u : list range) (exp : list range) (np : N) (ph : N * N) (probe : list N) (cont : list bool)
| CIval (mn mx : Z) (err : bool) (nmin nmax : Z) (draws : list Z)
| CHop (expr : list byte) (ctor_ok : bool) (r0 : nat) (cerrs : list nat) (evs : list ev) (census : list (bool * N)).

Definition kd_eqb (a b : setkind) : bool :=
  match a, b with
  | SDL, SDL | SRDL, SRDL | SWDL, SWDL | SRB, SRB | SWB, SWB => true
  | _, _ => false
  end.

Definition ret_eqb (a b : ret) : bool :=
  match a, b with
  | RNil, RNil | RWrote, RWrote | RClosed, RClosed | RTimeout, RTimeout | RPanic, RPanic | RSockErr, RSockErr => true
  | RPkt x, RPkt y => x =? y
  | _, _ => false
  end.

Definition locked_out (o : out) : bool := match o with ORet _ => false | _ => true end.

Definition ev_matches (e : ev) (o : out) : bool :=
  match e, o with
  | EL ok _ _, OListen ok' => Bool.eqb ok ok'
  | EC k e, OSockClose k' e' => Nat.eqb k k' && Bool.eqb e e'
  | ES k kd v, OSockSet k' kd' v' => Nat.eqb k k' && kd_eqb kd kd' && (v =? v')%Z
  | EW k p d, OSockWrite k' p' d' => Nat.eqb k k' && (p =? p') && (d =? d')
  | _, _ => false
  end.

Definition opt_nat_eqb (a b : option nat) : bool :=
  match a, b with
  | Some x, Some y => Nat.eqb x y
  | None, None => true
  | _, _ => false
  end.

Definition count_open (l : list sock) : nat := length (filter s_open l).

(* replay state: model state; the locked section in progress with the number of its boundary
   calls already seen; whether the closing window (see above) is open; the value returned by the
   Close that did the closing, until its caller's CLR record has been seen *)
Definition rstate : Type := (st * option (action * nat) * bool * option ret)%type.

Definition ret_of_outs (outs : list out) : option ret :=
  match filter (fun o => negb (locked_out o)) outs with
  | [ORet r] => Some r
  | _ => None
  end.

Definition locked (ps : list N) (ce : nat -> bool) (s : st) (pend : option (action * nat)) (cr : option ret)
                  (e : ev) (a0 : action) : option rstate :=
  let '(a, n) := match pend with Some an => an | None => (a0, O) end in
  let '(s', outs) := step ps ce s a in
  let em := filter locked_out outs in
  match nth_error em n with
  | Some o =>
      if ev_matches e o
      then Some (if Nat.eqb (S n) (length em)
                 then if closed s' && negb (closed s)
                      then (s', None, true, ret_of_outs outs)      (* last record of Close opens the window *)
                      else (s', None, false, cr)
                 else (s, Some (a, S n), false, cr))
      else None
  | None => None
  end.

Definition unlocked_step (ps : list N) (ce : nat -> bool) (s : st) (a : action) (expect : list out) : option st :=
  let '(s', outs) := step ps ce s a in
  match outs, expect with
  | [], [] => Some s'
  | [ORet r], [ORet r'] => if ret_eqb r r' then Some s' else None
  | _, _ => None
  end.

Definition rstep (ps : list N) (ce : nat -> bool) (rs : rstate) (e : ev) : option rstate :=
  let '(s, pend, cw, cr) := rs in
  match e with
  | EL ok id r =>
      match pend with
      | Some _ => None                               (* a listen never comes inside another section *)
      | None => if negb ok || Nat.eqb id (length (socks s)) then locked ps ce s pend cr e (AHop ok r) else None
      end
  | EC k err => locked ps ce s pend cr e AClose
  | ES k kd v => locked ps ce s pend cr e (ASet kd v)
  | EW k p d => match pend with Some _ => None | None => locked ps ce s pend cr e (AWrite d) end
  | EA k p => match unlocked_step ps ce s (AArrive k p) [] with Some s' => Some (s', pend, cw, cr) | None => None end
  | ET k => match unlocked_step ps ce s (AArriveTimeout k) [] with Some s' => Some (s', pend, cw, cr) | None => None end
  | ED k =>
      if negb (sock_open (socks s) k) ||
         match pend with Some (a, _) => negb (sock_open (socks (fst (step ps ce s a))) k) | None => false end
      then Some rs else None
  | ERS rid =>
      (* the call's closed-first check happens after this entry; placing it here when the conn is
         still open is one of the schedules of the LTS and leaves both later outcomes possible *)
      if closed s then
        if cw then Some (with_armed s (rid :: armed s), pend, cw, cr)   (* [AReadBegin rid] scheduled before [AClose] *)
        else Some rs
      else match unlocked_step ps ce s (AReadBegin rid) [] with Some s' => Some (s', pend, cw, cr) | None => None end
  | ER rid r =>
      let cw' := cw && negb (ret_eqb r RClosed) in
      if existsb (Nat.eqb rid) (armed s)
      then match unlocked_step ps ce s (AReadSelect rid (ret_eqb r RClosed)) [ORet r] with
           | Some s' => Some (s', pend, cw', cr) | None => None end
      else match unlocked_step ps ce s (AReadBegin rid) [ORet r] with
           | Some s' => Some (s', pend, cw', cr) | None => None end
  | EWC =>
      (* WriteTo found the conn closed (accepted only if the model's conn is closed) *)
      match unlocked_step ps ce s (AWrite 0) [ORet RClosed] with Some s' => Some (s', pend, false, cr) | None => None end
  | ESN p c i cl q no =>
      match pend with
      | Some _ => None
      | None =>
          if opt_nat_eqb p (prev s) && Nat.eqb c (cur s) && Nat.eqb i (idx s) && Bool.eqb cl (closed s) &&
             match q with Some n => Nat.eqb n (length (queue s)) | None => true end &&
             Nat.eqb no (count_open (socks s))
          then Some (s, None, false, cr) else None
      end
  | EHN =>
      (* a hop that found the conn closed: no boundary call at all *)
      if closed s then
        match step ps ce s (AHop true 0) with (s', []) => Some (s', pend, false, cr) | _ => None end
      else None
  | ECL2 =>
      (* a Close that found the conn closed *)
      match unlocked_step ps ce s AClose [ORet RNil] with
      | Some s' => if closed s then Some (s', pend, false, cr) else None
      | None => None end
  | ECR err =>
      (* a Close has returned, so the conn is closed.  Either it is the Close that did the closing: the value
         the model's AClose returned (an error iff currentConn's Close failed) must be the one reported, once;
         or it found the conn closed: the model's AClose on a closed conn returns nil *)
      if negb (closed s) then None
      else
        let r := if err then RSockErr else RNil in
        match cr with
        | Some r0 => if ret_eqb r0 r then Some (s, pend, false, None)
                     else match unlocked_step ps ce s AClose [ORet r] with
                          | Some s' => Some (s', pend, false, cr) | None => None end
        | None => match unlocked_step ps ce s AClose [ORet r] with
                  | Some s' => Some (s', pend, false, cr) | None => None end
        end
  end.

(* returns the index of the first rejected event (Some i) or the final state *)
Fixpoint replay (ps : list N) (ce : nat -> bool) (rs : rstate) (i : nat) (l : list ev) : rstate + nat :=
  match l with
  | [] => inl rs
  | e :: t => match rstep ps ce rs e with
              | Some rs' => replay ps ce rs' (S i) t
              | None => inr i
              end
  end.

Fixpoint census_eqb (a : list sock) (b : list (bool * N)) : bool :=
  match a, b with
  | [], [] => true
  | x :: a', (o, c) :: b' => Bool.eqb (s_open x) o && (s_closes x =? c) && census_eqb a' b'
  | _, _ => false
  end.

Definition ce_of (cerrs : list nat) (k : nat) : bool := existsb (Nat.eqb k) cerrs.

Definition hop_check (expr : list byte) (ctor_ok : bool) (r0 : nat) (cerrs : list nat) (evs : list ev)
                     (census : list (bool * N)) : bool :=
  match hop_ports expr with
  | None => false
  | Some ps =>
      match init ps ctor_ok r0 with
      | Ok s0 =>
          match replay ps (ce_of cerrs) (s0, None, false, None) 0 evs with
          | inl (s, None, _, None) => census_eqb (socks s) census    (* no section and no return value left open *)
          | _ => false
          end
      | Err _ => negb ctor_ok && match evs, census with [], [] => true | _, _ => false end
      | Panic _ => false
      end
  end.

(* for diagnosis in replays: where the log is rejected *)
Definition hop_reject_at (expr : list byte) (ctor_ok : bool) (r0 : nat) (cerrs : list nat) (evs : list ev) : option nat :=
  match hop_ports expr with
  | None => Some O
  | Some ps => match init ps ctor_ok r0 with
               | Ok s0 => match replay ps (ce_of cerrs) (s0, None, false, None) 0 evs with inr i => Some i | inl _ => None end
               | _ => None
               end
  end.

Definition opt_ranges_eqb (a b : option (list range)) : bool :=
  match a, b with
  | Some x, Some y => ranges_eqb x y
  | None, None => true
  | _, _ => false
  end.

Definition draw_ok (mn mx v : Z) : bool :=
  match next_interval mn mx (v - mn) with
  | Ok w => (w =? v)%Z
  | _ => false
  end.

Definition check (c : case) : bool :=
  match c with
  | CPU s exp np ph probe cont =>
      let m := parse_port_union s in
      opt_ranges_eqb m exp &&
      union_obs_ok (match m with Some u => u | None => [] end) np ph probe cont
  | CNorm u exp np ph probe cont =>
      let m := normalize u in
      ranges_eqb m exp && union_obs_ok m np ph probe cont
  | CIval mn mx err nmin nmax draws =>
      match normalized mn mx with
      | None => err
      | Some (a, b) => negb err && (a =? nmin)%Z && (b =? nmax)%Z && forallb (draw_ok a b) draws
      end
  | CHop expr ctor_ok r0 cerrs evs census => hop_check expr ctor_ok r0 cerrs evs census
  end.

Definition mismatches (l : list case) : list nat := mism_from check 0 l.

(* ---------------- self-tests of the acceptor on small logs (ports "443", one successful hop).
   A record made by the caller after its call returned may land inside another goroutine's section
   (here a SetDeadline racing a WriteTo / Close / hop on a closed conn): accepted.  The same
   records while the conn is still open: rejected. *)
Example accept_late_returns_inside_a_section :
  hop_check [x34;x34;x33] true 0%nat []
    [EL true 1%nat 0%nat; EC 0%nat false; EC 1%nat false;
     ES 0%nat SDL 0%Z; EWC; ECL2; EHN; ECR false; ES 1%nat SDL 0%Z]
    [(false, 1); (false, 1)] = true.
Proof. vm_compute. reflexivity. Qed.

Example reject_closed_returns_on_an_open_conn :
  map (fun e => hop_check [x34;x34;x33] true 0%nat [] [EL true 1%nat 0%nat; ES 0%nat SDL 0%Z; e; ES 1%nat SDL 0%Z]
                          [(true, 0); (true, 0)])
      [EWC; ECL2; EHN; EA 0%nat 7] = [false; false; false; true].
Proof. vm_compute. reflexivity. Qed.

Example reject_section_with_a_missing_or_foreign_record :
  map (fun l => hop_check [x34;x34;x33] true 0%nat [] (EL true 1%nat 0%nat :: EC 0%nat false :: EC 1%nat false :: l ++ [ECR false])
                          [(false, 1); (false, 1)])
      [[ES 0%nat SDL 0%Z; EWC]; [ES 0%nat SDL 0%Z; EWC; ES 1%nat SRDL 0%Z];
       [ES 0%nat SDL 0%Z; EWC; EW 1%nat 443 0]; [ES 0%nat SDL 0%Z; EWC; ES 1%nat SDL 0%Z]]
  = [false; false; false; true].
Proof. vm_compute. reflexivity. Qed.

(* closing window: a ReadFrom started right after Close's last socket call may still get a queued
   packet; once anything shows that Close is over, it must return closed *)
Example closing_window :
  map (fun l => hop_check [x34;x34;x33] true 0%nat [] (EA 0%nat 7 :: EC 0%nat false :: l ++ [ECR false]) [(false, 1)])
      [[ERS 0%nat; ER 0%nat (RPkt 7)];
       [ERS 0%nat; ER 0%nat RClosed];
       [EWC; ERS 0%nat; ER 0%nat (RPkt 7)];
       [ESN None 0%nat 0%nat true None 0%nat; ERS 0%nat; ER 0%nat (RPkt 7)];
       [ERS 0%nat; ER 0%nat RClosed; ERS 1%nat; ER 1%nat (RPkt 7)];
       [EWC; ERS 0%nat; ER 0%nat RClosed]]
  = [true; true; false; false; false; true].
Proof. vm_compute. reflexivity. Qed.

(* socket faults (one successful hop; Close has to close prev = 0 and cur = 1): Close returns cur's
   error and drops prev's; its return value is reported exactly once; a Close that stops after a
   failing socket (no second C record) is rejected; a record that disagrees with the script is
   rejected *)
Example close_faults :
  map (fun cl => hop_check [x34;x34;x33] true 0%nat (fst cl) (EL true 1%nat 0%nat :: snd cl) [(false, 1); (false, 1)])
      [([1%nat], [EC 0%nat false; EC 1%nat true; ECR true]);
       ([1%nat], [EC 0%nat false; EC 1%nat true; ECR false]);
       ([0%nat], [EC 0%nat true; EC 1%nat false; ECR false]);
       ([0%nat], [EC 0%nat true; EC 1%nat false; ECR true]);
       ([0%nat], [EC 0%nat true; ECR true]);
       ([0%nat; 1%nat], [EC 0%nat true; EC 1%nat true; ECR false; ECR true; ECL2]);
       ([0%nat; 1%nat], [EC 0%nat true; EC 1%nat true; ECR true; ECR true]);
       ([1%nat], [EC 0%nat false; EC 1%nat true]);
       ([1%nat], [EC 0%nat false; EC 1%nat false; ECR false]);
       ([], [ECR false]);
       ([], [EC 0%nat false; EC 1%nat false; ECR false; EHN; EWC])]
  = [true; false; true; false; false; true; false; false; false; false; true].
Proof. vm_compute. reflexivity. Qed.
