(* C19 correspondence: how one observed implementation result is compared with the model.
   Used by the generated run/C19/cases_*.v files.  Not part of any theorem.

   Port unions / intervals: the model is run on the same input and the outputs compared.
   Hop histories: the boundary log recorded by the Go harness (one mutex, one sequence) is replayed
   through [step].  Nondeterministic choices (listen failure, the rand.Intn draw, the select branch)
   are read from the log.

   Where a record sits relative to the atomic section it describes (the acceptor must accept every
   order of records that a real interleaving of the code can produce, and no other):

   * L C S W are appended by the fake socket, i.e. inside the code's section that holds connMutex;
     SN is taken under connMutex.RLock.  Their order is the order of the sections.  The first such
     record of a section names the action and the section's records must equal, one by one, the
     boundary calls the model's action emits.
   * A T D (receive path: lock-free) are appended by the fake socket / injector whenever they
     happen, possibly between two records of a locked section.  They are applied to the state
     before that section (they do not depend on what it changes).
   * WC CL2 HN R are appended by the CALLER AFTER THE CALL HAS RETURNED, outside every lock of the
     code.  The section they report (WriteTo / Close / hop finding the conn closed; the channel
     operations of ReadFrom) therefore precedes the record, and another goroutine's locked section
     may already be in progress when the record is appended: the record then lands between two
     records of that section although the reported section was over before it began.  Like the
     receive path they are applied to the state before the section in progress, which stays in
     progress.  (Closedness, the only thing WC CL2 HN depend on, is permanent, so a late record is
     judged exactly.)
   * RS is appended by the caller BEFORE ReadFrom is called: the call's closed-first look at
     closeChan comes after it.
   * Close: both C records precede close(closeChan), which is what the lock-free readers see.  A
     ReadFrom that starts (RS) after the last C record may therefore still pass its closed-first
     look.  This is the schedule [AReadBegin rid; AClose] of the LTS: AClose emits the same calls
     either way and does not touch [armed].  The window is open from the last C record of Close
     until a record shows that Close has released connMutex (any later L C S W SN WC CL2 HN) or
     that closeChan is closed (a read returning closed).
   * Socket faults: the history names the sockets whose Close() is scripted to report an error
     ([cerrs]; that is the model's [ce]).  Every C record carries what the socket's Close reported
     and must agree with the boundary call the model emits ([OSockClose k (ce k)]).  CLR err is
     appended by the caller of a Close that was started before any Close had returned, after it
     returned: the one Close that did the closing must report exactly the value the model's AClose
     returned (kept in the replay state until its CLR comes; it is an error iff currentConn's Close
     failed), every other one found the conn closed and returns nil.  At the end of the log no
     return value may be left unreported.
   * Receivers: the replay runs the extended machine of model/C19_Recv.v (hop LTS + one receiver
     goroutine per socket).  A / T are turns of socket k's recvLoop and are rejected when the model's
     receiver of that socket has returned.  X k is appended by the fake socket when its ReadFrom
     reports the permanent "closed" error to its receiver: accepted only if the model's socket k is
     closed (or is being closed by the section in progress) and its receiver still running; it is
     the receiver's exit.  N k is appended by the injector when the whole system had come to rest
     with a datagram still sitting in open socket k's buffer: nobody is reading that socket.  In
     the model the receiver of an open socket is always running, and a running receiver is either
     in ReadFrom or parked in the send of a timeout error on a FULL queue: an N record for an open
     socket while the model's queue has room is rejected (so is, by the rule for X, a receiver that
     quietly returned after an overflow: the socket's later datagrams produce N).  At the end of the
     log every socket is closed and the receiver of every closed socket must have exited (one X per socket).
   * Server address: the history names the server IP as the reference resolved it ([rip]: what
     net.ResolveIPAddr returned for the host part, any family) and the table [dtab] of the distinct
     (IP bytes, zone) destinations the fake sockets were handed; every W record carries the index of
     its destination in that table.  The model's address list is addrs of the model's
     ResolveUDPHopAddr on the same resolver result, and a W record is accepted only if the
     destination the model's WriteTo hands over in the current state (astep: Addrs[addrIndex], the
     whole address) has that port, an IP equal to the recorded one in the sense of net.IP.Equal
     (4-byte and 16-byte forms of one IPv4 address are the same address) and the recorded zone.
     CAddr: ResolveUDPHopAddr alone; error class, IP, Ports and the list returned by addrs() (length,
     ports in order, the distinct (IP, zone) pairs in it) against the model's.
   * EAs k p n stands for n consecutive records A k p, A k (p+1), ...; ERs rid p n for n consecutive
     pairs RS rid, R rid (pkt p); RS (rid+1), R (rid+1) (pkt (p+1)); ...  (overflow histories hold
     thousands of them). *)
From Hy Require Import lib.Harness gen.ParamsC19 model.C19_PortUnion model.C19_Hop model.C19_Recv model.C19_Addr.
From Coq Require Import ZArith Bool.
Local Open Scope N_scope.

Definition range_eqb (a b : range) : bool := (fst a =? fst b) && (snd a =? snd b).
Fixpoint ranges_eqb (a b : list range) : bool :=
  match a, b with
  | [], [] => true
  | x :: a', y :: b' => range_eqb x y && ranges_eqb a' b'
  | _, _ => false
  end.

(* order-sensitive checksum without modular arithmetic: (sum (p+1), sum of the running sums) *)
Definition ports_hash (l : list N) : N * N :=
  fold_left (fun ab p => let a := fst ab + p + 1 in (a, snd ab + a)) l (0, 0).

Fixpoint bools_eqb (a b : list bool) : bool :=
  match a, b with
  | [], [] => true
  | x :: a', y :: b' => Bool.eqb x y && bools_eqb a' b'
  | _, _ => false
  end.

Definition union_obs_ok (u : list range) (np : N) (ph : N * N) (probe : list N) (cont : list bool) : bool :=
  let ps := ports u in
  let h := ports_hash ps in
  (N.of_nat (length ps) =? np) && (fst h =? fst ph) && (snd h =? snd ph) && bools_eqb (map (contains u) probe) cont.

Inductive ev :=
| EL (ok : bool) (id : nat) (r : nat)
| EC (k : nat) (err : bool)     (* socket k . Close() was called; err: it reported an error *)
| ES (k : nat) (kd : setkind) (v : Z)
| EW (k : nat) (port : N) (d : N) (di : nat)   (* di: index of the destination's (IP, zone) in the history's table *)
| EA (k : nat) (p : N)
| ET (k : nat)
| ED (k : nat)
| ERS (rid : nat)                (* a ReadFrom call is about to start *)
| ER (rid : nat) (r : ret)        (* that call returned *)
| EWC
| ESN (prev : option nat) (cur : nat) (idx : nat) (closed : bool) (qlen : option nat) (nopen : nat)
| EHN
| ECL2
| ECR (err : bool)               (* a Close started before any Close had returned has returned err / nil *)
| EX (k : nat)                   (* socket k's ReadFrom reported "closed" to its receiver, which returns *)
| EN (k : nat)                   (* at rest, a datagram sits in open socket k's buffer and nobody takes it *)
| EAs (k : nat) (p : N) (n : nat)      (* n records EA k p, EA k (p+1), ... *)
| ERs (rid : nat) (p : N) (n : nat).   (* n pairs ERS rid; ER rid (RPkt p), with rid and p counting up *)

Inductive case :=
| CPU (s : list byte) (exp : option (list range)) (np : N) (ph : N * N) (probe : list N) (cont : list bool)
| CNorm (u : list range) (exp : list range) (np : N) (ph : N * N) (probe : list N) (cont : list bool)
| CIval (mn mx : Z) (err : bool) (nmin nmax : Z) (draws : list Z)
| CHop (expr : list byte) (rip : list byte) (dtab : list (list byte * list byte))
       (ctor_ok : bool) (r0 : nat) (cerrs : list nat) (evs : list ev) (census : list (bool * N))
| CAddr (portstr : list byte) (split_ok res_ok : bool) (rip rzone : list byte)   (* what the two library calls returned *)
        (errk : N) (ip : list byte) (np : N) (ph : N * N)                         (* ResolveUDPHopAddr: error class, IP, Ports *)
        (na : N) (ah : N * N) (dtab : list (list byte * list byte)).              (* addrs(): length, ports, distinct (IP, zone) *)

Definition kd_eqb (a b : setkind) : bool :=
  match a, b with
  | SDL, SDL | SRDL, SRDL | SWDL, SWDL | SRB, SRB | SWB, SWB => true
  | _, _ => false
  end.

Definition ret_eqb (a b : ret) : bool :=
  match a, b with
  | RNil, RNil | RWrote, RWrote | RClosed, RClosed | RTimeout, RTimeout | RPanic, RPanic | RSockErr, RSockErr => true
  | RPkt x, RPkt y => x =? y
  | _, _ => false
  end.

Definition locked_out (o : out) : bool := match o with ORet _ => false | _ => true end.

Definition ev_matches (e : ev) (o : out) : bool :=
  match e, o with
  | EL ok _ _, OListen ok' => Bool.eqb ok ok'
  | EC k e, OSockClose k' e' => Nat.eqb k k' && Bool.eqb e e'
  | ES k kd v, OSockSet k' kd' v' => Nat.eqb k k' && kd_eqb kd kd' && (v =? v')%Z
  | EW k p d _, OSockWrite k' p' d' => Nat.eqb k k' && (p =? p') && (d =? d')
  | _, _ => false
  end.

Definition opt_nat_eqb (a b : option nat) : bool :=
  match a, b with
  | Some x, Some y => Nat.eqb x y
  | None, None => true
  | _, _ => false
  end.

Definition count_open (l : list sock) : nat := length (filter s_open l).

(* replay state: state of the extended machine (hop LTS + receivers); the locked section in
   progress with the number of its boundary calls already seen; whether the closing window (see
   above) is open; the value returned by the Close that did the closing, until its caller's CLR
   record has been seen *)
Definition rstate : Type := (xst * option (action * nat) * bool * option ret)%type.

Definition ret_of_outs (outs : list out) : option ret :=
  match filter (fun o => negb (locked_out o)) outs with
  | [ORet r] => Some r
  | _ => None
  end.

(* same receivers, new state of the hop LTS *)
Definition reb (x : xst) (s : st) : xst := mkX s (alive x).

(* the destination of a recorded socket write against the one the model's WriteTo hands over in state s *)
Definition write_dest_ok (az : list udpaddr) (ce : nat -> bool) (dtab : list (list byte * list byte)) (s : st) (e : ev) : bool :=
  match e with
  | EW k p d di =>
      match nth_error dtab di with
      | Some (oip, oz) =>
          existsb (fun o => match o with
                            | AOWrite _ dst _ => ip_equal (ua_ip dst) oip && bytes_eq (ua_zone dst) oz && (ua_port dst =? p)
                            | AOut _ => false
                            end)
                  (snd (astep az ce s (AWrite d)))
      | None => false
      end
  | _ => true
  end.

Section Replay.
Variable wd : st -> ev -> bool.      (* [write_dest_ok] of the history's address list and destination table *)

Definition locked (ps : list N) (ce : nat -> bool) (x : xst) (pend : option (action * nat)) (cr : option ret)
                  (e : ev) (a0 : action) : option rstate :=
  let '(a, n) := match pend with Some an => an | None => (a0, O) end in
  let '(x', outs) := xstep ps ce x (XAct a) in
  let em := filter locked_out outs in
  match nth_error em n with
  | Some o =>
      if ev_matches e o && wd (base x) e
      then Some (if Nat.eqb (S n) (length em)
                 then if closed (base x') && negb (closed (base x))
                      then (x', None, true, ret_of_outs outs)      (* last record of Close opens the window *)
                      else (x', None, false, cr)
                 else (x, Some (a, S n), false, cr))
      else None
  | None => None
  end.

Definition unlocked_step (ps : list N) (ce : nat -> bool) (x : xst) (a : action) (expect : list out) : option xst :=
  let '(x', outs) := xstep ps ce x (XAct a) in
  match outs, expect with
  | [], [] => Some x'
  | [ORet r], [ORet r'] => if ret_eqb r r' then Some x' else None
  | _, _ => None
  end.

(* socket k is closed, or the section in progress closes it *)
Definition closed_or_closing (ps : list N) (ce : nat -> bool) (s : st) (pend : option (action * nat)) (k : nat) : bool :=
  negb (sock_open (socks s) k) ||
  match pend with Some (a, _) => negb (sock_open (socks (fst (step ps ce s a))) k) | None => false end.

Definition rstep (ps : list N) (ce : nat -> bool) (rs : rstate) (e : ev) : option rstate :=
  let '(x, pend, cw, cr) := rs in
  let s := base x in
  match e with
  | EL ok id r =>
      match pend with
      | Some _ => None                               (* a listen never comes inside another section *)
      | None => if negb ok || Nat.eqb id (length (socks s)) then locked ps ce x pend cr e (AHop ok r) else None
      end
  | EC k err => locked ps ce x pend cr e AClose
  | ES k kd v => locked ps ce x pend cr e (ASet kd v)
  | EW k p d _ => match pend with Some _ => None | None => locked ps ce x pend cr e (AWrite d) end
  | EA k p =>
      (* one turn of socket k's receiver: it must be running *)
      if recv_alive x k then Some (fst (xstep ps ce x (XRecv k (RData p))), pend, cw, cr) else None
  | ET k =>
      if recv_alive x k then Some (fst (xstep ps ce x (XRecv k RTimeoutErr)), pend, cw, cr) else None
  | ED k => if closed_or_closing ps ce s pend k then Some rs else None
  | EX k =>
      (* the fake sockets fail permanently only once closed; a receiver exits once *)
      if closed_or_closing ps ce s pend k && recv_alive x k
      then Some (fst (xstep ps ce x (XRecv k RPermErr)), pend, cw, cr) else None
  | EN k =>
      (* nobody reads socket k although the system is at rest: impossible for a running receiver of an
         open socket unless it is parked in a send on a full queue *)
      if recv_alive x k && sock_open (socks s) k && (length (queue s) <? packetQueueSize)%nat then None else Some rs
  | ERS rid =>
      (* the call's closed-first check happens after this entry; placing it here when the conn is
         still open is one of the schedules of the LTS and leaves both later outcomes possible *)
      if closed s then
        if cw then Some (reb x (with_armed s (rid :: armed s)), pend, cw, cr)   (* [AReadBegin rid] scheduled before [AClose] *)
        else Some rs
      else match unlocked_step ps ce x (AReadBegin rid) [] with Some x' => Some (x', pend, cw, cr) | None => None end
  | ER rid r =>
      let cw' := cw && negb (ret_eqb r RClosed) in
      if existsb (Nat.eqb rid) (armed s)
      then match unlocked_step ps ce x (AReadSelect rid (ret_eqb r RClosed)) [ORet r] with
           | Some x' => Some (x', pend, cw', cr) | None => None end
      else match unlocked_step ps ce x (AReadBegin rid) [ORet r] with
           | Some x' => Some (x', pend, cw', cr) | None => None end
  | EWC =>
      (* WriteTo found the conn closed (accepted only if the model's conn is closed) *)
      match unlocked_step ps ce x (AWrite 0) [ORet RClosed] with Some x' => Some (x', pend, false, cr) | None => None end
  | ESN p c i cl q no =>
      match pend with
      | Some _ => None
      | None =>
          if opt_nat_eqb p (prev s) && Nat.eqb c (cur s) && Nat.eqb i (idx s) && Bool.eqb cl (closed s) &&
             match q with Some n => Nat.eqb n (length (queue s)) | None => true end &&
             Nat.eqb no (count_open (socks s))
          then Some (x, None, false, cr) else None
      end
  | EHN =>
      (* a hop that found the conn closed: no boundary call at all *)
      if closed s then
        match xstep ps ce x (XAct (AHop true 0)) with (x', []) => Some (x', pend, false, cr) | _ => None end
      else None
  | ECL2 =>
      (* a Close that found the conn closed *)
      match unlocked_step ps ce x AClose [ORet RNil] with
      | Some x' => if closed s then Some (x', pend, false, cr) else None
      | None => None end
  | ECR err =>
      (* a Close has returned, so the conn is closed.  Either it is the Close that did the closing: the value
         the model's AClose returned (an error iff currentConn's Close failed) must be the one reported, once;
         or it found the conn closed: the model's AClose on a closed conn returns nil *)
      if negb (closed s) then None
      else
        let r := if err then RSockErr else RNil in
        match cr with
        | Some r0 => if ret_eqb r0 r then Some (x, pend, false, None)
                     else match unlocked_step ps ce x AClose [ORet r] with
                          | Some x' => Some (x', pend, false, cr) | None => None end
        | None => match unlocked_step ps ce x AClose [ORet r] with
                  | Some x' => Some (x', pend, false, cr) | None => None end
        end
  | EAs _ _ _ | ERs _ _ _ => None                     (* expanded by [rstep_x] *)
  end.

Fixpoint rep_arrivals (ps : list N) (ce : nat -> bool) (rs : rstate) (k : nat) (p : N) (n : nat) : option rstate :=
  match n with
  | O => Some rs
  | S n' => match rstep ps ce rs (EA k p) with
            | Some rs' => rep_arrivals ps ce rs' k (p + 1) n'
            | None => None
            end
  end.

Fixpoint rep_reads (ps : list N) (ce : nat -> bool) (rs : rstate) (rid : nat) (p : N) (n : nat) : option rstate :=
  match n with
  | O => Some rs
  | S n' => match rstep ps ce rs (ERS rid) with
            | Some rs1 => match rstep ps ce rs1 (ER rid (RPkt p)) with
                          | Some rs2 => rep_reads ps ce rs2 (S rid) (p + 1) n'
                          | None => None
                          end
            | None => None
            end
  end.

Definition rstep_x (ps : list N) (ce : nat -> bool) (rs : rstate) (e : ev) : option rstate :=
  match e with
  | EAs k p n => rep_arrivals ps ce rs k p n
  | ERs rid p n => rep_reads ps ce rs rid p n
  | _ => rstep ps ce rs e
  end.

(* returns the index of the first rejected event (Some i) or the final state *)
Fixpoint replay (ps : list N) (ce : nat -> bool) (rs : rstate) (i : nat) (l : list ev) : rstate + nat :=
  match l with
  | [] => inl rs
  | e :: t => match rstep_x ps ce rs e with
              | Some rs' => replay ps ce rs' (S i) t
              | None => inr i
              end
  end.

End Replay.

Fixpoint census_eqb (a : list sock) (b : list (bool * N)) : bool :=
  match a, b with
  | [], [] => true
  | x :: a', (o, c) :: b' => Bool.eqb (s_open x) o && (s_closes x =? c) && census_eqb a' b'
  | _, _ => false
  end.

Fixpoint recv_census_ok (al : list bool) (l : list sock) : bool :=
  match al, l with
  | [], [] => true
  | a :: al', x :: l' => (negb a || s_open x) && recv_census_ok al' l'
  | _, _ => false
  end.

Definition ce_of (cerrs : list nat) (k : nat) : bool := existsb (Nat.eqb k) cerrs.

(* the model's ResolveUDPHopAddr on what the reference's library calls returned *)
Definition model_addr (portstr : list byte) (split_ok res_ok : bool) (rip rzone : list byte) : hopaddr + hoperr :=
  resolve_hop_addr (if split_ok then Some ([], portstr) else None) (fun _ => if res_ok then Some (rip, rzone) else None).

Definition hop_check (expr : list byte) (rip : list byte) (dtab : list (list byte * list byte))
                     (ctor_ok : bool) (r0 : nat) (cerrs : list nat) (evs : list ev)
                     (census : list (bool * N)) : bool :=
  match model_addr expr true true rip [] with
  | inr _ => false
  | inl ha =>
      let az := addrs ha in                              (* NewUDPHopPacketConn: addrs, err := addr.addrs() *)
      let ps := map ua_port az in
      match xinit ps ctor_ok r0 with
      | Ok x0 =>
          match replay (write_dest_ok az (ce_of cerrs) dtab) ps (ce_of cerrs) (x0, None, false, None) 0 evs with
          | inl (x, None, _, None) =>                  (* no section and no return value left open *)
              census_eqb (socks (base x)) census &&
              recv_census_ok (alive x) (socks (base x))   (* the receiver of every closed socket has exited (its X) *)
          | _ => false
          end
      | Err _ => negb ctor_ok && match evs, census with [], [] => true | _, _ => false end
      | Panic _ => false
      end
  end.

(* for diagnosis in replays: where the log is rejected *)
Definition hop_reject_at (expr : list byte) (rip : list byte) (dtab : list (list byte * list byte))
                         (ctor_ok : bool) (r0 : nat) (cerrs : list nat) (evs : list ev) : option nat :=
  match model_addr expr true true rip [] with
  | inr _ => Some O
  | inl ha => let az := addrs ha in
              let ps := map ua_port az in
              match xinit ps ctor_ok r0 with
              | Ok x0 => match replay (write_dest_ok az (ce_of cerrs) dtab) ps (ce_of cerrs) (x0, None, false, None) 0 evs with
                         | inr i => Some i | inl _ => None end
              | _ => None
              end
  end.

Definition herr_code (e : hoperr) : N := match e with HESplit => 1 | HEResolve => 2 | HEPort => 3 end.

Definition hash_eqb (a b : N * N) : bool := (fst a =? fst b) && (snd a =? snd b).

(* ResolveUDPHopAddr and addrs() alone.  Every address of the model's list carries the same (IP, zone),
   so the observed table of distinct pairs must be that one pair (up to net.IP.Equal) whenever the list
   is not empty. *)
Definition addr_check (portstr : list byte) (split_ok res_ok : bool) (rip rzone : list byte) (errk : N) (ip : list byte)
                      (np : N) (ph : N * N) (na : N) (ah : N * N) (dtab : list (list byte * list byte)) : bool :=
  match model_addr portstr split_ok res_ok rip rzone with
  | inr e => errk =? herr_code e
  | inl a =>
      let az := addrs a in
      (errk =? 0) && ip_equal (ha_ip a) ip &&
      (N.of_nat (length (ha_ports a)) =? np) && hash_eqb (ports_hash (ha_ports a)) ph &&
      (N.of_nat (length az) =? na) && hash_eqb (ports_hash (map ua_port az)) ah &&
      match az with
      | [] => match dtab with [] => true | _ => false end
      | dst :: _ =>
          negb (match dtab with [] => true | _ => false end) &&
          forallb (fun e => ip_equal (ua_ip dst) (fst e) && bytes_eq (ua_zone dst) (snd e)) dtab
      end
  end.

Definition opt_ranges_eqb (a b : option (list range)) : bool :=
  match a, b with
  | Some x, Some y => ranges_eqb x y
  | None, None => true
  | _, _ => false
  end.

Definition draw_ok (mn mx v : Z) : bool :=
  match next_interval mn mx (v - mn) with
  | Ok w => (w =? v)%Z
  | _ => false
  end.

Definition check (c : case) : bool :=
  match c with
  | CPU s exp np ph probe cont =>
      let m := parse_port_union s in
      opt_ranges_eqb m exp &&
      union_obs_ok (match m with Some u => u | None => [] end) np ph probe cont
  | CNorm u exp np ph probe cont =>
      let m := normalize u in
      ranges_eqb m exp && union_obs_ok m np ph probe cont
  | CIval mn mx err nmin nmax draws =>
      match normalized mn mx with
      | None => err
      | Some (a, b) => negb err && (a =? nmin)%Z && (b =? nmax)%Z && forallb (draw_ok a b) draws
      end
  | CHop expr rip dtab ctor_ok r0 cerrs evs census => hop_check expr rip dtab ctor_ok r0 cerrs evs census
  | CAddr portstr split_ok res_ok rip rzone errk ip np ph na ah dtab =>
      addr_check portstr split_ok res_ok rip rzone errk ip np ph na ah dtab
  end.

Definition mismatches (l : list case) : list nat := mism_from check 0 l.

(* ---------------- self-tests of the acceptor on small logs (ports "443", one successful hop).
   A record made by the caller after its call returned may land inside another goroutine's section
   (here a SetDeadline racing a WriteTo / Close / hop on a closed conn): accepted.  The same
   records while the conn is still open: rejected. *)
Definition ex_srv : list byte := [x7f; x00; x00; x01].
Definition hop_check0 (expr : list byte) := hop_check expr ex_srv [(ex_srv, [])].

Example accept_late_returns_inside_a_section :
  hop_check0 [x34;x34;x33] true 0%nat []
    [EL true 1%nat 0%nat; EC 0%nat false; EX 0%nat; EC 1%nat false;
     ES 0%nat SDL 0%Z; EWC; EX 1%nat; ECL2; EHN; ECR false; ES 1%nat SDL 0%Z]
    [(false, 1); (false, 1)] = true.
Proof. vm_compute. reflexivity. Qed.

Example reject_closed_returns_on_an_open_conn :
  map (fun e => hop_check0 [x34;x34;x33] true 0%nat [] [EL true 1%nat 0%nat; ES 0%nat SDL 0%Z; e; ES 1%nat SDL 0%Z]
                          [(true, 0); (true, 0)])
      [EWC; ECL2; EHN; EA 0%nat 7] = [false; false; false; true].
Proof. vm_compute. reflexivity. Qed.

Example reject_section_with_a_missing_or_foreign_record :
  map (fun l => hop_check0 [x34;x34;x33] true 0%nat [] (EL true 1%nat 0%nat :: EC 0%nat false :: EC 1%nat false :: l ++ [ECR false; EX 1%nat; EX 0%nat])
                          [(false, 1); (false, 1)])
      [[ES 0%nat SDL 0%Z; EWC]; [ES 0%nat SDL 0%Z; EWC; ES 1%nat SRDL 0%Z];
       [ES 0%nat SDL 0%Z; EWC; EW 1%nat 443 0 0%nat]; [ES 0%nat SDL 0%Z; EWC; ES 1%nat SDL 0%Z]]
  = [false; false; false; true].
Proof. vm_compute. reflexivity. Qed.

(* closing window: a ReadFrom started right after Close's last socket call may still get a queued
   packet; once anything shows that Close is over, it must return closed *)
Example closing_window :
  map (fun l => hop_check0 [x34;x34;x33] true 0%nat [] (EA 0%nat 7 :: EC 0%nat false :: EX 0%nat :: l ++ [ECR false]) [(false, 1)])
      [[ERS 0%nat; ER 0%nat (RPkt 7)];
       [ERS 0%nat; ER 0%nat RClosed];
       [EWC; ERS 0%nat; ER 0%nat (RPkt 7)];
       [ESN None 0%nat 0%nat true None 0%nat; ERS 0%nat; ER 0%nat (RPkt 7)];
       [ERS 0%nat; ER 0%nat RClosed; ERS 1%nat; ER 1%nat (RPkt 7)];
       [EWC; ERS 0%nat; ER 0%nat RClosed]]
  = [true; true; false; false; false; true].
Proof. vm_compute. reflexivity. Qed.

(* socket faults (one successful hop; Close has to close prev = 0 and cur = 1): Close returns cur's
   error and drops prev's; its return value is reported exactly once; a Close that stops after a
   failing socket (no second C record) is rejected; a record that disagrees with the script is
   rejected *)
Example close_faults :
  map (fun cl => hop_check0 [x34;x34;x33] true 0%nat (fst cl) (EL true 1%nat 0%nat :: snd cl ++ [EX 0%nat; EX 1%nat]) [(false, 1); (false, 1)])
      [([1%nat], [EC 0%nat false; EC 1%nat true; ECR true]);
       ([1%nat], [EC 0%nat false; EC 1%nat true; ECR false]);
       ([0%nat], [EC 0%nat true; EC 1%nat false; ECR false]);
       ([0%nat], [EC 0%nat true; EC 1%nat false; ECR true]);
       ([0%nat], [EC 0%nat true; ECR true]);
       ([0%nat; 1%nat], [EC 0%nat true; EC 1%nat true; ECR false; ECR true; ECL2]);
       ([0%nat; 1%nat], [EC 0%nat true; EC 1%nat true; ECR true; ECR true]);
       ([1%nat], [EC 0%nat false; EC 1%nat true]);
       ([1%nat], [EC 0%nat false; EC 1%nat false; ECR false]);
       ([], [ECR false]);
       ([], [EC 0%nat false; EC 1%nat false; ECR false; EHN; EWC])]
  = [true; false; true; false; false; true; false; false; false; false; true].
Proof. vm_compute. reflexivity. Qed.

(* receivers (ports "443"; [fill n] = n datagrams on socket 0 taken by its receiver, [reads n] = n
   ReadFrom calls returning them).  Socket 0 stays open until the final Close.
   1 the queue overflows (three datagrams dropped), is drained, a later datagram on the same socket
     is taken and read: accepted;
   2 the same, but after the drain a datagram sits in the open socket and nobody takes it: rejected
     (the receiver of an open socket never stops; an overflow costs only the packets that met it);
   3 nobody takes it while the queue is still full: accepted (a receiver may be parked in a send);
   4 a receiver that exits while its socket is open: rejected;  5 a datagram taken by a receiver
     that has exited: rejected;  6 a closed socket whose receiver never exits: rejected;
   7 nobody reads the previous socket after a hop (queue empty): rejected. *)
Definition fill (n : nat) : ev := EAs 0%nat 0 n.
Definition reads (n : nat) : ev := ERs 0%nat 0 n.
Definition fin0 : list ev := [EC 0%nat false; EX 0%nat; ECR false].
Example receivers :
  map (fun l => hop_check0 [x34;x34;x33] true 0%nat [] l [(false, 1)])
      [[fill (packetQueueSize + 3); reads packetQueueSize; EA 0%nat 5000; ERS 5000%nat; ER 5000%nat (RPkt 5000)] ++ fin0;
       [fill (packetQueueSize + 3); reads packetQueueSize; EN 0%nat] ++ fin0;
       [fill (packetQueueSize + 3); EN 0%nat; reads packetQueueSize] ++ fin0;
       [fill 2; EX 0%nat; EC 0%nat false; ECR false];
       [EC 0%nat false; EX 0%nat; EA 0%nat 1; ECR false];
       [fill 2; EC 0%nat false; ECR false]]
  = [true; false; true; false; false; false] /\
  map (fun l => hop_check0 [x34;x34;x33] true 0%nat [] ([EL true 1%nat 0%nat] ++ l ++ [EC 0%nat false; EC 1%nat false; EX 0%nat; EX 1%nat; ECR false])
                          [(false, 1); (false, 1)])
      [[EN 0%nat]; [EN 1%nat]; [EA 0%nat 0; EA 1%nat 1]; [EN 2%nat]]
  = [false; false; true; true].
Proof. vm_compute. split; reflexivity. Qed.

(* server address (ports "443,444"; the server is 2001:db8::1; one write before and one after a hop whose draw moves
   the index to 444).  The destination table holds the server's IP (entry 0), nil (entry 1), the loopback
   address (2), the server's IP with a zone (3).  1 both writes to entry 0: accepted;  2 a write to a nil IP:
   rejected;  3 to another host: rejected;  4 to a zone the address does not have: rejected;  5 an index outside
   the table: rejected;  6 the right IP on the other port of the set: rejected (the model's index says 444).
   And IPv4: a server known in 16-byte form written to in 4-byte form is the same destination. *)
Definition ex_srv6 : list byte := [x20; x01; x0d; xb8; x00; x00; x00; x00; x00; x00; x00; x00; x00; x00; x00; x01].
Definition ex_dtab6 : list (list byte * list byte) :=
  [(ex_srv6, []); ([], []); ([x00; x00; x00; x00; x00; x00; x00; x00; x00; x00; x00; x00; x00; x00; x00; x01], []); (ex_srv6, [x6c; x6f])].
Example server_address :
  map (fun w => hop_check [x34;x34;x33;x2c;x34;x34;x34] ex_srv6 ex_dtab6 true 0%nat []
                  ([EW 0%nat 443 0 0%nat; EL true 1%nat 1%nat] ++ [w] ++ [EC 0%nat false; EC 1%nat false; EX 0%nat; EX 1%nat; ECR false])
                  [(false, 1); (false, 1)])
      [EW 1%nat 444 1 0%nat; EW 1%nat 444 1 1%nat; EW 1%nat 444 1 2%nat; EW 1%nat 444 1 3%nat; EW 1%nat 444 1 4%nat; EW 1%nat 443 1 0%nat]
  = [true; false; false; false; false; false] /\
  map (fun d => hop_check [x34;x34;x33] (v4_in_v6_prefix ++ [x0a; x01; x02; x03]) [d] true 0%nat []
                  [EW 0%nat 443 0 0%nat; EC 0%nat false; EX 0%nat; ECR false] [(false, 1)])
      [([x0a; x01; x02; x03], []); (v4_in_v6_prefix ++ [x0a; x01; x02; x03], []); ([x0a; x01; x02; x04], []); ([], [])]
  = [true; true; false; false].
Proof. vm_compute. split; reflexivity. Qed.

(* ResolveUDPHopAddr alone ("5,7-8" = three ports, hash (23, 43)): the IPv6 server's list; a list whose entries
   carry a nil IP; a 4-byte rendering of an IPv4 server resolved in 16 bytes; error classes *)
Example resolved_address :
  map (fun c => check c)
      [CAddr [x35;x2c;x37;x2d;x38] true true ex_srv6 [] 0 ex_srv6 3 (23, 43) 3 (23, 43) [(ex_srv6, [])];
       CAddr [x35;x2c;x37;x2d;x38] true true ex_srv6 [] 0 ex_srv6 3 (23, 43) 3 (23, 43) [([], [])];
       CAddr [x35;x2c;x37;x2d;x38] true true ex_srv6 [x6c; x6f] 0 ex_srv6 3 (23, 43) 3 (23, 43) [(ex_srv6, [x6c; x6f])];
       CAddr [x35;x2c;x37;x2d;x38] true true (v4_in_v6_prefix ++ [x0a; x01; x02; x03]) [] 0 [x0a; x01; x02; x03] 3 (23, 43) 3 (23, 43)
             [([x0a; x01; x02; x03], [])];
       CAddr [x35;x2c;x37;x2d;x38] true true ex_srv6 [] 0 ex_srv6 3 (23, 43) 2 (14, 20) [(ex_srv6, [])];
       CAddr [x35;x2c;x37;x2d] true true ex_srv6 [] 3 [] 0 (0, 0) 0 (0, 0) [];
       CAddr [x35;x2c;x37;x2d] true true ex_srv6 [] 0 ex_srv6 1 (6, 6) 1 (6, 6) [(ex_srv6, [])];
       CAddr [x35] true false [] [] 2 [] 0 (0, 0) 0 (0, 0) [];
       CAddr [x35] false false [] [] 1 [] 0 (0, 0) 0 (0, 0) [];
       CAddr [x35] true false [] [] 0 [] 1 (6, 6) 1 (6, 6) [([], [])]]
  = [true; false; false; true; false; true; false; true; true; false].
Proof. vm_compute. reflexivity. Qed.
