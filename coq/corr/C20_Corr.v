(* C20 correspondence: how one observed implementation result is compared with the model
   (instance H := sha256).  Used by the generated run/C20/cases_*.v files; not part of any theorem. *)
From Hy Require Import lib.Harness model.C20_Punch model.C20_Owner.
From Coq Require Import ZArith.
Local Open Scope N_scope.

(* observed result of a codec call *)
Inductive cres :=
| RShort | RLong | RMeta | RInvalid     (* error classes recognised by the harness *)
| RAnyErr                               (* an error the harness could not classify *)
| RPanic
| RDec (ty : N) (pad : nat)
| REnc (packet : list byte).

Definition errc_matches (e : errc) (r : cres) : bool :=
  match r, e with
  | RAnyErr, _ => true
  | RShort, EShort | RLong, ELimit | RMeta, EOther | RInvalid, EInvalid => true
  | _, _ => false
  end.

Definition dec_matches (m : Res (N * nat)) (r : cres) : bool :=
  match m, r with
  | Ok (ty, pad), RDec ty' pad' => (ty =? ty') && Nat.eqb pad pad'
  | Err e, _ => errc_matches e r
  | Panic _, RPanic => true
  | _, _ => false
  end.

(* EncodePunchPacket draws salt and padding at random: they are read back from the packet it
   returned (salt = first punchSaltLen bytes, padding = the unmasked bytes after the header) and
   given to the model, which must then produce the same packet; the packet must also decode to
   (ty, |padding|) under the same metadata. *)
Definition enc_matches (ty : N) (m : rmeta) (r : cres) : bool :=
  match r with
  | REnc packet =>
      match decode_meta m with
      | Ok (_, key) =>
          let salt := firstn punchSaltLen packet in
          match xor_punch sha256 (skipn punchSaltLen packet) key salt with
          | Ok plain =>
              let padding := skipn punchHeaderLen plain in
              match encode_punch256 ty m padding salt with
              | Ok packet' => bytes_eq packet packet' && Nat.leb (length padding) MaxPunchPadding &&
                              dec_matches (decode_punch256 packet m) (RDec ty (length padding))
              | _ => false
              end
          | _ => false
          end
      | _ => false
      end
  | _ =>
      (* an error return: the model must fail the same way whatever the random draws *)
      match encode_punch256 ty m [] (repeat x00 punchSaltLen) with
      | Err e => errc_matches e r
      | Panic _ => match r with RPanic => true | _ => false end
      | Ok _ => false
      end
  end.

(* ---- demultiplexer histories ---- *)
Record dpkt := mkP { k_err : bool;            (* the wrapped ReadFrom returns an error here *)
                     k_bytes : list byte;     (* datagram as delivered (already cut to the buffer) *)
                     k_addr : addr;
                     k_stun : bool }.         (* pion's answer for k_bytes (the oracle) *)

Inductive dop :=
| DAdd (id : list byte) (m : rmeta) (ok : bool)
| DRm (id : list byte)
| DPkts (ps : list dpkt) (ret : list (N * Z * bool))  (* per ReadFrom return: digest of p[:n], port of addr, err *)
| DDrain (evs : list pev) (stuns : list N).           (* drained Events(), digests of drained STUN Message.Raw *)

(* what a started Respond was observed to do once everything had settled *)
Inductive robs :=
| ObsBlocked              (* registered and waiting in its select *)
| ObsErr (e : rerr)       (* returned at once through this validation exit *)
| ObsDup                  (* returned at once: duplicate id *)
| ObsOther.               (* returned at once with an error the harness could not classify: never matches *)

Definition rerr_eqb (a b : rerr) : bool :=
  match a, b with
  | REId, REId | REMeta, REMeta | RECand, RECand | RETimeout, RETimeout | REInterval, REInterval => true
  | _, _ => false
  end.

(* ServerPuncher histories.  At most one Respond is waiting at a time (SOpRStart .. SOpREnd); calls
   that return at once (a validation exit, duplicate id) may be made while it waits.  The attempts
   registered by SOpAdd stand for other attempts in progress. *)
Inductive sop :=
| SOpAdd (id : list byte) (m : rmeta) (ok : bool)
| SOpRm (id : list byte) (evs : list pev)           (* what was waiting in the channel, drained just before removeAttempt *)
| SOpPkts (ps : list dpkt) (ret : list (N * Z * bool))
    (* datagrams read through the conn, every event dispatched (and taken by the Respond in flight)
       before the next one is read; per ReadFrom return: digest of p[:n], port of addr, err *)
| SOpTake (id : list byte) (evs : list pev)         (* everything waiting in that attempt's channel *)
| SOpRStart (a : rargs) (r : robs)
    (* Respond called with these arguments (ra_ncand = what candidatePunchAddrs returned for the
       address lists of the call: oracle) and observed once it is blocked or has returned *)
| SOpStop
    (* the context given to NewServerPuncher is cancelled and the dispatch goroutine has returned *)
| SOpREnd (noev : bool) (e : option pev).
    (* the Respond in flight is observed to its end: noev = it was still waiting and ended by
       timeout / cancellation; otherwise e = the event it returned with (None: it never registered) *)

(* ---- the server runtime that owns the socket (harness in app/cmd): the raw-socket log ---- *)
(* where on the call stack the caller of ReadFrom / SetReadDeadline on the raw socket was found *)
Inductive osite := OsQuic | OsStartup | OsReRegister | OsConnect | OsOther.

Inductive rlog :=
| LServe                                                   (* startRealmServerRuntime has returned, the QUIC-side reader starts *)
| LRead (r : reader) (st : osite) (p : list byte) (port : Z) (stun : bool)
    (* a ReadFrom on the raw socket returned datagram p from 127.0.0.1:port to r; stun = the oracle *)
| LDeadline (r : reader) (st : osite) (on : bool)          (* SetReadDeadline on the raw socket (on = a non-zero time) *)
| LErr (r : reader).                                       (* a ReadFrom on the raw socket returned a timeout to r *)

Inductive case :=
| CEnc (ty : N) (m : rmeta) (r : cres)
| CDec (packet : list byte) (m : rmeta) (r : cres)
| CDemux (cap : Z) (ops : list dop)
| CServer (cap : Z) (ops : list sop)
| CRt (id : list byte) (m : rmeta) (log : list rlog) (quic : list N).
    (* one history of the realm server runtime with attempt (id, m) registered on the conn throughout;
       quic = what the QUIC-side ReadFrom returned, as indices into log *)

Definition pev_eqb (a b : pev) : bool :=
  bytes_eq (e_id a) (e_id b) && bytes_eq (fst (e_from a)) (fst (e_from b)) &&
  (snd (e_from a) =? snd (e_from b))%Z && (e_ty a =? e_ty b) && Nat.eqb (e_pad a) (e_pad b).

Fixpoint pevs_eqb (a b : list pev) : bool :=
  match a, b with
  | [], [] => true
  | x :: a', y :: b' => pev_eqb x y && pevs_eqb a' b'
  | _, _ => false
  end.

(* the recorded resolution of the map iteration order: the candidate that was observed *)
Fixpoint index_of (obs : list pev) (cs : list pev) (i : nat) : nat :=
  match cs with
  | [] => 0%nat
  | c :: t => if existsb (pev_eqb c) obs then i else index_of obs t (S i)
  end.
Definition pick_obs (obs : list pev) (cs : list pev) : nat := index_of obs cs 0.

Definition all_obs (ops : list dop) : list pev :=
  flat_map (fun o => match o with DDrain evs _ => evs | _ => [] end) ops.
Definition stun_set (ops : list dop) : list (list byte) :=
  flat_map (fun o => match o with
                     | DPkts ps _ => flat_map (fun k => if k_stun k && negb (k_err k) then [k_bytes k] else []) ps
                     | _ => [] end) ops.
Definition nonstun_set (ops : list dop) : list (list byte) :=
  flat_map (fun o => match o with
                     | DPkts ps _ => flat_map (fun k => if k_stun k || k_err k then [] else [k_bytes k]) ps
                     | _ => [] end) ops.

Definition oracle (st : list (list byte)) (p : list byte) : bool := existsb (bytes_eq p) st.

Definition to_uitem (obs : list pev) (k : dpkt) : uitem :=
  if k_err k then UErr else UPkt (k_bytes k) (k_addr k) (pick_obs obs).

Definition rkey (r : rres) : N * Z * bool :=
  match r with
  | RPkt p from => (digest p, a_port from, false)
  | RErr => (0, 0%Z, true)
  | RBlocked => (0, (-1)%Z, true)
  end.

(* call ReadFrom until the scripted conn is exhausted *)
Fixpoint read_all (orc : list byte -> bool) (fuel : nat) (s : dstate) (q : list uitem)
         (acc : list (N * Z * bool)) : option (dstate * list (N * Z * bool)) :=
  match fuel with
  | O => None
  | S f =>
      match read_from256 orc s q with
      | Ok (s', q', RBlocked) => Some (s', rev acc)
      | Ok (s', q', r) => read_all orc f s' q' (rkey r :: acc)
      | _ => None
      end
  end.

Fixpoint take_all_ev (orc : list byte -> bool) (fuel : nat) (s : dstate) (acc : list pev) : dstate * list pev :=
  match fuel with
  | O => (s, rev acc)
  | S f => match step256 orc s ATakeEv with
           | Ok (s', OEv (Some e)) => take_all_ev orc f s' (e :: acc)
           | _ => (s, rev acc)
           end
  end.

Fixpoint take_all_stun (orc : list byte -> bool) (fuel : nat) (s : dstate) (acc : list N) : dstate * list N :=
  match fuel with
  | O => (s, rev acc)
  | S f => match step256 orc s ATakeStun with
           | Ok (s', OStunEv (Some e)) => take_all_stun orc f s' (digest e :: acc)
           | _ => (s, rev acc)
           end
  end.

Definition key_eqb (a b : N * Z * bool) : bool :=
  (fst (fst a) =? fst (fst b)) && (snd (fst a) =? snd (fst b))%Z && Bool.eqb (snd a) (snd b).
Fixpoint keys_eqb (a b : list (N * Z * bool)) : bool :=
  match a, b with
  | [], [] => true
  | x :: a', y :: b' => key_eqb x y && keys_eqb a' b'
  | _, _ => false
  end.

Fixpoint drun (orc : list byte -> bool) (obs : list pev) (s : dstate) (ops : list dop) : bool :=
  match ops with
  | [] => true
  | DAdd id m ok :: t =>
      match step256 orc s (AAdd id m) with
      | Ok (s', OAdd ok') => Bool.eqb ok ok' && drun orc obs s' t
      | _ => false
      end
  | DRm id :: t =>
      match step256 orc s (ARemove id) with
      | Ok (s', _) => drun orc obs s' t
      | _ => false
      end
  | DPkts ps ret :: t =>
      match read_all orc (S (S (length ps))) s (map (to_uitem obs) ps) [] with
      | Some (s', ret') => keys_eqb ret ret' && drun orc obs s' t
      | None => false
      end
  | DDrain evs stuns :: t =>
      let '(s1, evs') := take_all_ev orc (S (length (d_ev s))) s [] in
      let '(s2, st') := take_all_stun orc (S (length (d_stun s1))) s1 [] in
      pevs_eqb evs evs' && N_list_eqb stuns st' && drun orc obs s2 t
  end.

(* the oracle must be a function of the bytes, and imply the RFC 5389 header condition *)
Definition oracle_sane (ops : list dop) : bool :=
  forallb stun_hdr_ok (stun_set ops) &&
  forallb (fun p => negb (oracle (stun_set ops) p)) (nonstun_set ops).

(* ---- ServerPuncher ---- *)
Definition s_all_obs (ops : list sop) : list pev :=
  flat_map (fun o => match o with SOpTake _ evs => evs | SOpRm _ evs => evs | SOpREnd _ (Some e) => [e] | _ => [] end) ops.
Definition s_stun_set (ops : list sop) : list (list byte) :=
  flat_map (fun o => match o with
                     | SOpPkts ps _ => flat_map (fun k => if k_stun k && negb (k_err k) then [k_bytes k] else []) ps
                     | _ => [] end) ops.

(* w = id of the Respond in flight that is still blocked in its select; got = the event it returned with *)
Fixpoint s_recv_all (orc : list byte -> bool) (obs : list pev) (s : sstate) (w : option (list byte)) (got : option pev)
         (ps : list dpkt) (acc : list (N * Z * bool))
  : option (sstate * option (list byte) * option pev * list (N * Z * bool)) :=
  match ps with
  | [] => Some (s, w, got, rev acc)
  | k :: t =>
      if k_err k then s_recv_all orc obs s w got t ((0, 0%Z, true) :: acc)
      else match sstep256 orc s (SConn (ARecv (k_bytes k) (k_addr k) (pick_obs obs))) with
           | Ok (s', SOConn (OPass p from)) => s_recv_all orc obs s' w got t ((digest p, a_port from, false) :: acc)
           | Ok (s', SOConn _) =>
               (* the dispatch goroutine (if it has not stopped: SDispatch does nothing then, the event
                  stays in the conn's queue) forwards the event before the next datagram is read ... *)
               match sstep256 orc s' SDispatch with
               | Ok (s'', _) =>
                   match w with
                   | None => s_recv_all orc obs s'' w got t acc
                   | Some id =>
                       (* ... and Respond, if the event is in its channel, takes it and returns
                          through its deferred removeAttempt *)
                       match sstep256 orc s'' (STake id) with
                       | Ok (s3, SOTake (Some e)) =>
                           match sstep256 orc s3 (SRemove id) with
                           | Ok (s4, _) => s_recv_all orc obs s4 None (Some e) t acc
                           | _ => None
                           end
                       | Ok (s3, _) => s_recv_all orc obs s3 w got t acc
                       | _ => None
                       end
                   end
               | _ => None
               end
           | _ => None
           end
  end.

Fixpoint s_take_all (orc : list byte -> bool) (fuel : nat) (s : sstate) (id : list byte) (acc : list pev)
  : sstate * list pev :=
  match fuel with
  | O => (s, rev acc)
  | S f => match sstep256 orc s (STake id) with
           | Ok (s', SOTake (Some e)) => s_take_all orc f s' id (e :: acc)
           | _ => (s, rev acc)
           end
  end.

(* PunchResult carries the source and the decoded packet, not the attempt id *)
Definition res_eqb (a b : pev) : bool :=
  bytes_eq (fst (e_from a)) (fst (e_from b)) && (snd (e_from a) =? snd (e_from b))%Z &&
  (e_ty a =? e_ty b) && Nat.eqb (e_pad a) (e_pad b).

Fixpoint srun_ops (orc : list byte -> bool) (obs : list pev) (s : sstate) (w : option (list byte)) (got : option pev)
         (ops : list sop) : bool :=
  match ops with
  | [] => true
  | SOpAdd id m ok :: t =>
      match sstep256 orc s (SAdd id m) with
      | Ok (s', SOAdd ok') => Bool.eqb ok ok' && srun_ops orc obs s' w got t
      | _ => false
      end
  | SOpRm id evs :: t =>
      let '(s0, evs') := s_take_all orc (S defaultServerPunchEventBuffer) s id [] in
      pevs_eqb evs evs' &&
      match sstep256 orc s0 (SRemove id) with
      | Ok (s', _) => srun_ops orc obs s' w got t
      | _ => false
      end
  | SOpPkts ps ret :: t =>
      match s_recv_all orc obs s w got ps [] with
      | Some (s', w', got', ret') => keys_eqb ret ret' && srun_ops orc obs s' w' got' t
      | None => false
      end
  | SOpTake id evs :: t =>
      let '(s', evs') := s_take_all orc (S defaultServerPunchEventBuffer) s id [] in
      pevs_eqb evs evs' && srun_ops orc obs s' w got t
  | SOpRStart a r :: t =>
      match respond_precheck a with
      | Ok (Some e) =>
          (* a validation exit: nothing happens on the server *)
          match r with ObsErr e' => rerr_eqb e e' | _ => false end && srun_ops orc obs s w got t
      | Ok None =>
          match sstep256 orc s (SAdd (ra_id a) (ra_meta a)) with
          | Ok (s', SOAdd true) =>
              match r, w, got with
              | ObsBlocked, None, None => srun_ops orc obs s' (Some (ra_id a)) None t
              | _, _, _ => false                       (* the harness never lets two Responds wait *)
              end
          | Ok (s', SOAdd false) =>
              (* duplicate: returns before the defer, the Respond that waits is not disturbed *)
              match r with ObsDup => true | _ => false end && srun_ops orc obs s' w got t
          | _ => false
          end
      | _ => false
      end
  | SOpStop :: t =>
      match sstep256 orc s SStop with
      | Ok (s', _) => srun_ops orc obs s' w got t
      | _ => false
      end
  | SOpREnd noev e :: t =>
      match w with
      | Some id =>
          (* still waiting: timeout / cancellation, then the deferred removeAttempt *)
          noev && match e with None => true | Some _ => false end &&
          match sstep256 orc s (SRemove id) with
          | Ok (s', _) => srun_ops orc obs s' None None t
          | _ => false
          end
      | None =>
          negb noev &&
          match got, e with
          | Some a, Some b => res_eqb a b
          | None, None => true
          | _, _ => false
          end && srun_ops orc obs s None None t
      end
  end.

(* ---- runtime histories ---- *)
Definition to_site (st : osite) : option site :=
  match st with OsStartup => Some SiteStartup | OsReRegister => Some SiteReRegister | OsConnect => Some SiteConnect | _ => None end.

Definition phase_eqb (a b : phase) : bool :=
  match a, b with PStartup, PStartup | PServing, PServing => true | _, _ => false end.

(* may r, found at st, touch the read side of the socket in phase ph?  Read off the model's
   transcription of server.go (site_how, site_phase), not off the run *)
Definition reader_allowed (ph : phase) (r : reader) (st : osite) : bool :=
  match r with
  | RQuic => match st, ph with OsQuic, PServing => true | _, _ => false end
  | RDirect => match to_site st with
               | Some x => match site_how x with HowDirect => phase_eqb (site_phase x) ph | HowDemux => false end
               | None => false
               end
  | RVia => false
  end.

Definition rt_addr (port : Z) : addr := mkAddr true [x7f; x00; x00; x01] port.
Definition rt_pick : list pev -> nat := fun _ => 0%nat.

Definition rt_stun_set (log : list rlog) : list (list byte) :=
  flat_map (fun e => match e with LRead _ _ p _ true => [p] | _ => [] end) log.
Definition rt_nonstun_set (log : list rlog) : list (list byte) :=
  flat_map (fun e => match e with LRead _ _ p _ false => [p] | _ => [] end) log.

(* replay the log through the socket-ownership LTS: every raw read is the arrival of that datagram
   followed by the read; a reader the model does not know in that phase, or a timeout without an
   armed deadline, is a disagreement *)
Fixpoint rt_replay (orc : list byte -> bool) (s : ostate) (log : list rlog) : option ostate :=
  match log with
  | [] => Some s
  | LServe :: t =>
      match o_ph s, ostep256 orc s OServe with
      | PStartup, Ok (s', _) => rt_replay orc s' t
      | _, _ => None
      end
  | LRead r st p port _ :: t =>
      if reader_allowed (o_ph s) r st then
        match orun256 orc s [OArrive (mkDg p (rt_addr port)); ORead r rt_pick] with
        | Ok (s', _) => rt_replay orc s' t
        | _ => None
        end
      else None
  | LDeadline r st on :: t =>
      if reader_allowed (o_ph s) r st then
        match ostep256 orc s (OSetDeadline r on) with
        | Ok (s', _) => rt_replay orc s' t
        | _ => None
        end
      else None
  | LErr r :: t =>
      if o_dl s then
        match r with
        | RQuic => match ostep256 orc s OExpire with Ok (s', _) => rt_replay orc s' t | _ => None end
        | _ => rt_replay orc s t
        end
      else None
  end.

Definition log_dgram (log : list rlog) (i : N) : dgram :=
  match nth_error log (N.to_nat i) with
  | Some (LRead _ _ p port _) => mkDg p (rt_addr port)
  | _ => mkDg [] (rt_addr (-1))
  end.

Definition dgram_eqb (a b : dgram) : bool :=
  bytes_eq (g_bytes a) (g_bytes b) && (a_port (g_from a) =? a_port (g_from b))%Z.

Fixpoint dgrams_eqb (a b : list dgram) : bool :=
  match a, b with
  | [], [] => true
  | x :: a', y :: b' => dgram_eqb x y && dgrams_eqb a' b'
  | _, _ => false
  end.

Definition rt_check (id : list byte) (m : rmeta) (log : list rlog) (quic : list N) : bool :=
  let orc := oracle (rt_stun_set log) in
  forallb stun_hdr_ok (rt_stun_set log) &&
  forallb (fun p => negb (orc p)) (rt_nonstun_set log) &&
  match ostep256 orc (o_init 0) (ODemux (AAdd id m)) with
  | Ok (s0, OODemux (OAdd true)) =>
      match rt_replay orc s0 log with
      | Some s' =>
          dgrams_eqb (o_quic s') (map (log_dgram log) quic) &&
          (* the model's verdict on the same log: nothing went elsewhere once QUIC serves, no QUIC-side read failed *)
          Nat.eqb (o_qerr s') 0
      | None => false
      end
  | _ => false
  end.

Definition check (c : case) : bool :=
  match c with
  | CEnc ty m r => enc_matches ty m r
  | CDec packet m r => dec_matches (decode_punch256 packet m) r
  | CDemux cap ops =>
      oracle_sane ops && drun (oracle (stun_set ops)) (all_obs ops) (d_new cap) ops
  | CServer cap ops =>
      srun_ops (oracle (s_stun_set ops)) (s_all_obs ops) (mkS (d_new cap) [] true) None None ops
  | CRt id m log quic => rt_check id m log quic
  end.

Definition mismatches (l : list case) : list nat := mism_from check 0 l.
