(* GENERATED from /repo's working tree by the Go harness on every run; do not edit. *)
From Coq Require Import NArith ZArith List.
Import ListNotations.

Definition url_host := [Byte.x68;Byte.x79;Byte.x73;Byte.x74;Byte.x65;Byte.x72;Byte.x69;Byte.x61].
Definition url_path := [Byte.x2f;Byte.x61;Byte.x75;Byte.x74;Byte.x68].
Definition method_post := [Byte.x50;Byte.x4f;Byte.x53;Byte.x54].
Definition hdr_udp := [Byte.x48;Byte.x79;Byte.x73;Byte.x74;Byte.x65;Byte.x72;Byte.x69;Byte.x61;Byte.x2d;Byte.x55;Byte.x64;Byte.x70].
Definition hdr_ccrx := [Byte.x48;Byte.x79;Byte.x73;Byte.x74;Byte.x65;Byte.x72;Byte.x69;Byte.x61;Byte.x2d;Byte.x43;Byte.x63;Byte.x2d;Byte.x52;Byte.x78].
Definition hdr_padding := [Byte.x48;Byte.x79;Byte.x73;Byte.x74;Byte.x65;Byte.x72;Byte.x69;Byte.x61;Byte.x2d;Byte.x50;Byte.x61;Byte.x64;Byte.x64;Byte.x69;Byte.x6e;Byte.x67].
Definition status_auth_ok : N := 233%N.
Definition frame_type_tcp_request : N := 1025%N.
Definition auth_resp_pad_min : N := 256%N.
Definition auth_resp_pad_max : N := 2048%N.
