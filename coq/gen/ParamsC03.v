(* GENERATED from /repo's working tree by the Go harness on every run; do not edit. *)
From Coq Require Import NArith ZArith List.
Import ListNotations.

Definition st_chunkSize : N := 65536%N.
Definition st_typeDownload : N := 1%N.
Definition st_typeUpload : N := 2%N.
Definition cl_udpMessageChanSize : N := 1024%N.
