(* GENERATED from /repo's working tree by the Go harness on every run; do not edit. *)
From Coq Require Import NArith ZArith List.
Import ListNotations.

Definition MaxAddressLength : N := 2048%N.
Definition MaxMessageLength : N := 2048%N.
Definition MaxPaddingLength : N := 4096%N.
Definition FrameTypeTCPRequest : N := 1025%N.
Definition tcpRequestPaddingMin : Z := (64)%Z.
Definition tcpRequestPaddingMax : Z := (512)%Z.
Definition tcpResponsePaddingMin : Z := (128)%Z.
Definition tcpResponsePaddingMax : Z := (1024)%Z.
Definition paddingChars := [97;98;99;100;101;102;103;104;105;106;107;108;109;110;111;112;113;114;115;116;117;118;119;120;121;122;65;66;67;68;69;70;71;72;73;74;75;76;77;78;79;80;81;82;83;84;85;86;87;88;89;90;48;49;50;51;52;53;54;55;56;57]%N.
