(* GENERATED from /repo's working tree by the Go harness on every run; do not edit. *)
From Coq Require Import NArith ZArith List.
Import ListNotations.

Definition MaxAddressLength : N := 2048%N.
Definition MaxMessageLength : N := 2048%N.
Definition MaxPaddingLength : N := 4096%N.
Definition MaxDatagramFrameSize : N := 1200%N.
Definition MaxUDPSize : N := 4096%N.
