(* GENERATED from /repo's working tree by the Go harness on every run; do not edit. *)
From Coq Require Import NArith ZArith List.
Import ListNotations.

Definition CopyBufSize : N := 32768%N.
