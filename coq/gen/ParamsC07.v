(* GENERATED from /repo's working tree by the Go harness on every run; do not edit. *)
From Coq Require Import NArith ZArith List.
Import ListNotations.

Definition idleCleanupIntervalMs : N := 1000%N.
