(* GENERATED from /repo's working tree by the Go harness on every run; do not edit. *)
From Coq Require Import NArith ZArith List.
Import ListNotations.

Definition ProtocolBoth : N := 0%N.
Definition ProtocolTCP : N := 1%N.
Definition ProtocolUDP : N := 2%N.
Definition AclCacheSize : N := 1024%N.
