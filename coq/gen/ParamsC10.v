(* GENERATED from /repo's working tree by the Go harness on every run; do not edit. *)
From Coq Require Import NArith ZArith List.
Import ListNotations.

Definition ServerMinBandwidth : N := 65536%N.
Definition StatusAuthOK : N := 233%N.
