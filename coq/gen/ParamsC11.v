(* GENERATED from /repo's working tree by the Go harness on every run; do not edit. *)
From Coq Require Import NArith ZArith List.
Import ListNotations.

Definition InitialPacketSize : Z := (1280)%Z.
Definition MinPacingDelay_ns : Z := (1000000)%Z.
Definition MaxPacketBufferSize : Z := (1452)%Z.
Definition maxBurstPackets : Z := (10)%Z.
Definition maxBurstPacingDelayMultiplier : Z := (4)%Z.
Definition pktInfoSlotCount : Z := (5)%Z.
Definition minSampleCount : Z := (50)%Z.
Definition minAckRate_bits : Z := (4605380978949069210)%Z.
Definition minAckRate_num : Z := (4)%Z.
Definition minAckRate_den : Z := (5)%Z.
Definition congestionWindowMultiplier : Z := (2)%Z.
Definition cwndNoRTT : Z := (10240)%Z.
