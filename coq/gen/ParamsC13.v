(* GENERATED from /repo's working tree by the Go harness on every run; do not edit. *)
From Coq Require Import NArith ZArith List.
Import ListNotations.

Definition smPSKMinLen : nat := 4%nat.
Definition smSaltLen : nat := 8%nat.
Definition smKeyLen : nat := 32%nat.
Definition udpBufferSize : nat := 2048%nat.
