(* GENERATED from /repo's working tree by the Go harness on every run; do not edit. *)
From Coq Require Import NArith ZArith List.
Import ListNotations.

Definition geckoReassemblyTTLns : Z := (8000000000)%Z.
Definition geckoMaxReassembly : Z := (4096)%Z.
Definition geckoMaxPerSource : Z := (8)%Z.
Definition geckoBufferSize : Z := (2048)%Z.
Definition geckoDefaultMinPacket : Z := (512)%Z.
Definition geckoDefaultMaxPacket : Z := (1200)%Z.
Definition geckoFlagFragment : N := 128%N.
Definition geckoHeaderSize : Z := (5)%Z.
Definition geckoMinFragmentChunks : Z := (2)%Z.
Definition geckoMaxFragmentChunks : Z := (8)%Z.
Definition smSaltLen : Z := (8)%Z.
