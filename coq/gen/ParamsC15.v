(* GENERATED from /repo's working tree by the Go harness on every run; do not edit. *)
From Coq Require Import NArith ZArith List.
Import ListNotations.

Definition StatusOK : N := 200%N.
Definition StatusBadRequest : N := 400%N.
Definition StatusUnauthorized : N := 401%N.
Definition StatusNotFound : N := 404%N.
