(* GENERATED from /repo's working tree by the Go harness on every run; do not edit. *)
From Coq Require Import NArith ZArith List.
Import ListNotations.

Definition c16_nonpermanent_count : nat := 1%nat.
Definition c16_streamlimit_is_closed : bool := false.
Definition c16_eof_is_closed : bool := true.
Definition c16_remote_close_is_closed : bool := true.
Definition c16_idle_timeout_is_closed : bool := true.
