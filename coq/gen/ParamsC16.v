(* GENERATED from /repo's working tree by the Go harness on every run; do not edit. *)
From Coq Require Import NArith ZArith List.
Import ListNotations.

Definition c16_kind_closed := [(0%nat, false); (1%nat, true); (2%nat, true); (3%nat, true); (4%nat, true); (5%nat, true); (6%nat, true); (7%nat, true); (8%nat, true); (9%nat, true); (10%nat, true); (11%nat, true); (12%nat, true); (13%nat, true); (14%nat, true)].
Definition c16_nonpermanent_count : nat := 1%nat.
Definition c16_streamlimit_is_closed : bool := false.
Definition c16_eof_is_closed : bool := true.
Definition c16_remote_close_is_closed : bool := true.
Definition c16_idle_timeout_is_closed : bool := true.
