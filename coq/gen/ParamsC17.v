(* GENERATED from /repo's working tree by the Go harness on every run; do not edit. *)
From Coq Require Import NArith ZArith List.
Import ListNotations.

Definition SniffMaxHTTPHeaderBytes : N := 262144%N.
Definition QuicV1 : N := 1%N.
Definition QuicV2 : N := 1798521807%N.
