(* GENERATED from /repo's working tree by the Go harness on every run; do not edit. *)
From Coq Require Import NArith ZArith List.
Import ListNotations.

Definition C18_socks_ver : N := 5%N.
Definition C18_socks_userpass_ver : N := 1%N.
Definition C18_method_none : N := 0%N.
Definition C18_method_userpass : N := 2%N.
Definition C18_method_unsupported : N := 255%N.
Definition C18_cmd_connect : N := 1%N.
Definition C18_cmd_udp : N := 3%N.
Definition C18_atyp_v4 : N := 1%N.
Definition C18_atyp_domain : N := 3%N.
Definition C18_atyp_v6 : N := 4%N.
Definition C18_rep_success : N := 0%N.
Definition C18_rep_server_failure : N := 1%N.
Definition C18_rep_host_unreachable : N := 4%N.
Definition C18_rep_cmd_not_supported : N := 7%N.
Definition C18_userpass_ok : N := 0%N.
Definition C18_userpass_fail : N := 1%N.
Definition C18_lower_extra : N := 304%N.
Definition C18_lower_extra_count : N := 1%N.
