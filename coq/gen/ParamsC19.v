(* GENERATED from /repo's working tree by the Go harness on every run; do not edit. *)
From Coq Require Import NArith ZArith List.
Import ListNotations.

Definition packetQueueSize : nat := 1024%nat.
Definition defaultHopInterval : Z := (30000000000)%Z.
Definition minHopInterval : Z := (5000000000)%Z.
