(* GENERATED from /repo's working tree by the Go harness on every run; do not edit. *)
From Coq Require Import NArith ZArith List.
Import ListNotations.

Definition MaxPunchPadding : nat := 1024%nat.
Definition punchSaltLen : nat := 8%nat.
Definition punchHeaderLen : nat := 25%nat.
Definition punchMinWireLen : nat := 33%nat.
Definition punchMaxWireLen : nat := 1057%nat.
Definition PunchNonceSize : nat := 16%nat.
Definition PunchObfsKeySize : nat := 32%nat.
Definition PunchPacketHello : N := 1%N.
Definition PunchPacketAck : N := 2%N.
Definition defaultPunchEventBuffer : nat := 16%nat.
Definition defaultServerPunchEventBuffer : nat := 16%nat.
Definition defaultPunchTimeout : Z := (10000000000)%Z.
Definition defaultPunchInterval : Z := (100000000)%Z.
Definition punchMagic := (cons Coq.Init.Byte.x48 (cons Coq.Init.Byte.x59 (cons Coq.Init.Byte.x52 (cons Coq.Init.Byte.x4c (cons Coq.Init.Byte.x4d (cons Coq.Init.Byte.x76 (cons Coq.Init.Byte.x31 (cons Coq.Init.Byte.x00 nil)))))))).
