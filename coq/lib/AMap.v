(* Association lists used as models of Go maps (iteration order is never relied upon by a model:
   where Go's order matters, the model takes an oracle).  aset = delete-then-cons, adel = filter,
   so the lookup equations hold without a no-duplicates side condition. *)
From Coq Require Import List Bool Arith Lia.
Import ListNotations.

Section AMap.
  Context {K V : Type} (eqb : K -> K -> bool).

  Fixpoint aget (k : K) (m : list (K * V)) : option V :=
    match m with
    | [] => None
    | kv :: t => if eqb k (fst kv) then Some (snd kv) else aget k t
    end.

  Definition adel (k : K) (m : list (K * V)) : list (K * V) :=
    filter (fun kv => negb (eqb k (fst kv))) m.

  Definition aset (k : K) (v : V) (m : list (K * V)) : list (K * V) := (k, v) :: adel k m.

  Definition akeys (m : list (K * V)) : list K := map fst m.

  Hypothesis eqb_spec : forall a b, reflect (a = b) (eqb a b).

  Lemma eqb_refl k : eqb k k = true.
  Proof. destruct (eqb_spec k k); congruence. Qed.

  Lemma eqb_neq a b : a <> b -> eqb a b = false.
  Proof. destruct (eqb_spec a b); congruence. Qed.

  Lemma eqb_sym a b : eqb a b = eqb b a.
  Proof. destruct (eqb_spec a b), (eqb_spec b a); congruence. Qed.

  Lemma aget_adel_same k m : aget k (adel k m) = None.
  Proof.
    induction m as [|[k' v] t IH]; simpl; auto.
    destruct (eqb k k') eqn:E; simpl; auto. now rewrite E.
  Qed.

  Lemma aget_adel_other k k' m : k <> k' -> aget k (adel k' m) = aget k m.
  Proof.
    intros N. induction m as [|[k2 v] t IH]; simpl; auto.
    destruct (eqb_spec k' k2) as [->|N2]; simpl.
    - rewrite eqb_neq by auto. auto.
    - rewrite IH. auto.
  Qed.

  Lemma aget_aset_same k v m : aget k (aset k v m) = Some v.
  Proof. unfold aset; simpl. now rewrite eqb_refl. Qed.

  Lemma aget_aset_other k k' v m : k <> k' -> aget k (aset k' v m) = aget k m.
  Proof. intros N. unfold aset; simpl. rewrite eqb_neq by auto. now apply aget_adel_other. Qed.

  Lemma aget_In k v m : aget k m = Some v -> In (k, v) m.
  Proof.
    induction m as [|[k' v'] t IH]; simpl; [discriminate|].
    destruct (eqb_spec k k') as [->|N]; intros H.
    - inversion H; subst; auto.
    - auto.
  Qed.

  Lemma aget_None_notin k m : aget k m = None -> ~ In k (akeys m).
  Proof.
    induction m as [|[k' v'] t IH]; simpl; auto.
    destruct (eqb_spec k k') as [->|N]; [discriminate|].
    intros H [E|I]; [congruence|]. now apply IH.
  Qed.

  Lemma notin_aget_None k m : ~ In k (akeys m) -> aget k m = None.
  Proof.
    induction m as [|[k' v'] t IH]; simpl; auto.
    intros H. destruct (eqb_spec k k') as [->|N]; [exfalso; auto|]. apply IH. tauto.
  Qed.

  Lemma In_aget k v m : NoDup (akeys m) -> In (k, v) m -> aget k m = Some v.
  Proof.
    induction m as [|[k' v'] t IH]; simpl; [tauto|].
    intros ND [E|I].
    - inversion E; subst. now rewrite eqb_refl.
    - inversion ND; subst. destruct (eqb_spec k k') as [->|N].
      + exfalso. apply H1. change k' with (fst (k', v)). now apply in_map.
      + auto.
  Qed.

  Lemma adel_keys_incl k m x : In x (akeys (adel k m)) -> In x (akeys m).
  Proof.
    unfold akeys, adel. rewrite !in_map_iff. intros [kv [E I]]. apply filter_In in I.
    exists kv; tauto.
  Qed.

  Lemma adel_In kv k m : In kv (adel k m) <-> In kv m /\ fst kv <> k.
  Proof.
    unfold adel. rewrite filter_In. destruct (eqb_spec k (fst kv)); simpl; split; intros [A B]; split; auto; congruence.
  Qed.

  Lemma NoDup_adel k m : NoDup (akeys m) -> NoDup (akeys (adel k m)).
  Proof.
    induction m as [|[k' v'] t IH]; simpl; auto.
    intros ND. inversion ND; subst.
    destruct (eqb k k'); simpl; auto.
    constructor; auto. intros I. apply H1. eapply adel_keys_incl; eauto.
  Qed.

  Lemma notin_adel k m : ~ In k (akeys (adel k m)).
  Proof. apply aget_None_notin. apply aget_adel_same. Qed.

  Lemma NoDup_aset k v m : NoDup (akeys m) -> NoDup (akeys (aset k v m)).
  Proof.
    intros ND. unfold aset; simpl. constructor; [apply notin_adel | now apply NoDup_adel].
  Qed.

  Lemma filter_len_le {A} (f : A -> bool) l : length (filter f l) <= length l.
  Proof. induction l as [|a t IH]; simpl; auto. destruct (f a); simpl; lia. Qed.

  Lemma adel_length_le k m : length (adel k m) <= length m.
  Proof. apply filter_len_le. Qed.

  Lemma adel_absent k m : aget k m = None -> adel k m = m.
  Proof.
    induction m as [|[k' v'] t IH]; simpl; auto.
    destruct (eqb k k') eqn:E; [discriminate|]. simpl. intros H. now rewrite IH.
  Qed.

  Lemma adel_length_present k v m :
    NoDup (akeys m) -> aget k m = Some v -> S (length (adel k m)) = length m.
  Proof.
    induction m as [|[k' v'] t IH]; simpl; [discriminate|].
    intros ND H. inversion ND; subst.
    destruct (eqb_spec k k') as [->|N]; simpl.
    - rewrite adel_absent; auto. now apply notin_aget_None.
    - rewrite (IH H3 H). auto.
  Qed.

  Lemma adel_length_lt k v m : aget k m = Some v -> length (adel k m) < length m.
  Proof.
    induction m as [|[k' v'] t IH]; simpl; [discriminate|].
    destruct (eqb k k') eqn:E; simpl.
    - intros _. pose proof (adel_length_le k t). unfold adel in *. lia.
    - intros H. apply IH in H. unfold adel in *. lia.
  Qed.

  (* counting the bindings that satisfy a predicate on keys *)
  Definition acount (f : K -> bool) (m : list (K * V)) : nat := length (filter (fun kv => f (fst kv)) m).

  Lemma acount_cons (f : K -> bool) kv m : acount f (kv :: m) = (if f (fst kv) then 1 else 0) + acount f m.
  Proof. unfold acount; simpl. destruct (f (fst kv)); auto. Qed.

  Lemma acount_adel_absent f k m : aget k m = None -> acount f (adel k m) = acount f m.
  Proof. intros H. now rewrite adel_absent. Qed.

  Lemma acount_adel_present (f : K -> bool) k v m :
    NoDup (akeys m) -> aget k m = Some v ->
    (if f k then 1 else 0) + acount f (adel k m) = acount f m.
  Proof.
    induction m as [|[k' v'] t IH]; [intros _ H; discriminate H|].
    intros ND H. simpl in ND. inversion ND; subst. simpl in H. simpl adel.
    destruct (eqb_spec k k') as [->|N]; simpl negb; cbv iota.
    - rewrite acount_cons; simpl fst. rewrite adel_absent; auto. now apply notin_aget_None.
    - rewrite !acount_cons; simpl fst. specialize (IH H3 H). lia.
  Qed.

  Lemma acount_le_length f m : acount f m <= length m.
  Proof. apply filter_len_le. Qed.
End AMap.
