(* Base64: RFC 4648 standard alphabet with '=' padding, decoded the way Go's
   encoding/base64.StdEncoding.DecodeString does (non-strict about trailing bits, strict about
   padding, CR and LF ignored anywhere, anything after the padding is an error).
   Definitions first, a few sanity lemmas at the end.  Used by C18 (Proxy-Authorization). *)
From Hy Require Export lib.Bytes.
Local Open Scope N_scope.

(* decodeMap of the standard alphabet: A-Z a-z 0-9 + /  *)
Definition b64_val (c : byte) : option N :=
  let n := b2n c in
  if (65 <=? n) && (n <=? 90) then Some (n - 65)
  else if (97 <=? n) && (n <=? 122) then Some (n - 97 + 26)
  else if (48 <=? n) && (n <=? 57) then Some (n - 48 + 52)
  else if n =? 43 then Some 62
  else if n =? 47 then Some 63
  else None.

Definition b64_pad : byte := x3d.            (* '=' *)
Definition b64_is_nl (c : byte) : bool := Byte.eqb c x0a || Byte.eqb c x0d.

(* the three bytes of a full quantum / the prefix of them that a padded quantum yields *)
Definition b64_q3 (a b c d : N) : list byte :=
  let v := a * 262144 + b * 4096 + c * 64 + d in
  [n2b (v / 65536); n2b (v / 256); n2b v].

(* input with CR/LF already removed.  One quantum per four characters. *)
Fixpoint b64_dec_go (fuel : nat) (l : list byte) : option (list byte) :=
  match fuel with
  | O => None
  | S f =>
      match l with
      | [] => Some []
      | c0 :: c1 :: c2 :: c3 :: t =>
          match b64_val c0, b64_val c1 with
          | Some a, Some b =>
              match b64_val c2 with
              | Some c =>
                  match b64_val c3 with
                  | Some d =>
                      match b64_dec_go f t with
                      | Some r => Some (b64_q3 a b c d ++ r)
                      | None => None
                      end
                  | None =>
                      (* "xxx=" : two bytes, nothing may follow *)
                      if Byte.eqb c3 b64_pad then
                        match t with [] => Some (firstn 2 (b64_q3 a b c 0)) | _ => None end
                      else None
                  end
              | None =>
                  (* "xx==" : one byte, nothing may follow *)
                  if Byte.eqb c2 b64_pad && Byte.eqb c3 b64_pad then
                    match t with [] => Some (firstn 1 (b64_q3 a b 0 0)) | _ => None end
                  else None
              end
          | _, _ => None
          end
      | _ => None      (* 1..3 characters left: with a padding character configured this is an error *)
      end
  end.

Definition b64_decode (l : list byte) : option (list byte) :=
  let l' := filter (fun c => negb (b64_is_nl c)) l in
  b64_dec_go (S (length l')) l'.

(* ---------- encoder (used for examples and round-trip sanity only) ---------- *)
Definition b64_chr (v : N) : byte :=
  if v <? 26 then n2b (65 + v)
  else if v <? 52 then n2b (97 + v - 26)
  else if v <? 62 then n2b (48 + v - 52)
  else if v =? 62 then x2b else x2f.

Fixpoint b64_encode (l : list byte) : list byte :=
  match l with
  | [] => []
  | [x] => let v := b2n x * 65536 in
           [b64_chr (v / 262144); b64_chr ((v / 4096) mod 64); b64_pad; b64_pad]
  | [x; y] => let v := b2n x * 65536 + b2n y * 256 in
           [b64_chr (v / 262144); b64_chr ((v / 4096) mod 64); b64_chr ((v / 64) mod 64); b64_pad]
  | x :: y :: z :: t =>
      let v := b2n x * 65536 + b2n y * 256 + b2n z in
      b64_chr (v / 262144) :: b64_chr ((v / 4096) mod 64) :: b64_chr ((v / 64) mod 64)
        :: b64_chr (v mod 64) :: b64_encode t
  end.

(* "user:pass" *)
Example b64_ex1 : b64_decode [x64;x58;x4e;x6c;x63;x6a;x70;x77;x59;x58;x4e;x7a] =
                  Some [x75;x73;x65;x72;x3a;x70;x61;x73;x73].
Proof. vm_compute. reflexivity. Qed.
Example b64_ex2 : b64_decode [x59;x51;x3d;x3d] = Some [x61].            (* "YQ==" *)
Proof. vm_compute. reflexivity. Qed.
Example b64_ex3 : b64_decode [x59;x51;x3d] = None.                      (* "YQ=" *)
Proof. vm_compute. reflexivity. Qed.
Example b64_ex4 : b64_decode [x59;x51] = None.                          (* "YQ" no padding *)
Proof. vm_compute. reflexivity. Qed.
Example b64_ex5 : b64_decode [x59;x52;x3d;x3d] = Some [x61].            (* "YR==" trailing bits ignored *)
Proof. vm_compute. reflexivity. Qed.
Example b64_ex6 : b64_decode [x59;x51;x3d;x3d;x59] = None.              (* garbage after padding *)
Proof. vm_compute. reflexivity. Qed.
Example b64_ex7 : b64_decode (b64_encode [x00;xff;x10;x80;x7f]) = Some [x00;xff;x10;x80;x7f].
Proof. vm_compute. reflexivity. Qed.
