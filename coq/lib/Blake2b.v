(* BLAKE2b (RFC 7693), unkeyed, with the digest-length parameter nn (1..64).
   64-bit words are N, reduced mod 2^64 after every addition (written as a mask, see
   [add64_mod]); everything is executable under vm_compute (about 0.1 s per compression in
   the kernel).  The RFC 7693 Appendix A vector and BLAKE2b-256 vectors (python hashlib)
   are Examples at the end of the file. *)
From Hy Require Import lib.Bytes.
Local Open Scope N_scope.

Definition mask64 : N := 18446744073709551615.   (* 2^64 - 1 *)

Definition add64 (a b : N) : N := N.land (a + b) mask64.
Definition add64_3 (a b c : N) : N := N.land (a + b + c) mask64.

Lemma mask64_ones : mask64 = N.ones 64.
Proof. reflexivity. Qed.

Lemma add64_mod a b : add64 a b = (a + b) mod 2 ^ 64.
Proof. unfold add64. rewrite mask64_ones. apply N.land_ones. Qed.

Lemma add64_3_mod a b c : add64_3 a b c = (a + b + c) mod 2 ^ 64.
Proof. unfold add64_3. rewrite mask64_ones. apply N.land_ones. Qed.

(* rotate right by n bits (0 < n < 64) of a 64-bit word *)
Definition rotr64 (x n : N) : N :=
  N.lor (N.shiftr x n) (N.land (N.shiftl x (64 - n)) mask64).

(* RFC 7693 section 2.6 *)
Definition IV0 : N := 0x6a09e667f3bcc908.
Definition IV1 : N := 0xbb67ae8584caa73b.
Definition IV2 : N := 0x3c6ef372fe94f82b.
Definition IV3 : N := 0xa54ff53a5f1d36f1.
Definition IV4 : N := 0x510e527fade682d1.
Definition IV5 : N := 0x9b05688c2b3e6c1f.
Definition IV6 : N := 0x1f83d9abfb41bd6b.
Definition IV7 : N := 0x5be0cd19137e2179.

(* RFC 7693 section 2.7: message word schedule; rounds 10 and 11 reuse rows 0 and 1 *)
Definition SIGMA : list (list nat) :=
  [ [ 0; 1; 2; 3; 4; 5; 6; 7; 8; 9;10;11;12;13;14;15];
    [14;10; 4; 8; 9;15;13; 6; 1;12; 0; 2;11; 7; 5; 3];
    [11; 8;12; 0; 5; 2;15;13;10;14; 3; 6; 7; 1; 9; 4];
    [ 7; 9; 3; 1;13;12;11;14; 2; 6; 5;10; 4; 0;15; 8];
    [ 9; 0; 5; 7; 2; 4;10;15;14; 1;11;12; 6; 8; 3;13];
    [ 2;12; 6;10; 0;11; 8; 3; 4;13; 7; 5;15;14; 1; 9];
    [12; 5; 1;15;14;13; 4;10; 0; 7; 6; 3; 9; 2; 8;11];
    [13;11; 7;14;12; 1; 3; 9; 5; 0;15; 4; 8; 6; 2;10];
    [ 6;15;14; 9;11; 3; 0; 8;12; 2;13; 7; 1; 4;10; 5];
    [10; 2; 8; 4; 7; 6; 1; 5;15;11; 9;14; 3;12;13; 0];
    [ 0; 1; 2; 3; 4; 5; 6; 7; 8; 9;10;11;12;13;14;15];
    [14;10; 4; 8; 9;15;13; 6; 1;12; 0; 2;11; 7; 5; 3] ]%nat.

(* RFC 7693 section 3.1: mixing function G, rotation constants (32, 24, 16, 63) *)
Definition G (a b c d x y : N) : N * N * N * N :=
  let a := add64_3 a b x in
  let d := rotr64 (N.lxor d a) 32 in
  let c := add64 c d in
  let b := rotr64 (N.lxor b c) 24 in
  let a := add64_3 a b y in
  let d := rotr64 (N.lxor d a) 16 in
  let c := add64 c d in
  let b := rotr64 (N.lxor b c) 63 in
  (a, b, c, d).

Record st16 := mk16 {
  v0 : N; v1 : N; v2 : N; v3 : N; v4 : N; v5 : N; v6 : N; v7 : N;
  v8 : N; v9 : N; v10 : N; v11 : N; v12 : N; v13 : N; v14 : N; v15 : N }.

Record st8 := mk8 { h0 : N; h1 : N; h2 : N; h3 : N; h4 : N; h5 : N; h6 : N; h7 : N }.

(* one round: columns then diagonals; m = the 16 message words, s = the round's SIGMA row *)
Definition round (m : list N) (v : st16) (s : list nat) : st16 :=
  let w i := nth (nth i s O) m 0 in
  match v with
  | mk16 a0 a1 a2 a3 a4 a5 a6 a7 a8 a9 a10 a11 a12 a13 a14 a15 =>
    let '(a0, a4, a8, a12) := G a0 a4 a8 a12 (w 0%nat) (w 1%nat) in
    let '(a1, a5, a9, a13) := G a1 a5 a9 a13 (w 2%nat) (w 3%nat) in
    let '(a2, a6, a10, a14) := G a2 a6 a10 a14 (w 4%nat) (w 5%nat) in
    let '(a3, a7, a11, a15) := G a3 a7 a11 a15 (w 6%nat) (w 7%nat) in
    let '(a0, a5, a10, a15) := G a0 a5 a10 a15 (w 8%nat) (w 9%nat) in
    let '(a1, a6, a11, a12) := G a1 a6 a11 a12 (w 10%nat) (w 11%nat) in
    let '(a2, a7, a8, a13) := G a2 a7 a8 a13 (w 12%nat) (w 13%nat) in
    let '(a3, a4, a9, a14) := G a3 a4 a9 a14 (w 14%nat) (w 15%nat) in
    mk16 a0 a1 a2 a3 a4 a5 a6 a7 a8 a9 a10 a11 a12 a13 a14 a15
  end.

(* RFC 7693 section 3.2: compression function F(h, m, t, f); t is the 128-bit byte counter *)
Definition compress (h : st8) (m : list N) (t : N) (final : bool) : st8 :=
  let t0 := N.land t mask64 in
  let t1 := N.land (N.shiftr t 64) mask64 in
  let v := mk16 (h0 h) (h1 h) (h2 h) (h3 h) (h4 h) (h5 h) (h6 h) (h7 h)
                IV0 IV1 IV2 IV3 (N.lxor IV4 t0) (N.lxor IV5 t1)
                (if final then N.lxor IV6 mask64 else IV6) IV7 in
  let v := fold_left (round m) SIGMA v in
  mk8 (N.lxor (N.lxor (h0 h) (v0 v)) (v8 v))
      (N.lxor (N.lxor (h1 h) (v1 v)) (v9 v))
      (N.lxor (N.lxor (h2 h) (v2 v)) (v10 v))
      (N.lxor (N.lxor (h3 h) (v3 v)) (v11 v))
      (N.lxor (N.lxor (h4 h) (v4 v)) (v12 v))
      (N.lxor (N.lxor (h5 h) (v5 v)) (v13 v))
      (N.lxor (N.lxor (h6 h) (v6 v)) (v14 v))
      (N.lxor (N.lxor (h7 h) (v7 v)) (v15 v)).

(* little-endian word decode / encode *)
Fixpoint le_dec (l : list byte) : N :=
  match l with
  | [] => 0
  | b :: t => b2n b + 256 * le_dec t
  end.

Fixpoint le_enc (n : nat) (x : N) : list byte :=
  match n with
  | O => []
  | S k => n2b x :: le_enc k (x / 256)
  end.

(* split a (padded) 128-byte block into 16 little-endian words *)
Fixpoint words (n : nat) (l : list byte) : list N :=
  match n with
  | O => []
  | S k => le_dec (firstn 8 l) :: words k (skipn 8 l)
  end.

Definition pad_block (l : list byte) : list byte := l ++ repeat x00 (128 - length l).

(* RFC 7693 section 3.3 (kk = 0): all blocks but the last are compressed with the running
   counter; the last block (possibly empty, possibly full) is zero-padded and finalised.
   fuel >= number of blocks; callers pass the input length. *)
Fixpoint absorb (fuel : nat) (h : st8) (t : N) (d : list byte) : st8 :=
  match fuel with
  | O => h
  | S k =>
      if Nat.leb (length d) 128 then
        compress h (words 16 (pad_block d)) (t + N.of_nat (length d)) true
      else
        absorb k (compress h (words 16 (firstn 128 d)) (t + 128) false) (t + 128) (skipn 128 d)
  end.

Definition init_state (nn : N) : st8 :=
  mk8 (N.lxor IV0 (N.lxor 0x01010000 nn)) IV1 IV2 IV3 IV4 IV5 IV6 IV7.

Definition st8_bytes (h : st8) : list byte :=
  le_enc 8 (h0 h) ++ le_enc 8 (h1 h) ++ le_enc 8 (h2 h) ++ le_enc 8 (h3 h) ++
  le_enc 8 (h4 h) ++ le_enc 8 (h5 h) ++ le_enc 8 (h6 h) ++ le_enc 8 (h7 h).

(* BLAKE2b with an nn-byte digest, no key *)
Definition blake2b (nn : nat) (d : list byte) : list byte :=
  firstn nn (st8_bytes (absorb (S (length d)) (init_state (N.of_nat nn)) 0 d)).

Definition blake2b256 (d : list byte) : list byte := blake2b 32 d.
Definition blake2b512 (d : list byte) : list byte := blake2b 64 d.

Lemma le_enc_length n x : length (le_enc n x) = n.
Proof. revert x. induction n as [|n IH]; intros x; cbn [le_enc length]; auto. Qed.

Lemma st8_bytes_length h : length (st8_bytes h) = 64%nat.
Proof. unfold st8_bytes. repeat rewrite app_length. repeat rewrite le_enc_length. reflexivity. Qed.

Lemma blake2b_length nn d : (nn <= 64)%nat -> length (blake2b nn d) = nn.
Proof.
  intros H. unfold blake2b. rewrite firstn_length, st8_bytes_length. lia.
Qed.

Lemma blake2b256_length d : length (blake2b256 d) = 32%nat.
Proof. apply blake2b_length. lia. Qed.

(* ---- test vectors ---- *)

(* RFC 7693 Appendix A: BLAKE2b-512("abc") *)
Example blake2b512_abc :
  blake2b512 [x61; x62; x63] =
  [xba;x80;xa5;x3f;x98;x1c;x4d;x0d;x6a;x27;x97;xb6;x9f;x12;xf6;xe9;
   x4c;x21;x2f;x14;x68;x5a;xc4;xb7;x4b;x12;xbb;x6f;xdb;xff;xa2;xd1;
   x7d;x87;xc5;x39;x2a;xab;x79;x2d;xc2;x52;xd5;xde;x45;x33;xcc;x95;
   x18;xd3;x8a;xa8;xdb;xf1;x92;x5a;xb9;x23;x86;xed;xd4;x00;x99;x23].
Proof. vm_compute. reflexivity. Qed.

(* BLAKE2b-256 vectors; reference values from python3 hashlib.blake2b(msg, digest_size=32) *)
Example blake2b256_abc :
  blake2b256 [x61; x62; x63] =
  [xbd;xdd;x81;x3c;x63;x42;x39;x72;x31;x71;xef;x3f;xee;x98;x57;x9b;
   x94;x96;x4e;x3b;xb1;xcb;x3e;x42;x72;x62;xc8;xc0;x68;xd5;x23;x19].
Proof. vm_compute. reflexivity. Qed.

Example blake2b256_empty :
  blake2b256 [] =
  [x0e;x57;x51;xc0;x26;xe5;x43;xb2;xe8;xab;x2e;xb0;x60;x99;xda;xa1;
   xd1;xe5;xdf;x47;x77;x8f;x77;x87;xfa;xab;x45;xcd;xf1;x2f;xe3;xa8].
Proof. vm_compute. reflexivity. Qed.

(* bytes 0, 1, 2, ... (mod 256) *)
Definition iota_bytes (n : nat) : list byte := map (fun i => n2b (N.of_nat i)) (seq 0 n).

(* exactly one full block: the final block is full and still finalised *)
Example blake2b256_iota128 :
  blake2b256 (iota_bytes 128) =
  [xc3;x58;x2f;x71;xeb;xb2;xbe;x66;xfa;x5d;xd7;x50;xf8;x0b;xaa;xe9;
   x75;x54;xf3;xb0;x15;x66;x3c;x8b;xe3;x77;xcf;xcb;x24;x88;xc1;xd1].
Proof. vm_compute. reflexivity. Qed.

(* one full block plus one byte: two compressions, counter 128 then 129 *)
Example blake2b256_iota129 :
  blake2b256 (iota_bytes 129) =
  [xf7;xf3;xc4;x6b;xa2;x56;x4f;xf4;xc4;xc1;x62;xda;x1f;x5b;x60;x5f;
   x9f;x1c;x4a;xa6;xa2;x06;x52;xa9;xf9;xa3;x37;xc1;xa2;xf5;xb9;xc9].
Proof. vm_compute. reflexivity. Qed.

Example blake2b256_iota300 :
  blake2b256 (iota_bytes 300) =
  [x3a;x48;x6e;x3f;xe3;xee;x41;x48;x53;x00;x02;x69;xac;x02;x00;x30;
   xae;xef;x74;x8c;xb0;x5c;xd6;x2b;xa8;x59;x39;xec;x29;x8e;xf2;x5c].
Proof. vm_compute. reflexivity. Qed.

(* the digest length is a parameter of the hash, not a truncation: 20-byte digest *)
Example blake2b160_iota200 :
  blake2b 20 (iota_bytes 200) =
  [xb8;x3a;x57;x33;xce;x63;xf2;xdd;x82;x66;xea;x8e;xc9;x33;x33;xd7;x93;x51;x42;xcf].
Proof. vm_compute. reflexivity. Qed.
