(* Bytes: wire bytes are Coq.Init.Byte.byte (256 constructors, no well-formedness side
   condition); numeric fields are N.  Big-endian fixed-width encode/decode. *)
From Coq Require Export List NArith Lia Bool.
From Coq Require Import ZArith ZifyBool ZifyN ZifyNat.
From Coq Require Export Strings.Byte.
Export ListNotations.
Local Open Scope N_scope.

Ltac Zify.zify_post_hook ::= Z.div_mod_to_equations.

Definition b2n (b : byte) : N := Byte.to_N b.

Definition n2b (x : N) : byte :=
  match Byte.of_N (x mod 256) with Some b => b | None => x00 end.

Lemma b2n_lt b : b2n b < 256.
Proof. unfold b2n. pose proof (Byte.to_N_bounded b). lia. Qed.

Lemma n2b_b2n b : n2b (b2n b) = b.
Proof.
  unfold n2b, b2n. rewrite N.mod_small by (pose proof (Byte.to_N_bounded b); lia).
  now rewrite Byte.of_to_N.
Qed.

Lemma b2n_n2b x : b2n (n2b x) = x mod 256.
Proof.
  unfold n2b, b2n. destruct (Byte.of_N (x mod 256)) as [b|] eqn:E.
  - now apply Byte.to_of_N.
  - apply Byte.of_N_None_iff in E. pose proof (N.mod_lt x 256). lia.
Qed.

Lemma b2n_n2b_small x : x < 256 -> b2n (n2b x) = x.
Proof. intros H. rewrite b2n_n2b. now apply N.mod_small. Qed.

Lemma b2n_inj a b : b2n a = b2n b -> a = b.
Proof. intros H. rewrite <- (n2b_b2n a), <- (n2b_b2n b). now rewrite H. Qed.

Lemma n2b_mod x : n2b (x mod 256) = n2b x.
Proof. unfold n2b. now rewrite N.mod_mod by lia. Qed.

(* big-endian: n bytes of x (low 8n bits) *)
Fixpoint be_enc (n : nat) (x : N) : list byte :=
  match n with
  | O => []
  | S k => n2b (x / 256 ^ N.of_nat k) :: be_enc k x
  end.

Fixpoint be_dec (l : list byte) : N :=
  match l with
  | [] => 0
  | b :: t => b2n b * 256 ^ N.of_nat (length t) + be_dec t
  end.

Lemma be_enc_length n x : length (be_enc n x) = n.
Proof. induction n as [|n IH]; simpl; auto. Qed.

Lemma pow256_pos n : 0 < 256 ^ n.
Proof. apply N.neq_0_lt_0. apply N.pow_nonzero. lia. Qed.

Lemma be_dec_lt l : be_dec l < 256 ^ N.of_nat (length l).
Proof.
  induction l as [|b t IH]; simpl length.
  - simpl. lia.
  - cbn [be_dec]. rewrite Nat2N.inj_succ, N.pow_succ_r'.
    pose proof (b2n_lt b). nia.
Qed.

Lemma be_dec_enc n x : be_dec (be_enc n x) = x mod 256 ^ N.of_nat n.
Proof.
  induction n as [|n IH].
  - simpl. now rewrite N.mod_1_r.
  - cbn [be_enc be_dec]. rewrite be_enc_length, IH, b2n_n2b.
    rewrite Nat2N.inj_succ, N.pow_succ_r'.
    set (p := 256 ^ N.of_nat n). pose proof (pow256_pos (N.of_nat n)) as Hp. fold p in Hp.
    rewrite (N.mul_comm 256 p).
    rewrite N.mod_mul_r by lia. lia.
Qed.

Lemma be_dec_enc_small n x : x < 256 ^ N.of_nat n -> be_dec (be_enc n x) = x.
Proof. intros H. rewrite be_dec_enc. now apply N.mod_small. Qed.

Lemma be_dec_app a b : be_dec (a ++ b) = be_dec a * 256 ^ N.of_nat (length b) + be_dec b.
Proof.
  induction a as [|x a IH]; [simpl; lia|].
  cbn [app be_dec]. rewrite IH, app_length, Nat2N.inj_add, N.pow_add_r. lia.
Qed.

(* byte-wise xor *)
Definition bxor (a b : byte) : byte := n2b (N.lxor (b2n a) (b2n b)).

Lemma lxor_lt_256 a b : a < 256 -> b < 256 -> N.lxor a b < 256.
Proof.
  change 256 with (2^8). intros Ha Hb.
  destruct (N.eq_dec (N.lxor a b) 0) as [E|E]; [rewrite E; simpl; lia|].
  apply N.log2_lt_pow2; [lia|].
  eapply N.le_lt_trans; [apply N.log2_lxor|].
  assert (L: forall x, x < 2^8 -> N.log2 x < 8).
  { intros x Hx. destruct (N.eq_dec x 0) as [->|Hx0]; [simpl; lia|]. apply N.log2_lt_pow2; lia. }
  apply N.max_lub_lt; auto.
Qed.

Lemma bxor_involutive a k : bxor (bxor a k) k = a.
Proof.
  unfold bxor. rewrite b2n_n2b_small by (apply lxor_lt_256; apply b2n_lt).
  rewrite N.lxor_assoc, N.lxor_nilpotent, N.lxor_0_r. apply n2b_b2n.
Qed.

(* take / drop with N-free nat indices (Go slice expressions over len=cap slices) *)
Definition take {A} (n : nat) (l : list A) := firstn n l.
Definition drop {A} (n : nat) (l : list A) := skipn n l.
