(* IEEE-754 binary64 as Go's float64, on Coq's primitive floats (evaluated natively and
   bit-exactly by vm_compute).  Only what the Go code of the modelled packages uses:
   int64/uint64 -> float64 conversion, + * / and comparisons, float64 -> int64 conversion,
   and the bit pattern (math.Float64bits) for comparing with the implementation.
   Definitions only; lemmas live in the proof files of the properties that use them. *)
From Coq Require Import ZArith Bool Floats.
Local Open Scope bool_scope.
Local Open Scope Z_scope.

Definition f64 := float.

Definition f64_prec : Z := 53.
Definition f64_emax : Z := 1024.

(* Go: float64(x) for x of an integer type - the nearest binary64, ties to even. *)
Definition of_Z (z : Z) : f64 := SF2Prim (binary_normalize f64_prec f64_emax z 0 false).

Definition fadd (a b : f64) : f64 := PrimFloat.add a b.
Definition fmul (a b : f64) : f64 := PrimFloat.mul a b.
Definition fdiv (a b : f64) : f64 := PrimFloat.div a b.
Definition fltb (a b : f64) : bool := PrimFloat.ltb a b.
Definition fleb (a b : f64) : bool := PrimFloat.leb a b.
Definition feqb (a b : f64) : bool := PrimFloat.eqb a b.

(* The integer part (toward zero) of a finite value; None for infinities and NaN. *)
Definition sf_trunc (x : spec_float) : option Z :=
  match x with
  | S754_zero _ => Some 0
  | S754_finite s m e =>
      let v := if 0 <=? e then Z.pos m * 2 ^ e else Z.quot (Z.pos m) (2 ^ (- e)) in
      Some (if s then - v else v)
  | _ => None
  end.

(* Go: int64(f).  In range: truncation toward zero.  Out of range (and NaN) the Go spec leaves the
   result implementation-defined; amd64 (CVTTSD2SQ) yields the "integer indefinite" 0x8000000000000000. *)
Definition int64_indefinite : Z := -9223372036854775808.   (* -2^63 *)
Definition to_int64 (f : f64) : Z :=
  match sf_trunc (Prim2SF f) with
  | Some v => if (-9223372036854775808 <=? v) && (v <? 9223372036854775808) then v else int64_indefinite
  | None => int64_indefinite
  end.

(* math.Float64bits as a number in [0, 2^64).  NaN is given the canonical quiet pattern. *)
Definition two52 : Z := 4503599627370496.
Definition two63 : Z := 9223372036854775808.
Definition bits_sf (x : spec_float) : Z :=
  match x with
  | S754_zero s => if s then two63 else 0
  | S754_infinity s => (if s then two63 else 0) + 2047 * two52
  | S754_nan => 2047 * two52 + 2251799813685248
  | S754_finite s m e =>
      (if s then two63 else 0) +
      (if Z.pos m <? two52 then Z.pos m                        (* subnormal: e = -1074 *)
       else (e + 1075) * two52 + (Z.pos m - two52))
  end.
Definition bits (f : f64) : Z := bits_sf (Prim2SF f).

Definition f_one : f64 := 1%float.
Definition f_two : f64 := 2%float.
Definition f_1e9 : f64 := 1000000000%float.
