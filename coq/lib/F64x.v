(* Additions to lib/F64.v used by the full BBR model (C12 layer 3).  Definitions only.
     of_bits      math.Float64frombits
     to_uint64    Go's uint64(f) on amd64
     qdiv         Z.div with a fast path for the VM: a candidate quotient is obtained from one binary64
                  division and CHECKED with integer multiplications (q*b <= a < (q+1)*b); whenever the check
                  fails the result is Z.div itself, so qdiv a b = a / b for all arguments whatever the
                  float unit returns (lemma qdiv_spec in proof/C12_Arith.v needs no float fact).
     i64w / u64w  two's complement wrap to int64 / uint64 with an in-range fast path (Z.modulo on 64-bit
                  operands costs ~0.4 ms in the VM, a range test ~1 us). *)
From Hy Require Import lib.F64.
From Coq Require Import ZArith Bool Floats.
Local Open Scope bool_scope.
Local Open Scope Z_scope.

Definition fsub (a b : f64) : f64 := PrimFloat.sub a b.

Definition x_two52 : Z := 4503599627370496.
Definition x_two63 : Z := 9223372036854775808.
Definition x_two64 : Z := 18446744073709551616.

(* math.Float64frombits for a pattern in [0, 2^64) *)
Definition of_bits (b : Z) : f64 :=
  let s := x_two63 <=? b in
  let r := if s then b - x_two63 else b in
  let e := Z.shiftr r 52 in
  let m := Z.land r (x_two52 - 1) in
  if e =? 0 then
    (if m =? 0 then SF2Prim (S754_zero s) else SF2Prim (S754_finite s (Z.to_pos m) (-1074)))
  else if e =? 2047 then
    (if m =? 0 then SF2Prim (S754_infinity s) else SF2Prim S754_nan)
  else SF2Prim (S754_finite s (Z.to_pos (m + x_two52)) (e - 1075)).

Definition i64w (x : Z) : Z :=
  if (-9223372036854775808 <=? x) && (x <? 9223372036854775808) then x
  else (x + x_two63) mod x_two64 - x_two63.

Definition u64w (x : Z) : Z :=
  if (0 <=? x) && (x <? 18446744073709551616) then x else x mod x_two64.

(* Go: uint64(f), as compiled for amd64: below 2^63 the signed conversion (CVTTSD2SQ) reinterpreted,
   otherwise the signed conversion of f - 2^63 with the top bit set; "integer indefinite" for NaN and
   out-of-range operands of the signed conversion.  Observed on go1.25.0 linux/amd64:
   uint64(-1.5) = 2^64-1, uint64(1.2e19) = 12000000000000000000, uint64(2^64) = uint64(+Inf) = uint64(NaN) = 2^63. *)
Definition f_two63 : f64 := 9223372036854775808%float.
Definition to_uint64 (f : f64) : Z :=
  if fltb f f_two63 then u64w (to_int64 f)
  else Z.lor (u64w (to_int64 (fsub f f_two63))) x_two63.

(* floor division of a non-negative by a positive integer, float-assisted (see header) *)
Definition qdiv_try (a b q : Z) : bool := (0 <=? q) && (q * b <=? a) && (a <? (q + 1) * b).
Definition qdiv (a b : Z) : Z :=
  if (0 <=? a) && (0 <? b) then
    let q0 := to_int64 (fdiv (of_Z a) (of_Z b)) in
    if qdiv_try a b q0 then q0
    else if qdiv_try a b (q0 - 1) then q0 - 1
    else if qdiv_try a b (q0 + 1) then q0 + 1
    else a / b
  else a / b.

(* Go's signed `/` (truncation toward zero) by a positive constant *)
Definition squot (a b : Z) : Z := if (0 <=? a) && (0 <? b) then qdiv a b else Z.quot a b.
