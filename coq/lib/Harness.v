(* Helpers used only by the generated cases files of the correspondence checks (never by a
   property theorem): deterministic payloads and a digest, defined identically in vlib/common.py
   and in the Go harnesses. *)
From Hy Require Export lib.Bytes lib.Res.
Local Open Scope N_scope.

(* byte i = (a*i + b) mod 256 *)
Fixpoint gen_data_from (a b : N) (i : N) (n : nat) : list byte :=
  match n with O => [] | S k => n2b (a * i + b) :: gen_data_from a b (i + 1) k end.
Definition gen_data (a b : N) (n : N) : list byte := gen_data_from a b 0 (N.to_nat n).

Definition digest (l : list byte) : N :=
  fold_left (fun h c => (h * 131 + b2n c + 1) mod 4294967291) l 0.

Definition N_list_eqb (a b : list N) : bool :=
  (Nat.eqb (length a) (length b)) && forallb (fun p => fst p =? snd p) (combine a b).

Definition bytes_eqb (a b : list byte) : bool :=
  (Nat.eqb (length a) (length b)) && forallb (fun p => Byte.eqb (fst p) (snd p)) (combine a b).

(* indices of the cases on which the check function says false *)
Fixpoint mism_from {A} (chk : A -> bool) (i : nat) (l : list A) : list nat :=
  match l with
  | [] => []
  | c :: t => if chk c then mism_from chk (S i) t else i :: mism_from chk (S i) t
  end.
