(* Linearizability of a recorded concurrent history against an atomic-object specification:
   a small Wing-Gong search with a node budget, and its soundness lemma.

   A history is a list of completed operations, each with the stamp taken just before the
   call and the stamp taken just after the return (both drawn from one global atomic counter
   by the harness).  `a` really precedes `b` when `ev_ret a < ev_call b`.

   lin_check sp h = true  ->  some sequential order of h's operations
     - is a permutation of h,
     - never places an operation after one that really follows it (real-time order), and
     - replayed on the specification from its initial state produces, operation by operation,
       responses that `resp_eqb` accepts against the recorded ones.

   Generic: nothing here mentions a particular property. *)
From Coq Require Import List NArith Bool Permutation.
Import ListNotations.
Local Open Scope N_scope.

Record spec := mkSpec {
  St : Type;
  Op : Type;
  Resp : Type;
  init : St;
  step : St -> Op -> St * Resp;
  resp_eqb : Resp -> Resp -> bool   (* model response vs recorded response *)
}.

Record event (O R : Type) := mkEv { ev_op : O; ev_resp : R; ev_call : N; ev_ret : N }.
Arguments mkEv {O R} _ _ _ _.
Arguments ev_op {O R} _.
Arguments ev_resp {O R} _.
Arguments ev_call {O R} _.
Arguments ev_ret {O R} _.

Inductive verdict := LinYes | LinNo | LinFuel.

Section Search.
  Variable sp : spec.
  Notation ev := (event (Op sp) (Resp sp)).

  (* a returned before b was called *)
  Definition before (a b : ev) : bool := ev_ret a <? ev_call b.

  (* e may be linearized first among e :: others *)
  Definition minimal (e : ev) (others : list ev) : bool :=
    forallb (fun o => negb (before o e)) others.

  (* sequential replay of an order on the specification *)
  Fixpoint seq_ok (s : St sp) (l : list ev) : bool :=
    match l with
    | [] => true
    | e :: t => let (s', r) := step sp s (ev_op e) in resp_eqb sp r (ev_resp e) && seq_ok s' t
    end.

  (* the order never contradicts real time: nothing is placed before an operation that had
     already returned when it was called *)
  Definition rt_ok (l : list ev) : Prop := ForallOrdPairs (fun a b => before b a = false) l.

  (* try each candidate of `cands` as the next linearization point; `pre` = candidates already
     rejected at this node (still pending); `rec` explores the rest *)
  Fixpoint try_cands (rec : St sp -> list ev -> N -> verdict * N)
           (s : St sp) (pre cands : list ev) (budget : N) : verdict * N :=
    match cands with
    | [] => (LinNo, budget)
    | e :: cs =>
        if budget =? 0 then (LinFuel, 0)
        else
          let rest := rev_append pre cs in
          if minimal e rest then
            let (s', r) := step sp s (ev_op e) in
            if resp_eqb sp r (ev_resp e) then
              match rec s' rest (budget - 1) with
              | (LinYes, b) => (LinYes, b)
              | (LinFuel, b) => (LinFuel, b)
              | (LinNo, b) => try_cands rec s (e :: pre) cs b
              end
            else try_cands rec s (e :: pre) cs budget
          else try_cands rec s (e :: pre) cs budget
    end.

  Fixpoint dfs (d : nat) (s : St sp) (pend : list ev) (budget : N) : verdict * N :=
    match pend with
    | [] => (LinYes, budget)
    | _ :: _ =>
        match d with
        | O => (LinFuel, budget)
        | S d' => try_cands (dfs d') s [] pend budget
        end
    end.

  Definition lin_search (budget : N) (h : list ev) : verdict :=
    fst (dfs (length h) (init sp) h budget).

  Definition lin_check_fuel (budget : N) (h : list ev) : bool :=
    match lin_search budget h with LinYes => true | _ => false end.

  (* ---------------------------------------------------------------- soundness *)

  Definition linearizable_from (s : St sp) (pend : list ev) : Prop :=
    exists l, Permutation l pend /\ rt_ok l /\ seq_ok s l = true.

  Lemma minimal_Forall e others :
    minimal e others = true -> Forall (fun o => before o e = false) others.
  Proof.
    unfold minimal. rewrite forallb_forall. intro H. apply Forall_forall. intros o Ho.
    specialize (H o Ho). now apply negb_true_iff in H.
  Qed.

  Lemma try_cands_sound rec :
    (forall s p b b', rec s p b = (LinYes, b') -> linearizable_from s p) ->
    forall cands s pre budget b',
      try_cands rec s pre cands budget = (LinYes, b') ->
      linearizable_from s (rev pre ++ cands).
  Proof.
    intros Hrec. induction cands as [|e cs IH]; intros s pre budget b' H; cbn [try_cands] in H.
    - discriminate.
    - destruct (budget =? 0) eqn:Eb; [discriminate|].
      assert (Hnext : forall b, try_cands rec s (e :: pre) cs b = (LinYes, b') ->
                                linearizable_from s (rev pre ++ e :: cs)).
      { intros b Hb. apply IH in Hb. cbn [rev] in Hb. now rewrite <- app_assoc in Hb. }
      destruct (minimal e (rev_append pre cs)) eqn:Em; [|now apply Hnext in H].
      destruct (step sp s (ev_op e)) as [s' r] eqn:Es.
      destruct (resp_eqb sp r (ev_resp e)) eqn:Er; [|now apply Hnext in H].
      destruct (rec s' (rev_append pre cs) (budget - 1)) as [v b] eqn:Erec.
      destruct v; [|now apply Hnext in H|discriminate].
      apply Hrec in Erec. destruct Erec as (l & Hp & Hrt & Hseq).
      rewrite rev_append_rev in Hp, Em.
      exists (e :: l). split; [|split].
      + now apply Permutation_cons_app.
      + constructor; [|exact Hrt].
        apply minimal_Forall in Em.
        apply (Permutation_Forall (Permutation_sym Hp)) in Em. exact Em.
      + cbn [seq_ok]. rewrite Es, Er. exact Hseq.
  Qed.

  Lemma dfs_sound : forall d s pend b b',
    dfs d s pend b = (LinYes, b') -> linearizable_from s pend.
  Proof.
    induction d as [|d IH]; intros s pend b b' H.
    - destruct pend; cbn in H; [|discriminate].
      exists []. repeat split; constructor.
    - destruct pend as [|e t].
      + exists []. repeat split; constructor.
      + cbn [dfs] in H. apply (try_cands_sound (dfs d) IH) in H. exact H.
  Qed.

  Theorem lin_check_fuel_sound budget h :
    lin_check_fuel budget h = true ->
    exists l, Permutation l h /\ rt_ok l /\ seq_ok (init sp) l = true.
  Proof.
    unfold lin_check_fuel, lin_search.
    destruct (dfs (length h) (init sp) h budget) as [v b] eqn:E. cbn [fst].
    destruct v; try discriminate. intros _. exact (dfs_sound _ _ _ _ _ E).
  Qed.

  (* ---------------------------------------------------------------- completeness
     (not needed for soundness of a check that only trusts LinYes; it says the search is not
     stricter than the definition: LinNo is a proof that no linearization exists) *)

  Lemma Forall_minimal e others :
    Forall (fun o => before o e = false) others -> minimal e others = true.
  Proof.
    intro H. unfold minimal. apply forallb_forall. intros o Ho.
    rewrite Forall_forall in H. now rewrite (H o Ho).
  Qed.

  Lemma try_cands_complete rec d s :
    (forall s' p b b', (length p <= d)%nat -> rec s' p b = (LinNo, b') -> ~ linearizable_from s' p) ->
    forall cands pre budget b',
      (length pre + length cands <= S d)%nat ->
      try_cands rec s pre cands budget = (LinNo, b') ->
      forall c1 e c2, cands = c1 ++ e :: c2 ->
        minimal e (rev pre ++ c1 ++ c2) = true ->
        resp_eqb sp (snd (step sp s (ev_op e))) (ev_resp e) = true ->
        ~ linearizable_from (fst (step sp s (ev_op e))) (rev pre ++ c1 ++ c2).
  Proof.
    intros Hrec. induction cands as [|x cs IH]; intros pre budget b' Hlen H c1 e c2 Hsplit Hmin Hresp.
    - destruct c1; discriminate.
    - cbn [try_cands] in H. destruct (budget =? 0) eqn:Eb; [discriminate|].
      destruct c1 as [|y c1'].
      + cbn [app] in Hsplit. inversion Hsplit; subst x cs. cbn [app] in *.
        rewrite rev_append_rev in H. rewrite Hmin in H.
        destruct (step sp s (ev_op e)) as [s' r] eqn:Es. cbn [fst snd] in *. rewrite Hresp in H.
        destruct (rec s' (rev pre ++ c2) (budget - 1)) as [v b] eqn:Erec.
        destruct v; try discriminate.
        apply (Hrec _ _ _ _) in Erec; [exact Erec|].
        rewrite app_length, rev_length. cbn [length] in Hlen. apply le_S_n.
        rewrite <- Hlen. rewrite <- plus_n_Sm. apply le_n.
      + cbn [app] in Hsplit. inversion Hsplit; subst y cs.
        assert (Hnext : exists b, try_cands rec s (x :: pre) (c1' ++ e :: c2) b = (LinNo, b')).
        { destruct (minimal x (rev_append pre (c1' ++ e :: c2))); [|eauto].
          destruct (step sp s (ev_op x)) as [sx rx].
          destruct (resp_eqb sp rx (ev_resp x)); [|eauto].
          destruct (rec sx (rev_append pre (c1' ++ e :: c2)) (budget - 1)) as [v b].
          destruct v; try discriminate. eauto. }
        destruct Hnext as [b Hb].
        assert (Hlen' : (length (x :: pre) + length (c1' ++ e :: c2) <= S d)%nat).
        { cbn [length] in *. rewrite <- plus_n_Sm in Hlen. exact Hlen. }
        specialize (IH (x :: pre) b b' Hlen' Hb c1' e c2 eq_refl).
        cbn [rev] in IH. rewrite <- !app_assoc in IH. cbn [app] in IH, Hmin |- *.
        exact (IH Hmin Hresp).
  Qed.

  Lemma dfs_complete : forall d s pend b b',
    (length pend <= d)%nat -> dfs d s pend b = (LinNo, b') -> ~ linearizable_from s pend.
  Proof.
    induction d as [|d IH]; intros s pend b b' Hlen H.
    - destruct pend; cbn in H; discriminate.
    - destruct pend as [|e0 t]; [cbn in H; discriminate|].
      cbn [dfs] in H. intros (l & Hp & Hrt & Hseq).
      destruct l as [|e l'].
      { apply Permutation_nil in Hp. discriminate. }
      assert (Hin : In e (e0 :: t)) by (apply (Permutation_in _ Hp); now left).
      apply in_split in Hin. destruct Hin as (c1 & c2 & Hsplit).
      rewrite Hsplit in Hp. apply Permutation_cons_app_inv in Hp.
      inversion Hrt as [|? ? Hfa Hrt']; subst.
      cbn [seq_ok] in Hseq. destruct (step sp s (ev_op e)) as [s' r] eqn:Es.
      apply andb_prop in Hseq. destruct Hseq as [Hr Hseq'].
      assert (Hl : (length (@nil ev) + length (e0 :: t) <= S d)%nat) by exact Hlen.
      refine (try_cands_complete (dfs d) d s IH (e0 :: t) [] b b' Hl H c1 e c2 Hsplit _ _ _).
      + cbn [rev app]. apply Forall_minimal. exact (Permutation_Forall Hp Hfa).
      + now rewrite Es.
      + rewrite Es. cbn [fst rev app]. exists l'. repeat split; assumption.
  Qed.

  Theorem lin_search_complete budget h :
    lin_search budget h = LinNo ->
    ~ exists l, Permutation l h /\ rt_ok l /\ seq_ok (init sp) l = true.
  Proof.
    unfold lin_search. destruct (dfs (length h) (init sp) h budget) as [v b] eqn:E. cbn [fst].
    intro Hv; subst v. exact (dfs_complete _ _ _ _ _ (le_n _) E).
  Qed.

  (* a sequential history (each operation returns before the next is called) has exactly one
     admissible order: itself.  Useful as a sanity lemma for harnesses. *)
  Lemma rt_ok_cons e l : rt_ok (e :: l) <-> Forall (fun o => before o e = false) l /\ rt_ok l.
  Proof.
    split.
    - intro H. inversion H; subst. split; assumption.
    - intros [H1 H2]. constructor; assumption.
  Qed.
End Search.

(* default node budget: ample for histories of <= 20 operations *)
Definition lin_default_budget : N := 400000.

Definition lin_check (sp : spec) (h : list (event (Op sp) (Resp sp))) : bool :=
  lin_check_fuel sp lin_default_budget h.

Theorem lin_check_sound (sp : spec) (h : list (event (Op sp) (Resp sp))) :
  lin_check sp h = true ->
  exists l, Permutation l h /\ rt_ok sp l /\ seq_ok sp (init sp) l = true.
Proof. apply lin_check_fuel_sound. Qed.
