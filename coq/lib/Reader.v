(* Reader: Go's io.Reader as a finite script of read events, with the helpers the protocol
   readers are written with (io.ReadFull, quicvarint's byteReader.ReadByte, quicvarint.Read,
   io.CopyN(io.Discard, r, n)) and counters that make "reads exactly the frame" and "rejects
   before the declared amount is requested or allocated" statable.

   Shared by C04 (TCP request/response framing), C17 and C18.

   == The script ==
   A reader is a list of events.  [Ev bs oe] is "the next bytes the reader has are [bs]; the Read
   call that takes the last of them returns the error [oe] together with them":
     Chunk bs      = Ev bs None           data, no error
     ZeroRead      = Ev [] None           Read returns (0, nil)   (allowed by the io.Reader contract)
     Fail e        = Ev [] (Some e)       Read returns (0, e)     (io.EOF, a timeout, a reset ...)
     Ev bs (Some e), bs <> []             Read returns (len bs, e): data and error in one call, as a
                                          QUIC stream does for the last bytes before FIN
   A Read(p) with len p = n on [Ev bs oe :: t] returns all of bs (and oe) when length bs <= n and
   continues with t; otherwise it returns the first n bytes without error and leaves
   [Ev (skipn n bs) oe :: t].  An exhausted script behaves like a closed stream: (0, io.EOF) forever.
   (Go readers differ on Read with an empty p; none of the modelled callers does that, the
   definition below is merely total there.)

   == Counters ==
   c_req   sum of len(p) over all Read calls ("bytes requested"; a retried zero-length read counts again)
   c_max   largest len(p) of any single Read call
   c_calls number of Read calls
   c_alloc bytes allocated by make() for peer-declared lengths in the modelled function

   == Specification vocabulary ==
   [sdata s]            all data bytes of a script, in order
   [clean s]            no event carries an error (only chunks and zero-length reads)
   [delivers s d post]  s = pre ++ post with pre clean and sdata pre = d: the stream hands over exactly
                        the bytes d, split into reads in an arbitrary way (pre), and then goes on as post
                        (post is arbitrary: more data, errors, nothing).
   Every helper has a lemma of the shape
       delivers s (b ++ t) post -> helper reads b -> result is b and the new script delivers t before post
   so that frame readers compose; [read_full_exact] is the plain corollary for post = []. *)
From Hy Require Export lib.Bytes lib.Res lib.Varint.
From Coq Require Import ZArith ZifyBool ZifyN ZifyNat.
Local Open Scope N_scope.

Inductive ev := Ev (data : list byte) (err : option errc).
Definition script := list ev.

Notation Chunk bs := (Ev bs None).
Notation ZeroRead := (Ev [] None).
Notation Fail e := (Ev [] (Some e)).
Notation ErrEOF := (Ev [] (Some EEof)).
Notation ErrOther := (Ev [] (Some EOther)).

Record ctr := mkCtr { c_req : N; c_max : N; c_calls : N; c_alloc : N }.
Definition ctr0 : ctr := mkCtr 0 0 0 0.

(* one Read call with len(p) = n *)
Definition tick (n : nat) (c : ctr) : ctr :=
  mkCtr (c_req c + N.of_nat n) (N.max (c_max c) (N.of_nat n)) (c_calls c + 1) (c_alloc c).
(* one make([]byte, n) *)
Definition charge (n : N) (c : ctr) : ctr :=
  mkCtr (c_req c) (c_max c) (c_calls c) (c_alloc c + n).

(* ---------- io.Reader.Read ---------- *)
Definition read1 (n : nat) (s : script) : (list byte * option errc) * script :=
  match s with
  | [] => (([], Some EEof), [])
  | Ev bs oe :: t =>
      if Nat.leb (length bs) n then ((bs, oe), t)
      else ((firstn n bs, None), Ev (skipn n bs) oe :: t)
  end.

(* ---------- io.ReadFull(r, buf), len buf = need ----------
     for n < min && err == nil { nn, err = r.Read(buf[n:]); n += nn }
     if n >= min { err = nil } else if n > 0 && err == EOF { err = ErrUnexpectedEOF }
   [acc] = the bytes already in buf.  Structural on the script; [read_full_unfold] below shows it is
   the Go loop over [read1]. *)
Definition read_full_err (got : list byte) (e : errc) : errc :=
  match got, e with
  | _ :: _, EEof => EShort      (* io.ErrUnexpectedEOF *)
  | _, _ => e
  end.

Fixpoint read_full_s (s : script) (need : nat) (acc : list byte) (c : ctr) {struct s}
  : Res (list byte) * script * ctr :=
  match need with
  | O => (Ok acc, s, c)
  | S _ =>
      match s with
      | [] => (Err (read_full_err acc EEof), [], tick need c)
      | Ev bs oe :: t =>
          if Nat.leb (length bs) need then
            match oe with
            | None => read_full_s t (need - length bs) (acc ++ bs) (tick need c)
            | Some e =>
                if Nat.eqb (length bs) need then (Ok (acc ++ bs), t, tick need c)
                else (Err (read_full_err (acc ++ bs) e), t, tick need c)
            end
          else (Ok (acc ++ firstn need bs), Ev (skipn need bs) oe :: t, tick need c)
      end
  end.

(* ---------- quicvarint byteReader.ReadByte ----------
     for n == 0 && err == nil { n, err = r.Read(b[:]) }      (b is [1]byte)
     if n == 1 && err == io.EOF { err = nil }
     return b[0], err *)
Fixpoint read_byte_s (s : script) (c : ctr) {struct s} : Res byte * script * ctr :=
  match s with
  | [] => (Err EEof, [], tick 1 c)
  | Ev [] None :: t => read_byte_s t (tick 1 c)
  | Ev [] (Some e) :: t => (Err e, t, tick 1 c)
  | Ev [b] oe :: t =>
      (match oe with None => Ok b | Some EEof => Ok b | Some e => Err e end, t, tick 1 c)
  | Ev (b :: bs) oe :: t => (Ok b, Ev bs oe :: t, tick 1 c)
  end.

(* k successive ReadByte calls, stopping at the first error *)
Fixpoint read_bytes_s (k : nat) (s : script) (c : ctr) : Res (list byte) * script * ctr :=
  match k with
  | O => (Ok [], s, c)
  | S k' =>
      match read_byte_s s c with
      | (Ok b, s1, c1) =>
          match read_bytes_s k' s1 c1 with
          | (Ok bs, s2, c2) => (Ok (b :: bs), s2, c2)
          | (Err e, s2, c2) => (Err e, s2, c2)
          | (Panic p, s2, c2) => (Panic p, s2, c2)
          end
      | (Err e, s1, c1) => (Err e, s1, c1)
      | (Panic p, s1, c1) => (Panic p, s1, c1)
      end
  end.

(* ---------- quicvarint.Read(byteReader) ----------
   first byte, then 2^(top two bits) - 1 more, each through ReadByte; any error is returned as is
   (io.EOF in the middle of a varint stays io.EOF).  Value as Varint.varint_read computes it. *)
Definition read_varint_s (s : script) (c : ctr) : Res N * script * ctr :=
  match read_byte_s s c with
  | (Ok b0, s1, c1) =>
      let k := Nat.pred (varint_width_of_first b0) in
      match read_bytes_s k s1 c1 with
      | (Ok t, s2, c2) => (Ok ((b2n b0 mod 64) * 256 ^ N.of_nat k + be_dec t), s2, c2)
      | (Err e, s2, c2) => (Err e, s2, c2)
      | (Panic p, s2, c2) => (Panic p, s2, c2)
      end
  | (Err e, s1, c1) => (Err e, s1, c1)
  | (Panic p, s1, c1) => (Panic p, s1, c1)
  end.

(* ---------- io.CopyN(io.Discard, r, n), n > 0 or n = 0 ----------
   CopyN = Copy(Discard, LimitReader(r, n)); Discard implements ReaderFrom, so the loop is
   discard.ReadFrom over the LimitedReader with the pooled 8192-byte buffer:
     LimitedReader.Read(p): if N <= 0 { return 0, EOF }; if len(p) > N { p = p[:N] }; n, err = R.Read(p); N -= n
     ReadFrom: for { k, err = lr.Read(buf); count += k; if err != nil { if err == EOF { return count, nil }; return count, err } }
     CopyN: if written == n { return n, nil }; if written < n && err == nil { err = EOF }
   Every Read of the underlying reader asks for min(8192, remaining) bytes.
   Fuel: remaining + length s strictly decreases per iteration; [copyn] supplies enough and
   [copyn_never_panics] shows the out-of-fuel marker (Panic 999) is unreachable. *)
Definition discard_buf : nat := N.to_nat 8192.

Fixpoint copyn_f (fuel : nat) (s : script) (remaining : nat) (c : ctr) : Res unit * script * ctr :=
  match remaining with
  | O => (Ok tt, s, c)
  | S _ =>
      match fuel with
      | O => (Panic 999, s, c)
      | S f =>
          let sz := Nat.min discard_buf remaining in
          let r := read1 sz s in
          let bs := fst (fst r) in
          let c' := tick sz c in
          match snd (fst r) with
          | None => copyn_f f (snd r) (remaining - length bs) c'
          | Some e =>
              if Nat.eqb (remaining - length bs) 0 then (Ok tt, snd r, c') else (Err e, snd r, c')
          end
      end
  end.

Definition copyn (s : script) (n : nat) (c : ctr) : Res unit * script * ctr :=
  copyn_f (n + length s) s n c.

(* ---------- the IO state monad the frame readers are written in ---------- *)
Record rstate := mkRS { rs_script : script; rs_ctr : ctr }.
Definition IO (A : Type) := rstate -> Res A * rstate.

Definition io_ret {A} (a : A) : IO A := fun st => (Ok a, st).
Definition io_fail {A} (e : errc) : IO A := fun st => (Err e, st).
Definition io_bind {A B} (m : IO A) (f : A -> IO B) : IO B :=
  fun st =>
    match m st with
    | (Ok a, st') => f a st'
    | (Err e, st') => (Err e, st')
    | (Panic p, st') => (Panic p, st')
    end.
Notation "x <~ m ;; k" := (io_bind m (fun x => k)) (at level 61, m at next level, right associativity).

Definition lift3 {A} (r : Res A * script * ctr) : Res A * rstate :=
  (fst (fst r), mkRS (snd (fst r)) (snd r)).

Definition io_read_full (n : nat) : IO (list byte) :=
  fun st => lift3 (read_full_s (rs_script st) n [] (rs_ctr st)).
Definition io_read_byte : IO byte := fun st => lift3 (read_byte_s (rs_script st) (rs_ctr st)).
Definition io_read_varint : IO N := fun st => lift3 (read_varint_s (rs_script st) (rs_ctr st)).
Definition io_copyn_discard (n : nat) : IO unit :=
  fun st => lift3 (copyn (rs_script st) n (rs_ctr st)).

(* make([]byte, n) with n a uint64: the runtime panics (makeslice: len out of range) above maxAlloc
   (2^48 on linux/amd64).  Any threshold above the protocol limits gives the same theorems. *)
Definition go_make_limit : N := 2 ^ 48.
Definition io_make (site : N) (n : N) : IO unit :=
  fun st => if n <=? go_make_limit then (Ok tt, mkRS (rs_script st) (charge n (rs_ctr st)))
            else (Panic site, st).

(* ---------- specification vocabulary ---------- *)
Definition ev_data (e : ev) : list byte := match e with Ev bs _ => bs end.
Definition clean_ev (e : ev) : bool := match e with Ev _ None => true | Ev _ (Some _) => false end.
Definition sdata (s : script) : list byte := concat (map ev_data s).
Definition clean (s : script) : Prop := forallb clean_ev s = true.
Definition delivers (s : script) (d : list byte) (post : script) : Prop :=
  exists pre, s = pre ++ post /\ clean pre /\ sdata pre = d.

(* ====================================================================== *)
(* Lemmas                                                                  *)
(* ====================================================================== *)

Lemma sdata_app a b : sdata (a ++ b) = sdata a ++ sdata b.
Proof. unfold sdata. now rewrite map_app, concat_app. Qed.

Lemma sdata_cons bs oe s : sdata (Ev bs oe :: s) = bs ++ sdata s.
Proof. reflexivity. Qed.

Lemma clean_cons bs oe s : clean (Ev bs oe :: s) <-> oe = None /\ clean s.
Proof.
  unfold clean. cbn [forallb clean_ev]. destruct oe; cbn; split; intros H.
  - discriminate.
  - destruct H; discriminate.
  - now split.
  - now destruct H.
Qed.

Lemma delivers_refl d s : clean s -> sdata s = d -> delivers s d [].
Proof. intros Hc Hd. exists s. now rewrite app_nil_r. Qed.

Lemma delivers_nil_post s d : delivers s d [] <-> clean s /\ sdata s = d.
Proof.
  split.
  - intros (pre & -> & Hc & Hd). now rewrite app_nil_r.
  - intros [Hc Hd]. now apply delivers_refl.
Qed.

Lemma delivers_sdata s d post : delivers s d post -> sdata s = d ++ sdata post.
Proof. intros (pre & -> & _ & <-). apply sdata_app. Qed.

Lemma delivers_here post : delivers post [] post.
Proof. exists []. repeat split. Qed.

Lemma app_split_le {A} (a x b y : list A) :
  a ++ x = b ++ y -> (length a <= length b)%nat -> exists m, b = a ++ m /\ x = m ++ y.
Proof.
  revert b. induction a as [|h a IH]; intros b H L.
  - exists b. now split.
  - destruct b as [|h' b]; [simpl in L; lia|].
    simpl in H. injection H as -> H. simpl in L.
    destruct (IH b H ltac:(lia)) as (m & -> & ->). now exists m.
Qed.

(* the shape of a script that still has to deliver at least one byte *)
Lemma delivers_cons_inv s b d post :
  delivers s (b :: d) post ->
  exists bs t, s = Ev bs None :: t /\
    ((bs = [] /\ delivers t (b :: d) post) \/
     (exists bs', bs = b :: bs' /\
        ((bs' = [] /\ delivers t d post) \/ (bs' <> [] /\ delivers (Ev bs' None :: t) d post)))).
Proof.
  intros (pre & -> & Hc & Hd).
  destruct pre as [|[bs oe] p]; [discriminate Hd|].
  apply clean_cons in Hc as [-> Hc]. rewrite sdata_cons in Hd.
  exists bs, (p ++ post). split; [reflexivity|].
  destruct bs as [|b0 bs'].
  - left. split; [reflexivity|]. now exists p.
  - right. simpl in Hd. injection Hd as -> Hd. exists bs'. split; [reflexivity|].
    destruct bs' as [|b1 bs''].
    + left. split; [reflexivity|]. now exists p.
    + right. split; [discriminate|]. exists (Ev (b1 :: bs'') None :: p).
      split; [reflexivity|]. split; [|exact Hd]. apply clean_cons. now split.
Qed.

(* ---------- read_full ---------- *)
Lemma read_full_s_0 s acc c : read_full_s s 0 acc c = (Ok acc, s, c).
Proof. destruct s; reflexivity. Qed.

(* the structural definition is the Go loop over read1 *)
Lemma read_full_unfold s need acc c :
  read_full_s s need acc c =
  match need with
  | O => (Ok acc, s, c)
  | S _ =>
      let r := read1 need s in
      let bs := fst (fst r) in
      match snd (fst r) with
      | None => read_full_s (snd r) (need - length bs) (acc ++ bs) (tick need c)
      | Some e =>
          if Nat.eqb (length bs) need then (Ok (acc ++ bs), snd r, tick need c)
          else (Err (read_full_err (acc ++ bs) e), snd r, tick need c)
      end
  end.
Proof.
  destruct need as [|k]; [apply read_full_s_0|].
  destruct s as [|[bs oe] t].
  - cbn. now rewrite app_nil_r.
  - cbn [read_full_s read1]. destruct (Nat.leb (length bs) (S k)) eqn:E.
    + cbn [fst snd]. destruct oe; reflexivity.
    + cbn [fst snd]. apply Nat.leb_gt in E.
      rewrite firstn_length_le by lia. rewrite Nat.sub_diag. now rewrite read_full_s_0.
Qed.

Lemma read_full_pre pre : clean pre ->
  forall b t post acc c, sdata pre = b ++ t ->
  exists pre' c', read_full_s (pre ++ post) (length b) acc c = (Ok (acc ++ b), pre' ++ post, c')
                  /\ clean pre' /\ sdata pre' = t.
Proof.
  induction pre as [|[bs oe] p IH]; intros Hc b t post acc c Hd.
  - destruct b; [|discriminate Hd]. simpl in Hd. subst t.
    exists [], c. rewrite read_full_s_0, app_nil_r. repeat split.
  - apply clean_cons in Hc as [-> Hc]. rewrite sdata_cons in Hd.
    destruct b as [|b0 b'].
    + exists (Ev bs None :: p), c. simpl length. rewrite read_full_s_0, app_nil_r.
      repeat split; [now apply clean_cons|exact Hd].
    + remember (b0 :: b') as b eqn:Eb.
      assert (Hlen: length b = S (length b')) by (subst b; reflexivity).
      cbn [app read_full_s]. rewrite Hlen. rewrite <- Hlen.
      destruct (Nat.leb (length bs) (length b)) eqn:E.
      * apply Nat.leb_le in E. destruct (app_split_le _ _ _ _ Hd E) as (m & Hb & Hp).
        assert (Hm: (length b - length bs)%nat = length m).
        { rewrite Hb, app_length. lia. }
        rewrite Hm. destruct (IH Hc m t post (acc ++ bs) (tick (length b) c) Hp) as (pre' & c' & R & C' & D').
        exists pre', c'. rewrite R, Hb, <- app_assoc. auto.
      * apply Nat.leb_gt in E. symmetry in Hd.
        destruct (app_split_le _ _ _ _ Hd ltac:(lia)) as (m & Hb & Ht).
        exists (Ev m None :: p), (tick (length b) c).
        rewrite Hb. rewrite firstn_app_exact, skipn_app_exact by reflexivity.
        repeat split; [now apply clean_cons|]. rewrite sdata_cons. now symmetry.
Qed.

Lemma read_full_delivers s b t post acc c :
  delivers s (b ++ t) post ->
  exists s' c', read_full_s s (length b) acc c = (Ok (acc ++ b), s', c') /\ delivers s' t post.
Proof.
  intros (pre & -> & Hc & Hd).
  destruct (read_full_pre pre Hc b t post acc c Hd) as (pre' & c' & R & C' & D').
  exists (pre' ++ post), c'. split; [exact R|]. now exists pre'.
Qed.

(* The key lemma in its plain form: whatever the chunking (zero-length reads included), reading
   exactly length b bytes of a stream b ++ t returns b and leaves a stream whose data is t. *)
Lemma read_full_exact s b t c :
  clean s -> sdata s = b ++ t ->
  exists s' c', read_full_s s (length b) [] c = (Ok b, s', c') /\ clean s' /\ sdata s' = t.
Proof.
  intros Hc Hd.
  destruct (read_full_delivers s b t [] [] c (delivers_refl _ _ Hc Hd)) as (s' & c' & R & D).
  exists s', c'. split; [exact R|]. now apply delivers_nil_post.
Qed.

(* ---------- read_byte ---------- *)
Lemma read_byte_pre pre : clean pre ->
  forall b t post c, sdata pre = b :: t ->
  exists pre' c', read_byte_s (pre ++ post) c = (Ok b, pre' ++ post, c') /\ clean pre' /\ sdata pre' = t.
Proof.
  induction pre as [|[bs oe] p IH]; intros Hc b t post c Hd; [discriminate Hd|].
  apply clean_cons in Hc as [-> Hc]. rewrite sdata_cons in Hd.
  destruct bs as [|b0 [|b1 bs]].
  - simpl in Hd. destruct (IH Hc b t post (tick 1 c) Hd) as (pre' & c' & R & C' & D').
    exists pre', c'. cbn [app read_byte_s]. auto.
  - simpl in Hd. injection Hd as -> Hd. exists p, (tick 1 c). cbn [app read_byte_s]. auto.
  - simpl in Hd. injection Hd as -> Hd. exists (Ev (b1 :: bs) None :: p), (tick 1 c).
    cbn [app read_byte_s]. repeat split; [now apply clean_cons|exact Hd].
Qed.

Lemma read_byte_delivers s b t post c :
  delivers s (b :: t) post ->
  exists s' c', read_byte_s s c = (Ok b, s', c') /\ delivers s' t post.
Proof.
  intros (pre & -> & Hc & Hd).
  destruct (read_byte_pre pre Hc b t post c Hd) as (pre' & c' & R & C' & D').
  exists (pre' ++ post), c'. split; [exact R|]. now exists pre'.
Qed.

Lemma read_bytes_delivers k : forall s bs t post c,
  length bs = k -> delivers s (bs ++ t) post ->
  exists s' c', read_bytes_s k s c = (Ok bs, s', c') /\ delivers s' t post.
Proof.
  induction k as [|k IH]; intros s bs t post c Hl Hd.
  - destruct bs; [|discriminate Hl]. exists s, c. now split.
  - destruct bs as [|b bs]; [discriminate Hl|]. injection Hl as Hl.
    destruct (read_byte_delivers s b (bs ++ t) post c Hd) as (s1 & c1 & R1 & D1).
    destruct (IH s1 bs t post c1 Hl D1) as (s2 & c2 & R2 & D2).
    exists s2, c2. cbn [read_bytes_s]. rewrite R1, R2. now split.
Qed.

(* streaming varint read = Varint.varint_read on the delivered bytes *)
Lemma read_varint_delivers s d v t post c :
  delivers s d post -> varint_read d = Some (v, t) ->
  exists s' c', read_varint_s s c = (Ok v, s', c') /\ delivers s' t post.
Proof.
  intros Hd Hv. destruct d as [|b0 r]; [discriminate Hv|].
  rewrite varint_read_cons in Hv. cbv zeta in Hv.
  set (k := Nat.pred (N.to_nat (2 ^ (b2n b0 / 64)))) in *.
  destruct (Nat.ltb (length r) k) eqn:E; [discriminate Hv|]. apply Nat.ltb_ge in E.
  injection Hv as <- <-.
  destruct (read_byte_delivers s b0 r post c Hd) as (s1 & c1 & R1 & D1).
  rewrite <- (firstn_skipn k r) in D1.
  destruct (read_bytes_delivers k s1 (firstn k r) (skipn k r) post c1
              ltac:(rewrite firstn_length; lia) D1) as (s2 & c2 & R2 & D2).
  exists s2, c2. unfold read_varint_s. rewrite R1. unfold varint_width_of_first. fold k.
  rewrite R2. now split.
Qed.

(* ---------- CopyN -> Discard ---------- *)
Lemma copyn_f_0 fuel s c : copyn_f fuel s 0 c = (Ok tt, s, c).
Proof. destruct fuel; reflexivity. Qed.

Lemma copyn_pre fuel : forall pre, clean pre ->
  forall b t post c, sdata pre = b ++ t -> (length b + length pre <= fuel)%nat ->
  exists pre' c', copyn_f fuel (pre ++ post) (length b) c = (Ok tt, pre' ++ post, c')
                  /\ clean pre' /\ sdata pre' = t.
Proof.
  induction fuel as [|f IH]; intros pre Hc b t post c Hd Hf.
  - destruct b; [|simpl in Hf; lia]. destruct pre; [|simpl in Hf; lia].
    simpl in Hd. subst t. exists [], c. now rewrite copyn_f_0.
  - destruct b as [|b0 b'].
    + exists pre, c. simpl length. rewrite copyn_f_0. now repeat split.
    + remember (b0 :: b') as b eqn:Eb.
      assert (Hlen: length b = S (length b')) by (subst b; reflexivity).
      destruct pre as [|[bs oe] p]; [subst b; discriminate Hd|].
      apply clean_cons in Hc as [-> Hc]. rewrite sdata_cons in Hd.
      cbn [copyn_f]. rewrite Hlen. rewrite <- Hlen. cbv zeta.
      set (sz := Nat.min discard_buf (length b)).
      assert (Hsz: (1 <= sz <= length b)%nat) by (unfold sz, discard_buf; lia).
      cbn [app read1]. destruct (Nat.leb (length bs) sz) eqn:E; cbn [fst snd].
      * apply Nat.leb_le in E.
        destruct (app_split_le _ _ _ _ Hd ltac:(lia)) as (m & Hb & Hp).
        assert (Hm: (length b - length bs)%nat = length m) by (rewrite Hb, app_length; lia).
        rewrite Hm.
        destruct (IH p Hc m t post (tick sz c) Hp) as (pre' & c' & R & C' & D').
        { simpl in Hf. rewrite Hb, app_length in Hf. lia. }
        exists pre', c'. now rewrite R.
      * apply Nat.leb_gt in E.
        (* the chunk is longer than this read: sz bytes are taken from it *)
        set (m := skipn sz b).
        assert (Hfs: firstn sz bs = firstn sz b).
        { assert (H1: firstn sz (bs ++ sdata p) = firstn sz (b ++ t)) by now rewrite Hd.
          rewrite !firstn_app in H1.
          replace (sz - length bs)%nat with 0%nat in H1 by lia.
          replace (sz - length b)%nat with 0%nat in H1 by lia.
          simpl in H1. now rewrite !app_nil_r in H1. }
        assert (Hl: length (firstn sz bs) = sz) by (rewrite firstn_length; lia).
        rewrite Hl.
        assert (Hm: (length b - sz)%nat = length m) by (unfold m; rewrite skipn_length; lia).
        rewrite Hm.
        assert (Hd': sdata (Ev (skipn sz bs) None :: p) = m ++ t).
        { rewrite sdata_cons.
          assert (H1: skipn sz (bs ++ sdata p) = skipn sz (b ++ t)) by now rewrite Hd.
          rewrite !skipn_app in H1.
          replace (sz - length bs)%nat with 0%nat in H1 by lia.
          replace (sz - length b)%nat with 0%nat in H1 by lia.
          exact H1. }
        destruct (IH (Ev (skipn sz bs) None :: p) ltac:(now apply clean_cons) m t post (tick sz c) Hd')
          as (pre' & c' & R & C' & D').
        { simpl length in *. lia. }
        exists pre', c'. now rewrite <- R.
Qed.

Lemma copyn_delivers s b t post c :
  delivers s (b ++ t) post ->
  exists s' c', copyn s (length b) c = (Ok tt, s', c') /\ delivers s' t post.
Proof.
  intros (pre & -> & Hc & Hd). unfold copyn.
  destruct (copyn_pre (length b + length (pre ++ post)) pre Hc b t post c Hd) as (pre' & c' & R & C' & D').
  { rewrite app_length. lia. }
  exists (pre' ++ post), c'. split; [exact R|]. now exists pre'.
Qed.

(* ---------- totality: the helpers never panic, on any script ---------- *)
Lemma read_full_never_panics s : forall need acc c, is_panic (fst (fst (read_full_s s need acc c))) = false.
Proof.
  induction s as [|[bs oe] t IH]; intros need acc c; destruct need; try reflexivity.
  cbn [read_full_s]. destruct (Nat.leb (length bs) (S need)); [|reflexivity].
  destruct oe; [|apply IH]. now destruct (Nat.eqb (length bs) (S need)).
Qed.

Lemma read_byte_never_panics s : forall c, is_panic (fst (fst (read_byte_s s c))) = false.
Proof.
  induction s as [|[bs oe] t IH]; intros c; [reflexivity|].
  destruct bs as [|b [|b1 bs]]; cbn [read_byte_s].
  - destruct oe; [reflexivity|apply IH].
  - destruct oe as [[]|]; reflexivity.
  - reflexivity.
Qed.

Lemma read_bytes_never_panics k : forall s c, is_panic (fst (fst (read_bytes_s k s c))) = false.
Proof.
  induction k as [|k IH]; intros s c; [reflexivity|]. cbn [read_bytes_s].
  pose proof (read_byte_never_panics s c) as H1.
  destruct (read_byte_s s c) as [[[b|e|p] s1] c1]; cbn in H1; try reflexivity; try discriminate.
  pose proof (IH s1 c1) as H2.
  destruct (read_bytes_s k s1 c1) as [[[bs|e|p] s2] c2]; cbn in H2; try reflexivity; discriminate.
Qed.

Lemma read_varint_never_panics s c : is_panic (fst (fst (read_varint_s s c))) = false.
Proof.
  unfold read_varint_s. pose proof (read_byte_never_panics s c) as H1.
  destruct (read_byte_s s c) as [[[b|e|p] s1] c1]; cbn in H1; try reflexivity; try discriminate.
  pose proof (read_bytes_never_panics (Nat.pred (varint_width_of_first b)) s1 c1) as H2.
  destruct (read_bytes_s _ s1 c1) as [[[bs|e|p] s2] c2]; cbn in H2; try reflexivity; discriminate.
Qed.

Lemma read1_length n s : (length (snd (read1 n s)) <= length s)%nat.
Proof. destruct s as [|[bs oe] t]; simpl; [lia|]. destruct (Nat.leb (length bs) n); simpl; lia. Qed.

(* a read of n >= 1 bytes either consumes an event or returns exactly n bytes *)
Lemma read1_progress n s : (1 <= n)%nat ->
  (length (snd (read1 n s)) < length s)%nat \/ s = [] \/
  (length (snd (read1 n s)) = length s /\ length (fst (fst (read1 n s))) = n /\ snd (fst (read1 n s)) = None).
Proof.
  intros Hn. destruct s as [|[bs oe] t]; [auto|]. cbn [read1].
  destruct (Nat.leb (length bs) n) eqn:E; cbn [fst snd length].
  - left. lia.
  - right. right. apply Nat.leb_gt in E. rewrite firstn_length. repeat split; lia.
Qed.

Lemma copyn_f_never_panics fuel : forall s rem c, (rem + length s <= fuel)%nat ->
  is_panic (fst (fst (copyn_f fuel s rem c))) = false.
Proof.
  induction fuel as [|f IH]; intros s rem c Hf.
  - destruct rem; [reflexivity|lia].
  - destruct rem as [|r]; [reflexivity|]. cbn [copyn_f]. cbv zeta.
    set (sz := Nat.min discard_buf (S r)).
    assert (Hsz: (1 <= sz <= S r)%nat) by (unfold sz, discard_buf; lia).
    destruct (read1_progress sz s ltac:(lia)) as [H|[H|(H1 & H2 & H3)]].
    + destruct (snd (fst (read1 sz s))).
      * now destruct (Nat.eqb _ 0).
      * apply IH. lia.
    + subst s. cbn [read1 fst snd].
      match goal with |- context[if ?x then _ else _] => destruct x end; reflexivity.
    + rewrite H3. apply IH. rewrite H1, H2. lia.
Qed.

Lemma copyn_never_panics s n c : is_panic (fst (fst (copyn s n c))) = false.
Proof. unfold copyn. apply copyn_f_never_panics. lia. Qed.

(* ---------- counters: what a helper may request / allocate, on any script ---------- *)
Lemma tick_alloc n c : c_alloc (tick n c) = c_alloc c.
Proof. reflexivity. Qed.

Lemma read_byte_ctr s : forall c,
  let c' := snd (read_byte_s s c) in
  c_alloc c' = c_alloc c /\ c_max c' <= N.max (c_max c) 1 /\ c_max c <= c_max c'.
Proof.
  induction s as [|[bs oe] t IH]; intros c; cbv zeta.
  - cbn. lia.
  - destruct bs as [|b [|b1 bs]]; cbn [read_byte_s].
    + destruct oe; [cbn; lia|]. specialize (IH (tick 1 c)). cbv zeta in IH. cbn in IH |- *. lia.
    + cbn. lia.
    + cbn. lia.
Qed.

Lemma read_bytes_ctr k : forall s c,
  let c' := snd (read_bytes_s k s c) in
  c_alloc c' = c_alloc c /\ c_max c' <= N.max (c_max c) 1 /\ c_max c <= c_max c'.
Proof.
  induction k as [|k IH]; intros s c; cbv zeta; [cbn; lia|]. cbn [read_bytes_s].
  pose proof (read_byte_ctr s c) as H1. cbv zeta in H1.
  destruct (read_byte_s s c) as [[[b|e|p] s1] c1]; cbn [snd] in *; try lia.
  pose proof (IH s1 c1) as H2. cbv zeta in H2.
  destruct (read_bytes_s k s1 c1) as [[[bs|e|p] s2] c2]; cbn [snd] in *; lia.
Qed.

Lemma read_varint_ctr s c :
  let c' := snd (read_varint_s s c) in
  c_alloc c' = c_alloc c /\ c_max c' <= N.max (c_max c) 1 /\ c_max c <= c_max c'.
Proof.
  cbv zeta. unfold read_varint_s.
  pose proof (read_byte_ctr s c) as H1. cbv zeta in H1.
  destruct (read_byte_s s c) as [[[b|e|p] s1] c1]; cbn [snd] in *; try lia.
  pose proof (read_bytes_ctr (Nat.pred (varint_width_of_first b)) s1 c1) as H2. cbv zeta in H2.
  destruct (read_bytes_s _ s1 c1) as [[[bs|e|p] s2] c2]; cbn [snd] in *; lia.
Qed.

Lemma read_full_ctr s : forall need acc c,
  let c' := snd (read_full_s s need acc c) in
  c_alloc c' = c_alloc c /\ c_max c' <= N.max (c_max c) (N.of_nat need) /\ c_max c <= c_max c'.
Proof.
  induction s as [|[bs oe] t IH]; intros need acc c; cbv zeta; destruct need as [|k]; try (cbn; lia).
  cbn [read_full_s]. destruct (Nat.leb (length bs) (S k)); [|cbn; lia].
  destruct oe.
  - destruct (Nat.eqb (length bs) (S k)); cbn; lia.
  - specialize (IH (S k - length bs)%nat (acc ++ bs) (tick (S k) c)). cbv zeta in IH.
    cbn [tick c_alloc c_max] in IH. lia.
Qed.

Lemma copyn_f_ctr fuel : forall s rem c,
  let c' := snd (copyn_f fuel s rem c) in
  c_alloc c' = c_alloc c /\ c_max c' <= N.max (c_max c) (N.of_nat rem) /\ c_max c <= c_max c'.
Proof.
  induction fuel as [|f IH]; intros s rem c; cbv zeta.
  - destruct rem; cbn; lia.
  - destruct rem as [|r]; [cbn; lia|]. cbn [copyn_f]. cbv zeta.
    set (sz := Nat.min discard_buf (S r)).
    assert (Hsz: (sz <= S r)%nat) by (unfold sz; lia).
    destruct (snd (fst (read1 sz s))).
    + destruct (Nat.eqb _ 0); cbn [snd tick c_alloc c_max]; lia.
    + specialize (IH (snd (read1 sz s)) (S r - length (fst (fst (read1 sz s))))%nat (tick sz c)).
      cbv zeta in IH. cbn [tick c_alloc c_max] in IH. lia.
Qed.

Lemma copyn_ctr s n c :
  let c' := snd (copyn s n c) in
  c_alloc c' = c_alloc c /\ c_max c' <= N.max (c_max c) (N.of_nat n) /\ c_max c <= c_max c'.
Proof. apply copyn_f_ctr. Qed.

(* ---------- the same facts at the level of the IO monad ---------- *)
Lemma io_bind_ok {A B} (m : IO A) (f : A -> IO B) st a st' :
  m st = (Ok a, st') -> io_bind m f st = f a st'.
Proof. unfold io_bind. now intros ->. Qed.

Lemma io_bind_err {A B} (m : IO A) (f : A -> IO B) st e st' :
  m st = (Err e, st') -> io_bind m f st = (Err e, st').
Proof. unfold io_bind. now intros ->. Qed.

(* what an IO step may do to the counters: nothing allocated, no Read larger than k *)
Definition quiet (k : N) (st st' : rstate) : Prop :=
  c_alloc (rs_ctr st') = c_alloc (rs_ctr st) /\
  c_max (rs_ctr st') <= N.max (c_max (rs_ctr st)) k /\
  c_max (rs_ctr st) <= c_max (rs_ctr st').

Lemma io_read_varint_quiet st : quiet 1 st (snd (io_read_varint st)).
Proof. unfold io_read_varint, lift3, quiet. cbn [snd rs_ctr]. apply read_varint_ctr. Qed.

Lemma io_read_full_quiet n st : quiet (N.of_nat n) st (snd (io_read_full n st)).
Proof. unfold io_read_full, lift3, quiet. cbn [snd rs_ctr]. apply read_full_ctr. Qed.

Lemma io_copyn_quiet n st : quiet (N.of_nat n) st (snd (io_copyn_discard n st)).
Proof. unfold io_copyn_discard, lift3, quiet. cbn [snd rs_ctr]. apply copyn_ctr. Qed.

Lemma io_read_varint_delivers st d v t post :
  delivers (rs_script st) d post -> varint_read d = Some (v, t) ->
  exists st', io_read_varint st = (Ok v, st') /\ delivers (rs_script st') t post /\ quiet 1 st st'.
Proof.
  intros Hd Hv.
  destruct (read_varint_delivers _ _ _ _ _ (rs_ctr st) Hd Hv) as (s' & c' & R & D).
  exists (mkRS s' c'). pose proof (io_read_varint_quiet st) as Q.
  unfold io_read_varint, lift3 in *. rewrite R in *. cbn [fst snd] in *. auto.
Qed.

Lemma io_read_full_delivers st b t post :
  delivers (rs_script st) (b ++ t) post ->
  exists st', io_read_full (length b) st = (Ok b, st') /\ delivers (rs_script st') t post
              /\ quiet (N.of_nat (length b)) st st'.
Proof.
  intros Hd.
  destruct (read_full_delivers _ _ _ _ [] (rs_ctr st) Hd) as (s' & c' & R & D).
  exists (mkRS s' c'). pose proof (io_read_full_quiet (length b) st) as Q.
  unfold io_read_full, lift3 in *. rewrite R in *. cbn [fst snd app] in *. auto.
Qed.

Lemma io_copyn_delivers st b t post :
  delivers (rs_script st) (b ++ t) post ->
  exists st', io_copyn_discard (length b) st = (Ok tt, st') /\ delivers (rs_script st') t post
              /\ quiet (N.of_nat (length b)) st st'.
Proof.
  intros Hd.
  destruct (copyn_delivers _ _ _ _ (rs_ctr st) Hd) as (s' & c' & R & D).
  exists (mkRS s' c'). pose proof (io_copyn_quiet (length b) st) as Q.
  unfold io_copyn_discard, lift3 in *. rewrite R in *. cbn [fst snd] in *. auto.
Qed.

Lemma io_make_ok site n st : n <= go_make_limit ->
  io_make site n st = (Ok tt, mkRS (rs_script st) (charge n (rs_ctr st))).
Proof. intros H. unfold io_make. apply N.leb_le in H. now rewrite H. Qed.

Lemma io_read_varint_never_panics st : is_panic (fst (io_read_varint st)) = false.
Proof. apply read_varint_never_panics. Qed.
Lemma io_read_full_never_panics n st : is_panic (fst (io_read_full n st)) = false.
Proof. apply read_full_never_panics. Qed.
Lemma io_copyn_never_panics n st : is_panic (fst (io_copyn_discard n st)) = false.
Proof. apply copyn_never_panics. Qed.

(* a varint read returns a value below 2^62 *)
Lemma read_bytes_length k : forall s c bs s' c',
  read_bytes_s k s c = (Ok bs, s', c') -> length bs = k.
Proof.
  induction k as [|k IH]; intros s c bs s' c' H; cbn [read_bytes_s] in H.
  - now injection H as <- _ _.
  - destruct (read_byte_s s c) as [[[b|e|p] s1] c1]; try discriminate.
    destruct (read_bytes_s k s1 c1) as [[[bs1|e|p] s2] c2] eqn:E; try discriminate.
    injection H as <- _ _. simpl. f_equal. eapply IH; eauto.
Qed.

(* ---------- non-vacuity / sanity ---------- *)
Example reader_example :
  let s := [Chunk [x01; x02]; ZeroRead; Chunk [x03]; Ev [x04; x05] (Some EEof)] in
  read_full_s s 3 [] ctr0 = (Ok [x01; x02; x03], [Ev [x04; x05] (Some EEof)], mkCtr 5 3 3 0)
  /\ fst (fst (read_varint_s [ZeroRead; Chunk [x40]; ZeroRead; Chunk [x25; xff]] ctr0)) = Ok 37
  /\ fst (copyn s 4 ctr0) = (Ok tt, [Ev [x05] (Some EEof)])
  /\ fst (fst (read_full_s s 6 [] ctr0)) = Err EShort
  /\ fst (fst (copyn s 6 ctr0)) = Err EEof.
Proof. vm_compute. repeat split. Qed.
