(* ReaderData: what a SUCCESSFUL call of a lib/Reader.v helper consumed, on ANY script - errors
   anywhere, data and error in one read, zero-length reads.  lib/Reader.v's `delivers` lemmas say what
   the helpers return on a stretch of the stream that arrives without an error; the lemmas here go
   the other way: if the helper returned Ok, then the data of the script is exactly what it
   returned (or discarded) followed by the data of the script it left.  So a frame reader that
   succeeds has taken a well-formed frame off the FRONT of the byte stream, whatever the events
   were; together with the determinism of the frame grammar this pins the frame boundary.
   Used by C06 (end-to-end statements for arbitrary scripts). *)
From Hy Require Import lib.Reader.
From Coq Require Import ZArith Lia.
Local Open Scope N_scope.

Lemma read1_data n s : sdata s = fst (fst (read1 n s)) ++ sdata (snd (read1 n s)).
Proof.
  destruct s as [|[bs oe] t]; [reflexivity|]. unfold read1.
  destruct (Nat.leb (length bs) n); cbn [fst snd]; rewrite !sdata_cons; [reflexivity|].
  rewrite app_assoc, firstn_skipn. reflexivity.
Qed.

Lemma read1_len n s : (length (fst (fst (read1 n s))) <= n)%nat.
Proof.
  destruct s as [|[bs oe] t]; [cbn; lia|]. unfold read1.
  destruct (Nat.leb (length bs) n) eqn:E; cbn [fst snd].
  - apply Nat.leb_le in E. exact E.
  - rewrite firstn_length. lia.
Qed.

Lemma read_byte_data s : forall c b s' c', read_byte_s s c = (Ok b, s', c') -> sdata s = b :: sdata s'.
Proof.
  induction s as [|[bs oe] t IH]; intros c b s' c' H; [discriminate H|].
  destruct bs as [|b0 [|b1 bs]]; cbn [read_byte_s] in H.
  - destruct oe; [discriminate H|]. rewrite sdata_cons. cbn [app]. eapply IH; eauto.
  - rewrite sdata_cons. destruct oe as [[]|]; try discriminate H; injection H as <- <- _; reflexivity.
  - injection H as <- <- _. rewrite !sdata_cons. reflexivity.
Qed.

Lemma read_bytes_data k : forall s c bs s' c', read_bytes_s k s c = (Ok bs, s', c') -> sdata s = bs ++ sdata s'.
Proof.
  induction k as [|k IH]; intros s c bs s' c' H; cbn [read_bytes_s] in H.
  - injection H as <- <- _. reflexivity.
  - destruct (read_byte_s s c) as [[[b|e|p] s1] c1] eqn:E1; try discriminate H.
    destruct (read_bytes_s k s1 c1) as [[[bs1|e|p] s2] c2] eqn:E2; try discriminate H.
    injection H as <- <- _. rewrite (read_byte_data _ _ _ _ _ E1), (IH _ _ _ _ _ E2). reflexivity.
Qed.

(* a successful quicvarint.Read took an encoding of its value off the front of the data *)
Lemma read_varint_data s c v s' c' : read_varint_s s c = (Ok v, s', c') ->
  exists enc, sdata s = enc ++ sdata s' /\ forall r, varint_read (enc ++ r) = Some (v, r).
Proof.
  unfold read_varint_s. intros H.
  destruct (read_byte_s s c) as [[[b0|e|p] s1] c1] eqn:E1; try discriminate H.
  destruct (read_bytes_s (Nat.pred (varint_width_of_first b0)) s1 c1) as [[[t|e|p] s2] c2] eqn:E2; try discriminate H.
  injection H as <- <- _.
  exists (b0 :: t). split.
  - rewrite (read_byte_data _ _ _ _ _ E1), (read_bytes_data _ _ _ _ _ _ E2). reflexivity.
  - intros r. pose proof (read_bytes_length _ _ _ _ _ _ E2) as Hl. unfold varint_width_of_first in *.
    cbn [app]. rewrite varint_read_cons. cbv zeta.
    set (k := Nat.pred (N.to_nat (2 ^ (b2n b0 / 64)))) in *.
    assert (El : Nat.ltb (length (t ++ r)) k = false) by (apply Nat.ltb_ge; rewrite app_length; lia).
    rewrite El, firstn_app_exact, skipn_app_exact by (symmetry; exact Hl). reflexivity.
Qed.

Lemma read_full_data s : forall need acc c r s' c', read_full_s s need acc c = (Ok r, s', c') ->
  exists got, r = acc ++ got /\ length got = need /\ sdata s = got ++ sdata s'.
Proof.
  induction s as [|[bs oe] t IH]; intros need acc c r s' c' H.
  - destruct need; cbn in H; [|discriminate H]. injection H as <- <- _. exists []. rewrite app_nil_r. auto.
  - destruct need as [|n].
    + rewrite read_full_s_0 in H. injection H as <- <- _. exists []. rewrite app_nil_r. auto.
    + cbn [read_full_s] in H. destruct (Nat.leb (length bs) (S n)) eqn:E.
      * apply Nat.leb_le in E. destruct oe as [e|].
        -- destruct (Nat.eqb (length bs) (S n)) eqn:E2; [|discriminate H]. apply Nat.eqb_eq in E2.
           injection H as <- <- _. exists bs. rewrite sdata_cons. auto.
        -- destruct (IH _ _ _ _ _ _ H) as (g & -> & Hl & Hd). exists (bs ++ g).
           rewrite sdata_cons, Hd, app_length, Hl, <- !app_assoc. repeat split; lia.
      * apply Nat.leb_gt in E. injection H as <- <- _. exists (firstn (S n) bs).
        rewrite firstn_length_le by lia. rewrite !sdata_cons, app_assoc, firstn_skipn. auto.
Qed.

Lemma copyn_f_data fuel : forall s rem c s' c', copyn_f fuel s rem c = (Ok tt, s', c') ->
  exists got, length got = rem /\ sdata s = got ++ sdata s'.
Proof.
  induction fuel as [|f IH]; intros s rem c s' c' H.
  - destruct rem; cbn in H; [|discriminate H]. injection H as <- _. exists []. auto.
  - destruct rem as [|r]; [cbn in H; injection H as <- _; exists []; auto|].
    cbn [copyn_f] in H. cbv zeta in H.
    set (sz := Nat.min discard_buf (S r)) in *.
    pose proof (read1_data sz s) as Hd. pose proof (read1_len sz s) as Hl.
    assert (Hsz : (sz <= S r)%nat) by (unfold sz; lia).
    destruct (read1 sz s) as [[bs oe] s1]. cbn [fst snd] in *.
    destruct oe as [e|].
    + destruct (Nat.eqb (S r - length bs) 0) eqn:E; [|discriminate H]. apply Nat.eqb_eq in E.
      injection H as <- _. exists bs. split; [lia|exact Hd].
    + destruct (IH _ _ _ _ _ H) as (g & Hg & Hs). exists (bs ++ g).
      rewrite app_length, Hg, Hd, Hs, <- app_assoc. split; [lia|reflexivity].
Qed.

Lemma copyn_data s n c s' c' : copyn s n c = (Ok tt, s', c') ->
  exists got, length got = n /\ sdata s = got ++ sdata s'.
Proof. apply copyn_f_data. Qed.

(* ---- the same at the level of the IO monad *)
Lemma io_bind_inv {A B} (m : IO A) (f : A -> IO B) st b st' :
  io_bind m f st = (Ok b, st') -> exists a st1, m st = (Ok a, st1) /\ f a st1 = (Ok b, st').
Proof.
  unfold io_bind. destruct (m st) as [[a|e|p] st1]; intros H; try discriminate H. exists a, st1. auto.
Qed.

Lemma io_read_varint_data st v st' : io_read_varint st = (Ok v, st') ->
  exists enc, sdata (rs_script st) = enc ++ sdata (rs_script st') /\ forall r, varint_read (enc ++ r) = Some (v, r).
Proof.
  unfold io_read_varint, lift3. destruct (read_varint_s (rs_script st) (rs_ctr st)) as [[r s1] c1] eqn:E.
  cbn [fst snd]. intros H. injection H as -> <-. exact (read_varint_data _ _ _ _ _ E).
Qed.

Lemma io_read_full_data n st b st' : io_read_full n st = (Ok b, st') ->
  length b = n /\ sdata (rs_script st) = b ++ sdata (rs_script st').
Proof.
  unfold io_read_full, lift3. destruct (read_full_s (rs_script st) n [] (rs_ctr st)) as [[r s1] c1] eqn:E.
  cbn [fst snd]. intros H. injection H as -> <-.
  destruct (read_full_data _ _ _ _ _ _ _ E) as (g & -> & Hl & Hd). cbn [app rs_script]. auto.
Qed.

Lemma io_copyn_data n st st' : io_copyn_discard n st = (Ok tt, st') ->
  exists got, length got = n /\ sdata (rs_script st) = got ++ sdata (rs_script st').
Proof.
  unfold io_copyn_discard, lift3. destruct (copyn (rs_script st) n (rs_ctr st)) as [[r s1] c1] eqn:E.
  cbn [fst snd]. intros H. injection H as -> <-. exact (copyn_data _ _ _ _ _ E).
Qed.

Lemma io_make_data site n st st' : io_make site n st = (Ok tt, st') -> rs_script st' = rs_script st.
Proof. unfold io_make. destruct (n <=? go_make_limit); intros H; [|discriminate H]. injection H as <-. reflexivity. Qed.
