(* Result type shared by the pure models: a Go call either returns a value, returns an error of a
   small class, or panics at a named site.  The Go harnesses map their results to the same shape. *)
From Coq Require Export List NArith.
Export ListNotations.

Inductive errc := EEof | EShort | EInvalid | ELimit | EOther.

Inductive Res (A : Type) : Type :=
| Ok (a : A)
| Err (e : errc)
| Panic (site : N).   (* site: a number naming the Go statement that panics (see the model's comment) *)
Arguments Ok {A} a.
Arguments Err {A} e.
Arguments Panic {A} site.

Definition bind {A B} (r : Res A) (f : A -> Res B) : Res B :=
  match r with Ok a => f a | Err e => Err e | Panic s => Panic s end.

Notation "x <- r ;; k" := (bind r (fun x => k)) (at level 61, r at next level, right associativity).

Definition is_panic {A} (r : Res A) : bool := match r with Panic _ => true | _ => false end.
Definition is_ok {A} (r : Res A) : bool := match r with Ok _ => true | _ => false end.
