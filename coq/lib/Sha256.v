(* SHA-256 (FIPS 180-4) over `list byte`, executable under vm_compute.
   32-bit words are N; every word operation that can leave the 32-bit range is truncated
   explicitly with `trunc32` (= mod 2^32, lemma trunc32_mod; written with N.land because the
   binary mask is an order of magnitude cheaper than N.modulo in the VM).
   The chaining state is an 8-field record, so the digest length (32) holds by construction.
   Test vectors: NIST "abc", the 448-bit message, the empty string, and padding boundaries
   (55, 56, 63, 64, 119, 120 bytes; reference values from python3 hashlib). *)
From Hy Require Export lib.Bytes.
From Coq Require Import Arith ZArith Lia ZifyBool ZifyNat ZifyN.
Ltac Zify.zify_post_hook ::= Z.div_mod_to_equations.
Local Open Scope N_scope.

Definition M32 : N := 4294967296.          (* 2^32 *)
Definition mask32 : N := 4294967295.       (* 2^32 - 1 *)

Definition trunc32 (x : N) : N := N.land x mask32.

Lemma trunc32_mod x : trunc32 x = x mod M32.
Proof. unfold trunc32. change mask32 with (N.ones 32). rewrite N.land_ones. reflexivity. Qed.

Lemma trunc32_lt x : trunc32 x < M32.
Proof. rewrite trunc32_mod. apply N.mod_lt. discriminate. Qed.

Definition add32 (a b : N) : N := trunc32 (a + b).

(* ROTR^n(x) on 32-bit words, 0 < n < 32 *)
Definition rotr (n x : N) : N := N.lor (N.shiftr x n) (trunc32 (N.shiftl x (32 - n))).
Definition shr (n x : N) : N := N.shiftr x n.

(* FIPS 180-4 section 4.1.2 *)
Definition Ch (x y z : N) : N := N.lxor (N.land x y) (N.ldiff z x).   (* (x & y) ^ (~x & z) *)
Definition Maj (x y z : N) : N := N.lxor (N.lxor (N.land x y) (N.land x z)) (N.land y z).
Definition bsig0 (x : N) : N := N.lxor (N.lxor (rotr 2 x) (rotr 13 x)) (rotr 22 x).
Definition bsig1 (x : N) : N := N.lxor (N.lxor (rotr 6 x) (rotr 11 x)) (rotr 25 x).
Definition ssig0 (x : N) : N := N.lxor (N.lxor (rotr 7 x) (rotr 18 x)) (shr 3 x).
Definition ssig1 (x : N) : N := N.lxor (N.lxor (rotr 17 x) (rotr 19 x)) (shr 10 x).

(* section 4.2.2 *)
Definition K256 : list N := [
  0x428a2f98; 0x71374491; 0xb5c0fbcf; 0xe9b5dba5; 0x3956c25b; 0x59f111f1; 0x923f82a4; 0xab1c5ed5;
  0xd807aa98; 0x12835b01; 0x243185be; 0x550c7dc3; 0x72be5d74; 0x80deb1fe; 0x9bdc06a7; 0xc19bf174;
  0xe49b69c1; 0xefbe4786; 0x0fc19dc6; 0x240ca1cc; 0x2de92c6f; 0x4a7484aa; 0x5cb0a9dc; 0x76f988da;
  0x983e5152; 0xa831c66d; 0xb00327c8; 0xbf597fc7; 0xc6e00bf3; 0xd5a79147; 0x06ca6351; 0x14292967;
  0x27b70a85; 0x2e1b2138; 0x4d2c6dfc; 0x53380d13; 0x650a7354; 0x766a0abb; 0x81c2c92e; 0x92722c85;
  0xa2bfe8a1; 0xa81a664b; 0xc24b8b70; 0xc76c51a3; 0xd192e819; 0xd6990624; 0xf40e3585; 0x106aa070;
  0x19a4c116; 0x1e376c08; 0x2748774c; 0x34b0bcb5; 0x391c0cb3; 0x4ed8aa4a; 0x5b9cca4f; 0x682e6ff3;
  0x748f82ee; 0x78a5636f; 0x84c87814; 0x8cc70208; 0x90befffa; 0xa4506ceb; 0xbef9a3f7; 0xc67178f2 ].

Record st256 := mkSt { ha : N; hb : N; hc : N; hdd : N; he : N; hf : N; hg : N; hh : N }.

(* section 5.3.3 *)
Definition H0 : st256 :=
  mkSt 0x6a09e667 0xbb67ae85 0x3c6ef372 0xa54ff53a 0x510e527f 0x9b05688c 0x1f83d9ab 0x5be0cd19.

(* section 6.2.2 step 3, one round with message-schedule word w and constant k *)
Definition round (s : st256) (k w : N) : st256 :=
  let t1 := add32 (add32 (add32 (add32 (hh s) (bsig1 (he s))) (Ch (he s) (hf s) (hg s))) k) w in
  let t2 := add32 (bsig0 (ha s)) (Maj (ha s) (hb s) (hc s)) in
  mkSt (add32 t1 t2) (ha s) (hb s) (hc s) (add32 (hdd s) t1) (he s) (hf s) (hg s).

(* The message schedule is produced on the fly from a sliding window of the last 16 words
   (oldest first): W_t = ssig1(W_{t-2}) + W_{t-7} + ssig0(W_{t-15}) + W_{t-16}. *)
Definition next_w (win : list N) : N :=
  add32 (add32 (add32 (ssig1 (nth 14 win 0)) (nth 9 win 0)) (ssig0 (nth 1 win 0))) (nth 0 win 0).

Fixpoint rounds (ks : list N) (win : list N) (s : st256) : st256 :=
  match ks with
  | [] => s
  | k :: ks' => rounds ks' (tl win ++ [next_w win]) (round s k (hd 0 win))
  end.

(* 64 bytes -> 16 big-endian words (blocks are always whole after `pad`: pad_length_mod) *)
Fixpoint words_of (n : nat) (b : list byte) : list N :=
  match n with
  | O => []
  | S n' => be_dec (firstn 4 b) :: words_of n' (skipn 4 b)
  end.

Definition compress (s : st256) (block : list byte) : st256 :=
  let r := rounds K256 (words_of 16 block) s in
  mkSt (add32 (ha s) (ha r)) (add32 (hb s) (hb r)) (add32 (hc s) (hc r)) (add32 (hdd s) (hdd r))
       (add32 (he s) (he r)) (add32 (hf s) (hf r)) (add32 (hg s) (hg r)) (add32 (hh s) (hh r)).

(* section 5.1.1: message, 0x80, k zero bytes, 64-bit big-endian bit length; total = 0 mod 64 *)
Definition pad_zeros (len : nat) : nat :=
  let r := Nat.modulo len 64 in if Nat.leb r 55 then Nat.sub 55 r else Nat.sub 119 r.

Definition pad (m : list byte) : list byte :=
  m ++ x80 :: repeat x00 (pad_zeros (length m)) ++ be_enc 8 (8 * N.of_nat (length m)).

(* fold over 64-byte blocks; fuel = number of blocks *)
Fixpoint blocks (fuel : nat) (s : st256) (b : list byte) : st256 :=
  match fuel with
  | O => s
  | S f => match b with
           | [] => s
           | _ => blocks f (compress s (firstn 64 b)) (skipn 64 b)
           end
  end.

Definition digest_of (s : st256) : list byte :=
  be_enc 4 (ha s) ++ be_enc 4 (hb s) ++ be_enc 4 (hc s) ++ be_enc 4 (hdd s) ++
  be_enc 4 (he s) ++ be_enc 4 (hf s) ++ be_enc 4 (hg s) ++ be_enc 4 (hh s).

Definition sha256 (m : list byte) : list byte :=
  let p := pad m in digest_of (blocks (S (Nat.div (length p) 64)) H0 p).

Lemma sha256_length m : length (sha256 m) = 32%nat.
Proof. unfold sha256, digest_of. repeat rewrite app_length. repeat rewrite be_enc_length. reflexivity. Qed.

Lemma sha256_nonempty m : sha256 m <> [].
Proof. intros E. pose proof (sha256_length m) as L. rewrite E in L. discriminate. Qed.

(* the padded message is a whole number of blocks *)
Lemma pad_length_mod m : Nat.modulo (length (pad m)) 64 = 0%nat.
Proof.
  unfold pad. rewrite app_length. cbn [length]. rewrite app_length, repeat_length, be_enc_length.
  unfold pad_zeros.
  destruct (Nat.leb (Nat.modulo (length m) 64) 55) eqn:E.
  - apply Nat.leb_le in E. lia.
  - apply Nat.leb_gt in E. lia.
Qed.

(* ---- test vectors ---- *)
(* "abc" *)
Example sha256_abc :
  sha256 [x61;x62;x63] =
  [xba;x78;x16;xbf;x8f;x01;xcf;xea;x41;x41;x40;xde;x5d;xae;x22;x23;
   xb0;x03;x61;xa3;x96;x17;x7a;x9c;xb4;x10;xff;x61;xf2;x00;x15;xad].
Proof. vm_compute. reflexivity. Qed.

(* "" *)
Example sha256_empty :
  sha256 [] =
  [xe3;xb0;xc4;x42;x98;xfc;x1c;x14;x9a;xfb;xf4;xc8;x99;x6f;xb9;x24;
   x27;xae;x41;xe4;x64;x9b;x93;x4c;xa4;x95;x99;x1b;x78;x52;xb8;x55].
Proof. vm_compute. reflexivity. Qed.

(* "abcdbcdecdefdefgefghfghighijhijkijkljklmklmnlmnomnopnopq" (448 bits, two blocks) *)
Example sha256_448 :
  sha256 [x61;x62;x63;x64;x62;x63;x64;x65;x63;x64;x65;x66;x64;x65;x66;x67;
          x65;x66;x67;x68;x66;x67;x68;x69;x67;x68;x69;x6a;x68;x69;x6a;x6b;
          x69;x6a;x6b;x6c;x6a;x6b;x6c;x6d;x6b;x6c;x6d;x6e;x6c;x6d;x6e;x6f;
          x6d;x6e;x6f;x70;x6e;x6f;x70;x71] =
  [x24;x8d;x6a;x61;xd2;x06;x38;xb8;xe5;xc0;x26;x93;x0c;x3e;x60;x39;
   xa3;x3c;xe4;x59;x64;xff;x21;x67;xf6;xec;xed;xd4;x19;xdb;x06;xc1].
Proof. vm_compute. reflexivity. Qed.

(* 55 x 'a' *)
Example sha256_a55 :
  sha256 (repeat x61 55) =
  [x9f;x43;x90;xf8;xd3;x0c;x2d;xd9;x2e;xc9;xf0;x95;xb6;x5e;x2b;x9a;xe9;xb0;xa9;x25;xa5;x25;x8e;x24;x1c;x9f;x1e;x91;x0f;x73;x43;x18].
Proof. vm_compute. reflexivity. Qed.

(* 56 x 'a' *)
Example sha256_a56 :
  sha256 (repeat x61 56) =
  [xb3;x54;x39;xa4;xac;x6f;x09;x48;xb6;xd6;xf9;xe3;xc6;xaf;x0f;x5f;x59;x0c;xe2;x0f;x1b;xde;x70;x90;xef;x79;x70;x68;x6e;xc6;x73;x8a].
Proof. vm_compute. reflexivity. Qed.

(* 63 x 'a' *)
Example sha256_a63 :
  sha256 (repeat x61 63) =
  [x7d;x3e;x74;xa0;x5d;x7d;xb1;x5b;xce;x4a;xd9;xec;x06;x58;xea;x98;xe3;xf0;x6e;xee;xcf;x16;xb4;xc6;xff;xf2;xda;x45;x7d;xdc;x2f;x34].
Proof. vm_compute. reflexivity. Qed.

(* 64 x 'a' *)
Example sha256_a64 :
  sha256 (repeat x61 64) =
  [xff;xe0;x54;xfe;x7a;xe0;xcb;x6d;xc6;x5c;x3a;xf9;xb6;x1d;x52;x09;xf4;x39;x85;x1d;xb4;x3d;x0b;xa5;x99;x73;x37;xdf;x15;x46;x68;xeb].
Proof. vm_compute. reflexivity. Qed.

(* 119 x 'a' *)
Example sha256_a119 :
  sha256 (repeat x61 119) =
  [x31;xeb;xa5;x1c;x31;x3a;x5c;x08;x22;x6a;xdf;x18;xd4;xa3;x59;xcf;xdf;xd8;xd2;xe8;x16;xb1;x3f;x4a;xf9;x52;xf7;xea;x65;x84;xdc;xfb].
Proof. vm_compute. reflexivity. Qed.

(* 120 x 'a' *)
Example sha256_a120 :
  sha256 (repeat x61 120) =
  [x2f;x3d;x33;x54;x32;xc7;x0b;x58;x0a;xf0;xe8;xe1;xb3;x67;x4a;x7c;x02;x0d;x68;x3a;xa5;xf7;x3a;xaa;xed;xfd;xc5;x5a;xf9;x04;xc2;x1c].
Proof. vm_compute. reflexivity. Qed.

(* 1000 x 'a' *)
Example sha256_a1000 :
  sha256 (repeat x61 1000) =
  [x41;xed;xec;xe4;x2d;x63;xe8;xd9;xbf;x51;x5a;x9b;xa6;x93;x2e;x1c;x20;xcb;xc9;xf5;xa5;xd1;x34;x64;x5a;xdb;x5d;xb1;xb9;x73;x7e;xa3].
Proof. vm_compute. reflexivity. Qed.
