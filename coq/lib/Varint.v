(* QUIC variable-length integers as apernet/quic-go quicvarint.Read / Len and
   core/internal/protocol.varintPut implement them. *)
From Hy Require Export lib.Bytes.
From Coq Require Import ZArith ZifyBool ZifyN ZifyNat.
Local Open Scope N_scope.

Definition maxVarInt1 : N := 63.
Definition maxVarInt2 : N := 16383.
Definition maxVarInt4 : N := 1073741823.
Definition maxVarInt8 : N := 4611686018427387903.

(* quicvarint.Len (panics above maxVarInt8: None) *)
Definition varint_len (v : N) : option nat :=
  if v <=? maxVarInt1 then Some 1%nat
  else if v <=? maxVarInt2 then Some 2%nat
  else if v <=? maxVarInt4 then Some 4%nat
  else if v <=? maxVarInt8 then Some 8%nat
  else None.

Definition width_tag (w : nat) : N :=
  match w with 1%nat => 0 | 2%nat => 1 | 4%nat => 2 | _ => 3 end.

Definition legal_width (w : nat) : bool :=
  match w with 1%nat | 2%nat | 4%nat | 8%nat => true | _ => false end.

(* the value v written on exactly w bytes (w legal, v < 2^(8w-2)) *)
Definition varint_enc_w (w : nat) (v : N) : list byte :=
  be_enc w (v + width_tag w * 2 ^ (8 * N.of_nat w - 2)).

(* varintPut: minimal width; None = the explicit panic *)
Definition varint_put (v : N) : option (list byte) :=
  match varint_len v with Some w => Some (varint_enc_w w v) | None => None end.

(* quicvarint.Read on an in-memory byte source: None = io.EOF / unexpected EOF *)
Definition varint_read (l : list byte) : option (N * list byte) :=
  match l with
  | [] => None
  | b0 :: t =>
      let k := Nat.pred (N.to_nat (2 ^ (b2n b0 / 64))) in
      if Nat.ltb (length t) k then None
      else Some ((b2n b0 mod 64) * 256 ^ N.of_nat k + be_dec (firstn k t), skipn k t)
  end.

(* number of bytes varint_read consumes, from the first byte alone *)
Definition varint_width_of_first (b0 : byte) : nat := N.to_nat (2 ^ (b2n b0 / 64)).

Lemma firstn_app_exact {A} (a b : list A) n : n = length a -> firstn n (a ++ b) = a.
Proof. intros ->. rewrite firstn_app, Nat.sub_diag, firstn_all. simpl. apply app_nil_r. Qed.

Lemma skipn_app_exact {A} (a b : list A) n : n = length a -> skipn n (a ++ b) = b.
Proof. intros ->. rewrite skipn_app, Nat.sub_diag, skipn_all. reflexivity. Qed.

Lemma varint_read_cons b0 t :
  varint_read (b0 :: t) =
  let k := Nat.pred (N.to_nat (2 ^ (b2n b0 / 64))) in
  if Nat.ltb (length t) k then None
  else Some ((b2n b0 mod 64) * 256 ^ N.of_nat k + be_dec (firstn k t), skipn k t).
Proof. reflexivity. Qed.

Lemma be_enc_S k x : be_enc (S k) x = n2b (x / 256 ^ N.of_nat k) :: be_enc k x.
Proof. reflexivity. Qed.

Local Ltac vr_tail :=
  cbv zeta; rewrite app_length, be_enc_length; cbn [Nat.ltb Nat.leb plus];
  rewrite firstn_app_exact, skipn_app_exact by (now rewrite be_enc_length);
  rewrite be_dec_enc.

Lemma vr1 v r : v < 64 -> varint_read (be_enc 1 v ++ r) = Some (v, r).
Proof.
  intros Hv. rewrite be_enc_S. cbn [app be_enc]. rewrite varint_read_cons, b2n_n2b.
  change (N.of_nat 0) with 0. change (256 ^ 0) with 1. rewrite N.div_1_r.
  assert (E1: v mod 256 = v) by lia. rewrite E1.
  assert (E2: v / 64 = 0) by lia. rewrite E2.
  change (Nat.pred (N.to_nat (2 ^ 0))) with 0%nat. cbv zeta.
  cbn [length Nat.ltb Nat.leb firstn skipn be_dec N.of_nat]. change (256 ^ 0) with 1.
  f_equal. f_equal. lia.
Qed.

Lemma vr2 v r : v < 16384 -> varint_read (be_enc 2 (v + 16384) ++ r) = Some (v, r).
Proof.
  intros Hv. rewrite be_enc_S. cbn [app]. rewrite varint_read_cons, b2n_n2b.
  change (N.of_nat 1) with 1. change (256 ^ 1) with 256.
  assert (E1: ((v + 16384) / 256) mod 256 = 64 + v / 256) by lia. rewrite E1.
  assert (E2: (64 + v / 256) / 64 = 1) by lia. rewrite E2.
  change (Nat.pred (N.to_nat (2 ^ 1))) with 1%nat. vr_tail.
  change (N.of_nat 1) with 1. change (256 ^ 1) with 256. f_equal. f_equal. lia.
Qed.

Lemma vr4 v r : v < 1073741824 -> varint_read (be_enc 4 (v + 2147483648) ++ r) = Some (v, r).
Proof.
  intros Hv. rewrite be_enc_S. cbn [app]. rewrite varint_read_cons, b2n_n2b.
  change (N.of_nat 3) with 3. change (256 ^ 3) with 16777216.
  assert (E1: ((v + 2147483648) / 16777216) mod 256 = 128 + v / 16777216) by lia. rewrite E1.
  assert (E2: (128 + v / 16777216) / 64 = 2) by lia. rewrite E2.
  change (Nat.pred (N.to_nat (2 ^ 2))) with 3%nat. vr_tail.
  change (N.of_nat 3) with 3. change (256 ^ 3) with 16777216. f_equal. f_equal. lia.
Qed.

Lemma vr8 v r : v < 4611686018427387904 ->
  varint_read (be_enc 8 (v + 13835058055282163712) ++ r) = Some (v, r).
Proof.
  intros Hv. rewrite be_enc_S. cbn [app]. rewrite varint_read_cons, b2n_n2b.
  change (N.of_nat 7) with 7. change (256 ^ 7) with 72057594037927936.
  assert (E1: ((v + 13835058055282163712) / 72057594037927936) mod 256
              = 192 + v / 72057594037927936) by lia. rewrite E1.
  assert (E2: (192 + v / 72057594037927936) / 64 = 3) by lia. rewrite E2.
  change (Nat.pred (N.to_nat (2 ^ 3))) with 7%nat. vr_tail.
  change (N.of_nat 7) with 7. change (256 ^ 7) with 72057594037927936. f_equal. f_equal. lia.
Qed.

Lemma varint_read_enc_w w v r :
  legal_width w = true -> v < 2 ^ (8 * N.of_nat w - 2) ->
  varint_read (varint_enc_w w v ++ r) = Some (v, r).
Proof.
  intros Hw Hv. unfold varint_enc_w.
  destruct w as [|[|[|[|[|[|[|[|[|w]]]]]]]]]; try discriminate Hw; clear Hw.
  - change (2 ^ (8 * N.of_nat 1 - 2)) with 64 in *. cbn [width_tag].
    replace (v + 0 * 64) with v by lia. now apply vr1.
  - change (2 ^ (8 * N.of_nat 2 - 2)) with 16384 in *. cbn [width_tag].
    replace (v + 1 * 16384) with (v + 16384) by lia. now apply vr2.
  - change (2 ^ (8 * N.of_nat 4 - 2)) with 1073741824 in *. cbn [width_tag].
    replace (v + 2 * 1073741824) with (v + 2147483648) by lia. now apply vr4.
  - change (2 ^ (8 * N.of_nat 8 - 2)) with 4611686018427387904 in *. cbn [width_tag].
    replace (v + 3 * 4611686018427387904) with (v + 13835058055282163712) by lia. now apply vr8.
Qed.

Lemma varint_len_bound v w : varint_len v = Some w ->
  legal_width w = true /\ v < 2 ^ (8 * N.of_nat w - 2).
Proof.
  unfold varint_len, maxVarInt1, maxVarInt2, maxVarInt4, maxVarInt8.
  destruct (v <=? 63) eqn:E1; [intros [= <-]; split; [reflexivity|simpl; lia]|].
  destruct (v <=? 16383) eqn:E2; [intros [= <-]; split; [reflexivity|simpl; lia]|].
  destruct (v <=? 1073741823) eqn:E3; [intros [= <-]; split; [reflexivity|simpl; lia]|].
  destruct (v <=? 4611686018427387903) eqn:E4; [intros [= <-]; split; [reflexivity|simpl; lia]|].
  discriminate.
Qed.

Lemma varint_read_put v bs r : varint_put v = Some bs -> varint_read (bs ++ r) = Some (v, r).
Proof.
  unfold varint_put. destruct (varint_len v) as [w|] eqn:E; [|discriminate].
  intros [= <-]. apply varint_len_bound in E as [Hw Hv]. now apply varint_read_enc_w.
Qed.

Lemma varint_put_length v bs w : varint_put v = Some bs -> varint_len v = Some w -> length bs = w.
Proof.
  unfold varint_put. intros H E. rewrite E in H. injection H as <-. apply be_enc_length.
Qed.

Lemma varint_enc_w_length w v : length (varint_enc_w w v) = w.
Proof. apply be_enc_length. Qed.
