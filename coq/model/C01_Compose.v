(* C01 composed with C06 and C07 - the per-connection product.  Definitions only.

   model/C01_ServerAuth.v abstracts the inside of handleTCPRequest and of the UDP session manager to
   "may reach the outbound / relay, for their own connection, once they exist" (TcpDial / TcpRelay /
   UdpRecv / UdpRelay).  Here those parts are the concrete models of the properties that own them:

     for every stream ProxyStreamHijacker accepts (authenticated connection, frame type 0x401) one
       run of handleTCPRequest = the LTS of model/C06_Hook.v [hstep false md] (request read, hook
       branch, dial, response, putback, and - embedded in it - the two copy loops and the teardown of
       model/C06_Relay.v), started in HReadReq;
     once `go func() { sm := newUDPSessionManager(...); sm.Run() }` has been started (C01 field
       udp_sm) one UDP session manager = the LTS of model/C07_UDPSessions.v [step timeout] from [init].

   The control part (ServeHTTP, the hijacker's gate, the datagram queue, handleClient's tail) stays
   the C01 LTS, used as it is: a control action of the product IS a step of C01_ServerAuth.step on the
   [k_base] component.  A handler exists only because the hijacker spawned it and a manager only
   because ServeHTTP started it; after that they run on their own - no step of a component looks at
   the authenticated flag.  That no component action can happen on a connection whose C01 component is
   not authenticated is therefore a THEOREM about the product (proof/C01_Compose.v), not a guard.

   Labels.  C06 and C07 do not carry addresses or payload sizes (not their property); C01's abstract
   actions do.  A component action of the product is annotated with them so that it can be projected:
     KTcp c i addr x    x is the next action of handler i of connection c; addr = the address that
                        handler dials (what ReadTCPRequest returned, after the hook's rewrite if any;
                        fixed when the stream is opened: the Stream action carries it, as in C01)
     KUdp c addr n x    x is the next action of c's session manager; for ARecv addr is the address
                        of the datagram udpIOImpl.ReceiveMessage takes off the connection's queue
                        (it must be queued: C01's Datagram put it there); for ADial it is the address
                        of the message in flight; for AWrite / ASend any address a socket was dialed
                        for and n the payload size.
   [k_got] / [k_sess] only keep these labels (messages taken off the queue and not yet dialed for,
   newest first; addresses dialed for).  Labels never block a component (proof: the labels_never_block lemmas),
   except that ARecv needs a queued datagram. *)
From Hy Require Import gen.ParamsC01 model.C01_ServerAuth.
From Hy Require model.C06_Relay model.C06_Hook model.C07_UDPSessions.
Local Open Scope N_scope.

Module R := Hy.model.C06_Relay.
Module H := Hy.model.C06_Hook.
Module U := Hy.model.C07_UDPSessions.

Record hrec := mkH {
  h_addr : str;          (* label: the address this handler dials *)
  h_dialed : bool;       (* Outbound.TCP has been called *)
  h_pc : H.hpc }.

Record kstate := mkK {
  k_base : state;                      (* the C01 handler state of every connection *)
  k_tcp : cid -> list hrec;            (* handleTCPRequest goroutines, in spawn order *)
  k_udp : cid -> option U.state;       (* the UDP session manager, once started *)
  k_got : cid -> list str;             (* label bookkeeping, see above *)
  k_sess : cid -> list str }.

Definition kinit : kstate := mkK init (fun _ => []) (fun _ => None) (fun _ => []) (fun _ => []).

Definition fupd {A} (f : cid -> A) (c : cid) (v : A) : cid -> A := fun c' => if c' =? c then v else f c'.

Fixpoint lupd {A} (i : nat) (x : A) (l : list A) : list A :=
  match l, i with
  | [], _ => []
  | _ :: t, O => x :: t
  | h :: t, S j => h :: lupd j x t
  end.

Inductive kaction :=
| KCtl (a : action)
| KTcp (c : cid) (i : nat) (addr : str) (x : H.hact)
| KUdp (c : cid) (addr : str) (n : N) (x : U.action).

(* the actions of C01 that remain actions of the product *)
Definition is_ctl (a : action) : bool :=
  match a with
  | HttpReq _ _ _ | AuthVerdict _ _ _ _ | Stream _ _ _ | Datagram _ _ | ConnClosed _ => true
  | _ => false
  end.

(* ProxyStreamHijacker's decision, as C01_ServerAuth.step takes it (tied to it by
   proof/C01_Compose.v stream_spawn_spec: the product spawns a handler exactly when C01's step puts
   the stream on tcp_pend) *)
Definition hijacks (k : conn) (ft : option N) : bool :=
  match ft with Some t => authed k && (t =? frame_type_tcp_request) | None => false end.

Definition is_dial (x : H.hact) : bool := match x with H.XDial _ => true | _ => false end.

(* what a handler action makes observable at C01's boundary / which abstract C01 action it is *)
Definition tcp_obs (c : cid) (addr : str) (x : H.hact) : list obs :=
  match x with
  | H.XDial _ => [ObsOutboundTCP c addr]
  | H.XPutback ch nw => [ObsRelay c (R.blen (R.wrote ch nw))]
  | H.XRelay (R.ALoop _ (R.LWrite ch nw _)) => [ObsRelay c (R.blen (R.wrote ch nw))]
  | _ => []
  end.
Definition tcp_abs (c : cid) (addr : str) (x : H.hact) : list action :=
  match x with
  | H.XDial _ => [TcpDial c addr]
  | H.XPutback ch nw => [TcpRelay c addr (R.blen (R.wrote ch nw))]
  | H.XRelay (R.ALoop _ (R.LWrite ch nw _)) => [TcpRelay c addr (R.blen (R.wrote ch nw))]
  | _ => []
  end.
Definition udp_abs (c : cid) (addr : str) (n : N) (x : U.action) : list action :=
  match x with
  | U.ADial _ => [UdpRecv c addr]
  | U.AWrite _ | U.ASend _ _ => [UdpRelay c addr n]
  | _ => []
  end.

Definition set_dq (k : conn) (q : list str) : conn :=
  mkConn (authed k) (auth_id k) (in_auth k) (udp_sm k) (tcp_pend k) (tcp_est k) q (udp_est k) (closed k).

Section Product.
  Variable cfg : config.
  Variable masq : request -> response.
  Variable md : R.mode.          (* a TrafficLogger is configured (copyTwoWayEx) or not (io.Copy) *)
  Variable timeout : N.          (* UDP idle timeout *)

  Definition kstep (k : kstate) (a : kaction) : option (kstate * list obs) :=
    match a with
    | KCtl a0 =>
        if is_ctl a0 then
          match step cfg masq (k_base k) a0 with
          | None => None
          | Some (b', o) =>
              let c := act_conn a0 in
              let tcp' := match a0 with
                          | Stream _ ft addr =>
                              if hijacks (k_base k c) ft
                              then fupd (k_tcp k) c (k_tcp k c ++ [mkH addr false H.HReadReq])
                              else k_tcp k
                          | _ => k_tcp k
                          end in
              let udp' := match k_udp k c with
                          | None => if udp_sm (b' c) then fupd (k_udp k) c (Some U.init) else k_udp k
                          | Some _ => k_udp k
                          end in
              Some (mkK b' tcp' udp' (k_got k) (k_sess k), o)
          end
        else None
    | KTcp c i addr x =>
        match nth_error (k_tcp k c) i with
        | Some h =>
            if str_eqb addr (h_addr h) then
              match H.hstep false md (h_pc h) x with
              | Some p' =>
                  Some (mkK (k_base k)
                            (fupd (k_tcp k) c (lupd i (mkH (h_addr h) (h_dialed h || is_dial x) p') (k_tcp k c)))
                            (k_udp k) (k_got k) (k_sess k),
                        tcp_obs c addr x)
              | None => None
              end
            else None
        | None => None
        end
    | KUdp c addr n x =>
        match k_udp k c with
        | Some u =>
            match U.step timeout u x with
            | Some (u', _) =>
                let udp' := fupd (k_udp k) c (Some u') in
                match x with
                | U.ARecv _ _ =>
                    if mem addr (dq (k_base k c))
                    then Some (mkK (upd (k_base k) c (set_dq (k_base k c) (remove1 addr (dq (k_base k c)))))
                                   (k_tcp k) udp' (fupd (k_got k) c (addr :: k_got k c)) (k_sess k), [])
                    else None
                | U.ADial _ =>
                    match k_got k c with
                    | a0 :: rest =>
                        if str_eqb addr a0
                        then Some (mkK (k_base k) (k_tcp k) udp' (fupd (k_got k) c rest)
                                       (fupd (k_sess k) c (addr :: k_sess k c)), [ObsOutboundUDP c addr])
                        else None
                    | [] => None
                    end
                | U.AWrite _ | U.ASend _ _ =>
                    if mem addr (k_sess k c)
                    then Some (mkK (k_base k) (k_tcp k) udp' (k_got k) (k_sess k), [ObsRelay c n])
                    else None
                | _ => Some (mkK (k_base k) (k_tcp k) udp' (k_got k) (k_sess k), [])
                end
            | None => None
            end
        | None => None
        end
    end.

  (* the trace of a run, in C01's vocabulary: what each action made observable; a product action is
     followed by the abstract C01 action(s) it stands for *)
  Definition kabs (a : kaction) : list action :=
    match a with
    | KCtl a0 => [a0]
    | KTcp c _ addr x => tcp_abs c addr x
    | KUdp c addr n x => udp_abs c addr n x
    end.

  Fixpoint krun (k : kstate) (acts : list kaction) : option (kstate * list ev) :=
    match acts with
    | [] => Some (k, [])
    | a :: t =>
        match kstep k a with
        | None => None
        | Some (k1, o) =>
            match krun k1 t with
            | None => None
            | Some (k2, tr) => Some (k2, map EAct (kabs a) ++ map EObs o ++ tr)
            end
        end
    end.

  (* the connection a component action runs for *)
  Definition kcomp_conn (a : kaction) : option cid :=
    match a with KCtl _ => None | KTcp c _ _ _ | KUdp c _ _ _ => Some c end.
End Product.
