(* C01 - connection lifecycle: connections are accepted, live, END, and new ones are accepted afterwards by the
   same server.

   Transcribed from /repo/core/server/server.go:
     Serve (102-110)         for { conn := listener.Accept(); go s.handleClient(conn) }
     handleClient (120-137)  handler := newH3sHandler(s.config, conn)   - a NEW handler object per accepted connection,
                             referenced by nothing but this call of handleClient and the http3.Server built in it;
                             ... ServeQUICConn(conn) ...; tail (ConnClosed of the base LTS); the handler is dropped.
     newH3sHandler (151-157) every field from the arguments or zero: authenticated = false, authID = "", udpSM = nil.

   The base LTS (model/C01_ServerAuth.v) is a map  connection id -> handler fields  over ALL ids, every id starting
   as the zero handler; it has the end of a connection (ConnClosed) but not its beginning.  This layer adds the
   beginning:

     LAccept c   listener.Accept returned a new connection and handleClient allocated its handler.  The id c is
                 chosen by the environment among the ids that have never been used on this server (l_used records
                 every id ever accepted, live or ended: an id is never reused, whether or not its connection
                 has ended); the handler of c is SET to the zero handler (newH3sHandler), whatever the history.
     LAct a      an action of the base LTS, enabled only for a connection that has been accepted.

   The trace vocabulary is the base one (an accept makes nothing observable at the boundary). *)
From Hy Require Import gen.ParamsC01 model.C01_ServerAuth.
Local Open Scope N_scope.

Record lstate := mkL {
  l_base : state;          (* the handlers *)
  l_used : list cid        (* ids of all connections accepted so far *)
}.

Definition linit : lstate := mkL init [].

Inductive laction :=
| LAccept (c : cid)
| LAct (a : action).

Definition lact_conn (x : laction) : cid :=
  match x with LAccept c => c | LAct a => act_conn a end.

Definition ev_conn (e : ev) : cid :=
  match e with EAct a => act_conn a | EObs o => obs_conn o end.

Definition used (c : cid) (l : lstate) : bool := existsb (N.eqb c) (l_used l).

Section Lifecycle.
  Variable cfg : config.
  Variable masq : request -> response.

  Definition lstep (l : lstate) (x : laction) : option (lstate * list ev) :=
    match x with
    | LAccept c =>
        if used c l then None
        else Some (mkL (upd (l_base l) c conn0) (c :: l_used l), [])                 (* :121 newH3sHandler *)
    | LAct a =>
        if used (act_conn a) l then
          match step cfg masq (l_base l) a with
          | Some (s', o) => Some (mkL s' (l_used l), EAct a :: map EObs o)
          | None => None
          end
        else None
    end.

  Fixpoint lrun (l : lstate) (xs : list laction) : option (lstate * list ev) :=
    match xs with
    | [] => Some (l, [])
    | x :: t =>
        match lstep l x with
        | None => None
        | Some (l1, e) =>
            match lrun l1 t with
            | None => None
            | Some (l2, tr) => Some (l2, e ++ tr)
            end
        end
    end.
End Lifecycle.

(* the base actions of a lifecycle run (accepts erased) *)
Definition lacts (xs : list laction) : list action :=
  flat_map (fun x => match x with LAct a => [a] | LAccept _ => [] end) xs.

(* what connection c itself did / what was observed for it *)
Definition own (c : cid) (xs : list laction) : list laction := filter (fun x => lact_conn x =? c) xs.
Definition own_tr (c : cid) (tr : list ev) : list ev := filter (fun e => ev_conn e =? c) tr.
Definition own_acts (c : cid) (acts : list action) : list action := filter (fun a => act_conn a =? c) acts.

(* the ids a lifecycle run accepts, in order *)
Definition laccepts (xs : list laction) : list cid :=
  flat_map (fun x => match x with LAccept c => [c] | LAct _ => [] end) xs.
