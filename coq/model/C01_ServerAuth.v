(* C01 / C02 - model of the server's per-connection authentication gate.

   Transcribed from /repo/core/server/server.go:
     handleClient (119-136), newH3sHandler (150-156), h3sHandler.ServeHTTP (158-233),
     ProxyStreamHijacker (235-254), masqHandler (345-352), udpIOImpl.ReceiveMessage (363-385)
   and /repo/core/internal/protocol/http.go (AuthRequestFromHeader 33-39, AuthResponseToHeader 60-68).

   Shape: a labelled transition system.  The server state is a map  connection id -> h3sHandler fields;
   a connection id names one accepted QUIC connection (handleClient creates one fresh handler per
   accepted connection and never shares it), so ids are never reused and the initial state of every
   id is the zero handler.  Actions are the code's atomic sections:

     HttpReq c r pad        ServeHTTP entered for request r on c.  For an auth request this takes
                            authMutex; on a not yet authenticated connection it runs up to the call of
                            Authenticator.Authenticate (the mutex stays held: in_auth = Some r);
                            on an authenticated one it answers 233 again without consulting anybody.
                            Any other request is handed to the masquerade handler.
     AuthVerdict c ok id pad  Authenticate returns (ok, id) (an oracle input) and ServeHTTP runs to
                            its end: set the flag / answer / log / start the UDP session manager, or
                            hand the request to the masquerade handler.  Releases authMutex.
     Stream c ft addr       http3 calls ProxyStreamHijacker for a new bidirectional stream whose first
                            varint is ft (None: it could not be read, err <> nil).
     TcpDial c addr         a handleTCPRequest goroutine (they exist only for hijacked streams)
                            reaches Outbound.TCP(addr).
     TcpRelay c addr n      an established proxy stream passes n bytes on.
     Datagram c addr        a datagram carrying a UDPMessage for addr arrives in the connection's queue.
     UdpRecv c addr         the UDP session manager (exists only after auth) takes that message out of
                            the queue and reaches Outbound.UDP(addr).
     UdpRelay c addr n      an established UDP session passes n bytes on.
     ConnClosed c           ServeQUICConn returned (it waits for running handlers): tail of handleClient.

   The inside of handleTCPRequest and of the UDP session manager is C06/C07/C08; here they are
   "may reach the outbound / relay, for their own connection, once they exist".
   pad is the random Hysteria-Padding value the server draws (an oracle input). *)
(* (imports kept minimal on purpose: the generated cases files load this model in several processes per run) *)
From Coq Require Export List NArith Bool Strings.Byte.
Export ListNotations.
From Hy Require Import gen.ParamsC01.
Local Open Scope N_scope.

Definition str := list byte.

(* as in lib/Bytes.v *)
Definition b2n (b : byte) : N := Byte.to_N b.
Definition n2b (x : N) : byte := match Byte.of_N (x mod 256) with Some b => b | None => x00 end.

Fixpoint str_eqb (a b : str) : bool :=
  match a, b with
  | [], [] => true
  | x :: a', y :: b' => Byte.eqb x y && str_eqb a' b'
  | _, _ => false
  end.

(* ------------------------------------------------------------------ requests / responses *)

(* What ServeHTTP looks at: r.Method, r.Host, r.URL.Path, r.Header.Get("Hysteria-Auth"),
   r.Header.Get("Hysteria-CC-RX") ("" when absent).  r_tag stands for everything else in the
   request (other headers, query, body): the masquerade handler may depend on it, the server does not. *)
Record request := mkReq { r_method : str; r_host : str; r_path : str; r_auth : str; r_ccrx : str; r_tag : N }.

Record response := mkResp { status : N; hdrs : list (str * str); body : str }.

(* server.go:159   r.Method == http.MethodPost && r.Host == protocol.URLHost && r.URL.Path == protocol.URLPath
   (Go string equality: byte-wise, case-sensitive) *)
Definition is_auth_req (r : request) : bool :=
  str_eqb (r_method r) method_post && str_eqb (r_host r) url_host && str_eqb (r_path r) url_path.

(* strconv.ParseUint(s, 10, 64) with the error dropped (http.go:34  rx, _ := ...):
   empty or a non-digit => 0 (syntax error); overflow => 2^64-1 (range error), reported at the digit
   that overflows, before later characters are looked at. *)
Definition max_u64 : N := 18446744073709551615.
Definition u64_cutoff : N := 1844674407370955162.   (* maxUint64/10 + 1 *)

Fixpoint parse_u64_go (l : str) (n : N) : N :=
  match l with
  | [] => n
  | c :: t =>
      let d := b2n c in
      if (d <? 48) || (57 <? d) then 0
      else if u64_cutoff <=? n then max_u64
      else let n1 := n * 10 + (d - 48) in
           if max_u64 <? n1 then max_u64 else parse_u64_go t n1
  end.

Definition parse_u64 (l : str) : N := match l with [] => 0 | _ => parse_u64_go l 0 end.

(* strconv.FormatUint(x, 10) for x < 10^20 (every uint64) *)
Fixpoint dec_fuel (fuel : nat) (x : N) (acc : str) : str :=
  match fuel with
  | O => acc
  | S k => let acc' := n2b (48 + x mod 10) :: acc in
           if x <? 10 then acc' else dec_fuel k (x / 10) acc'
  end.
Definition format_uint (x : N) : str := dec_fuel 20 x [].

Definition s_true : str := [x74;x72;x75;x65].
Definition s_false : str := [x66;x61;x6c;x73;x65].
Definition s_auto : str := [x61;x75;x74;x6f].

(* ------------------------------------------------------------------ configuration *)

Record config := mkCfg {
  udp_enabled : bool;     (* !Config.DisableUDP *)
  ignore_bw : bool;       (* Config.IgnoreClientBandwidth *)
  max_tx : N;             (* Config.BandwidthConfig.MaxTx *)
  max_rx : N              (* Config.BandwidthConfig.MaxRx *)
}.

(* AuthResponseToHeader (http.go:60-68) + WriteHeader(233).  Header names are the canonical keys
   http.Header.Set stores; listed in key order (a Go map has no order). *)
Definition resp_auth_ok (cfg : config) (pad : str) : response :=
  mkResp status_auth_ok
         [ (hdr_ccrx, if ignore_bw cfg then s_auto else format_uint (max_rx cfg));
           (hdr_padding, pad);
           (hdr_udp, if udp_enabled cfg then s_true else s_false) ]
         [].

(* server.go:179-196: the tx rate reported to EventLogger.Connect *)
Definition actual_tx (cfg : config) (rx : N) : N :=
  if ignore_bw cfg then 0
  else if (0 <? max_tx cfg) && (max_tx cfg <? rx) then max_tx cfg else rx.

(* ------------------------------------------------------------------ state *)

Record conn := mkConn {
  authed : bool;              (* h3sHandler.authenticated *)
  auth_id : str;              (* h3sHandler.authID *)
  in_auth : option request;   (* authMutex held by a ServeHTTP that is inside Authenticate *)
  udp_sm : bool;              (* the goroutine that creates and runs udpSM has been started *)
  tcp_pend : list str;        (* hijacked streams whose handler has not reached the outbound yet *)
  tcp_est : list str;         (* proxied TCP streams *)
  dq : list str;              (* datagrams waiting in the QUIC connection's receive queue *)
  udp_est : list str;         (* UDP sessions *)
  closed : bool               (* handleClient has run its tail *)
}.

Definition conn0 : conn := mkConn false [] None false [] [] [] [] false.

Definition cid := N.
Definition state := cid -> conn.
Definition init : state := fun _ => conn0.

Definition upd (s : state) (c : cid) (v : conn) : state := fun c' => if c' =? c then v else s c'.

Inductive action :=
| HttpReq (c : cid) (r : request) (pad : str)
| AuthVerdict (c : cid) (ok : bool) (id : str) (pad : str)
| Stream (c : cid) (ft : option N) (addr : str)
| TcpDial (c : cid) (addr : str)
| TcpRelay (c : cid) (addr : str) (n : N)
| Datagram (c : cid) (addr : str)
| UdpRecv (c : cid) (addr : str)
| UdpRelay (c : cid) (addr : str) (n : N)
| ConnClosed (c : cid).

Inductive obs :=
| ObsAuthCall (c : cid) (auth : str) (tx : N)       (* Authenticator.Authenticate(addr of c, auth, tx) *)
| ObsMasq (c : cid) (r : request)                    (* masqHandler(w, r) *)
| ObsResp (c : cid) (r : request) (resp : response)  (* the complete response to r *)
| ObsOnline (c : cid) (id : str) (b : bool)          (* TrafficLogger.LogOnlineState *)
| ObsConnect (c : cid) (id : str) (tx : N)           (* EventLogger.Connect *)
| ObsDisconnect (c : cid) (id : str)                 (* EventLogger.Disconnect *)
| ObsOutboundTCP (c : cid) (addr : str)              (* Outbound.TCP(addr) for a stream of c *)
| ObsOutboundUDP (c : cid) (addr : str)              (* Outbound.UDP(addr) for a datagram of c *)
| ObsRelay (c : cid) (n : N).                        (* payload passed on for c *)

Definition act_conn (a : action) : cid :=
  match a with
  | HttpReq c _ _ | AuthVerdict c _ _ _ | Stream c _ _ | TcpDial c _ | TcpRelay c _ _
  | Datagram c _ | UdpRecv c _ | UdpRelay c _ _ | ConnClosed c => c
  end.

Definition obs_conn (o : obs) : cid :=
  match o with
  | ObsAuthCall c _ _ | ObsMasq c _ | ObsResp c _ _ | ObsOnline c _ _ | ObsConnect c _ _
  | ObsDisconnect c _ | ObsOutboundTCP c _ | ObsOutboundUDP c _ | ObsRelay c _ => c
  end.

Fixpoint mem (a : str) (l : list str) : bool :=
  match l with [] => false | x :: t => str_eqb a x || mem a t end.

Fixpoint remove1 (a : str) (l : list str) : list str :=
  match l with [] => [] | x :: t => if str_eqb a x then t else x :: remove1 a t end.

(* The trace of a run: every action, followed by what it made observable. *)
Inductive ev := EAct (a : action) | EObs (o : obs).

(* nothing exists for this connection that could reach the outbound or relay *)
Definition gate_closed (k : conn) : Prop :=
  tcp_pend k = [] /\ tcp_est k = [] /\ udp_sm k = false /\ udp_est k = [].

(* counting events of one connection in a trace *)
Definition nb (b : bool) : nat := if b then 1%nat else 0%nat.
Definition is_online (c : cid) (b : bool) (e : ev) : bool :=
  match e with EObs (ObsOnline c' _ b') => (c' =? c) && Bool.eqb b' b | _ => false end.
Definition is_connect (c : cid) (e : ev) : bool :=
  match e with EObs (ObsConnect c' _ _) => c' =? c | _ => false end.
Definition is_disconnect (c : cid) (e : ev) : bool :=
  match e with EObs (ObsDisconnect c' _) => c' =? c | _ => false end.
Definition count (f : ev -> bool) (tr : list ev) : nat := length (filter f tr).

Section Server.
  Variable cfg : config.
  Variable masq : request -> response.    (* Config.MasqHandler, or http.NotFound when nil: any function *)

  Definition step (s : state) (a : action) : option (state * list obs) :=
    match a with
    | HttpReq c r pad =>
        let k := s c in
        if closed k then None
        else if is_auth_req r then                                   (* :159 *)
          match in_auth k with
          | Some _ => None                                           (* :160 blocked on authMutex *)
          | None =>
              if authed k then                                       (* :162-171 *)
                Some (s, [ObsResp c r (resp_auth_ok cfg pad)])
              else                                                   (* :172-174 *)
                Some (upd s c (mkConn (authed k) (auth_id k) (Some r) (udp_sm k) (tcp_pend k) (tcp_est k)
                                      (dq k) (udp_est k) (closed k)),
                      [ObsAuthCall c (r_auth r) (parse_u64 (r_ccrx r))])
          end
        else                                                         (* :229-232 *)
          Some (s, [ObsMasq c r; ObsResp c r (masq r)])
    | AuthVerdict c ok id pad =>
        let k := s c in
        match in_auth k with
        | None => None
        | Some r =>
            if ok then                                               (* :175-224 *)
              Some (upd s c (mkConn true id None (udp_sm k || udp_enabled cfg) (tcp_pend k) (tcp_est k)
                                    (dq k) (udp_est k) (closed k)),
                    [ObsResp c r (resp_auth_ok cfg pad); ObsOnline c id true;
                     ObsConnect c id (actual_tx cfg (parse_u64 (r_ccrx r)))])
            else                                                     (* :225-228 *)
              Some (upd s c (mkConn (authed k) (auth_id k) None (udp_sm k) (tcp_pend k) (tcp_est k)
                                    (dq k) (udp_est k) (closed k)),
                    [ObsMasq c r; ObsResp c r (masq r)])
        end
    | Stream c ft addr =>
        let k := s c in
        if closed k then None
        else match ft with
             | None => Some (s, [])                                  (* :236 err != nil *)
             | Some t =>
                 if authed k && (t =? frame_type_tcp_request) then   (* :236, :241-250 *)
                   Some (upd s c (mkConn (authed k) (auth_id k) (in_auth k) (udp_sm k) (addr :: tcp_pend k)
                                         (tcp_est k) (dq k) (udp_est k) (closed k)), [])
                 else Some (s, [])                                   (* :237, :251-252 *)
             end
    | TcpDial c addr =>
        let k := s c in
        if mem addr (tcp_pend k) then
          Some (upd s c (mkConn (authed k) (auth_id k) (in_auth k) (udp_sm k) (remove1 addr (tcp_pend k))
                                (addr :: tcp_est k) (dq k) (udp_est k) (closed k)),
                [ObsOutboundTCP c addr])
        else None
    | TcpRelay c addr n =>
        if mem addr (tcp_est (s c)) then Some (s, [ObsRelay c n]) else None
    | Datagram c addr =>
        let k := s c in
        if closed k then None
        else Some (upd s c (mkConn (authed k) (auth_id k) (in_auth k) (udp_sm k) (tcp_pend k) (tcp_est k)
                                   (addr :: dq k) (udp_est k) (closed k)), [])
    | UdpRecv c addr =>
        let k := s c in
        if udp_sm k && mem addr (dq k) then
          Some (upd s c (mkConn (authed k) (auth_id k) (in_auth k) (udp_sm k) (tcp_pend k) (tcp_est k)
                                (remove1 addr (dq k)) (addr :: udp_est k) (closed k)),
                [ObsOutboundUDP c addr])
        else None
    | UdpRelay c addr n =>
        if mem addr (udp_est (s c)) then Some (s, [ObsRelay c n]) else None
    | ConnClosed c =>
        let k := s c in
        if closed k then None
        else match in_auth k with
             | Some _ => None               (* ServeQUICConn waits for the running handler *)
             | None =>
                 Some (upd s c (mkConn (authed k) (auth_id k) None (udp_sm k) (tcp_pend k) (tcp_est k)
                                       (dq k) (udp_est k) true),
                       if authed k then [ObsOnline c (auth_id k) false; ObsDisconnect c (auth_id k)] else [])
             end
    end.

  Fixpoint run (s : state) (acts : list action) : option (state * list ev) :=
    match acts with
    | [] => Some (s, [])
    | a :: t =>
        match step s a with
        | None => None
        | Some (s1, o) =>
            match run s1 t with
            | None => None
            | Some (s2, tr) => Some (s2, EAct a :: map EObs o ++ tr)
            end
        end
    end.

  (* ---------------------------------------------------------------- monitors (on any trace, also a recorded one) *)

  Definition is_accept (c : cid) (e : ev) : bool :=
    match e with EAct (AuthVerdict c' true _ _) => c' =? c | _ => false end.

  (* the connection an outbound / relay observable belongs to *)
  Definition outbound_conn (e : ev) : option cid :=
    match e with
    | EObs (ObsOutboundTCP c _) | EObs (ObsOutboundUDP c _) | EObs (ObsRelay c _) => Some c
    | _ => None
    end.

  (* C01: every outbound / relay observable for c comes after an accepting verdict on c *)
  Fixpoint c01_mon (seen : list cid) (tr : list ev) : bool :=
    match tr with
    | [] => true
    | e :: t =>
        (match outbound_conn e with Some c => existsb (N.eqb c) seen | None => true end) &&
        c01_mon (match e with EAct (AuthVerdict c true _ _) => c :: seen | _ => seen end) t
    end.

  (* C02: every response is the masquerade handler's, unless an accepting verdict on c came before *)
  Definition resp_eqb (a b : response) : bool :=
    (status a =? status b) &&
    (Nat.eqb (length (hdrs a)) (length (hdrs b)) &&
     forallb (fun p => str_eqb (fst (fst p)) (fst (snd p)) && str_eqb (snd (fst p)) (snd (snd p)))
             (combine (hdrs a) (hdrs b))) &&
    str_eqb (body a) (body b).

  Fixpoint c02_mon (seen : list cid) (tr : list ev) : bool :=
    match tr with
    | [] => true
    | e :: t =>
        (match e with
         | EObs (ObsResp c r resp) => resp_eqb resp (masq r) || existsb (N.eqb c) seen
         | _ => true
         end) &&
        c02_mon (match e with EAct (AuthVerdict c true _ _) => c :: seen | _ => seen end) t
    end.
End Server.
