(* C02 - the server's authentication gate when a user callback that ServeHTTP calls does not return normally.

   Extension of model/C01_ServerAuth.v (shared by C01 and C02; same state, same base actions) for
   /repo/core/server/server.go h3sHandler.ServeHTTP (158-233):

     :160  h.authMutex.Lock()
     :161  defer h.authMutex.Unlock()          <- runs on EVERY exit of the auth branch: return AND panic

   The callbacks are user code: Config.MasqHandler (:228, :231, through masqHandler 345-352),
   Authenticator.Authenticate (:174), TrafficLogger.LogOnlineState (:206), EventLogger.Connect (:209).
   Any of them may panic - the documented way for a handler to abort a response is
   panic(http.ErrAbortHandler), httputil.ReverseProxy does it when its upstream dies - and the HTTP/3
   server recovers the panic (http3/server_conn.go: recover(), CancelRead / CancelWrite of the request's
   stream) and goes on serving the connection with the same h3sHandler.

   What is new here:
     - the masquerade handler's outcome for a request is  MResp p  (it returns having written p) or
       MAbort sent  (it aborts; `sent` = what it had flushed before, None if nothing);
     - XAuthPanic c : the pending Authenticate call of c panics;
     - XLogPanic c id pad site : Authenticate accepts (id) and the logger callback `site` panics
       (false = LogOnlineState :206, true = Connect :209);
     - the observable XAbort c r sent : the response to r is aborted after `sent`.
   Every exit of the auth branch - normal or not - releases authMutex (in_auth := None): that is what
   `defer` at :161 means.  Definitions only; the theorems are in proof/C02_Abort.v. *)
From Hy Require Import gen.ParamsC01 model.C01_ServerAuth.
Local Open Scope N_scope.

Inductive mres :=
| MResp (p : response)
| MAbort (sent : option response).

Inductive xaction :=
| XBase (a : action)
| XAuthPanic (c : cid)
| XLogPanic (c : cid) (id : str) (pad : str) (site : bool).

Inductive xobs :=
| XO (o : obs)
| XAbort (c : cid) (r : request) (sent : option response).

Inductive xev := XA (a : xaction) | XE (o : xobs).

Definition xact_conn (a : xaction) : cid :=
  match a with XBase b => act_conn b | XAuthPanic c => c | XLogPanic c _ _ _ => c end.

Definition xobs_conn (o : xobs) : cid :=
  match o with XO x => obs_conn x | XAbort c _ _ => c end.

(* the response part of a handler outcome (used only where the base LTS wants a total handler; the base
   actions that are delegated to it below never call the handler) *)
Definition resp_nil : response := mkResp 0 [] [].
Definition mres_resp (m : mres) : response := match m with MResp p => p | MAbort _ => resp_nil end.

(* h3sHandler with authMutex := l *)
Definition set_lock (k : conn) (l : option request) : conn :=
  mkConn (authed k) (auth_id k) l (udp_sm k) (tcp_pend k) (tcp_est k) (dq k) (udp_est k) (closed k).

(* a step ends a request when it makes a response or an abort observable *)
Definition ends_request (o : xobs) : bool :=
  match o with XO (ObsResp _ _ _) => true | XAbort _ _ _ => true | _ => false end.

Section XServer.
  Variable cfg : config.
  Variable masq : request -> mres.     (* Config.MasqHandler (or http.NotFound): ANY function, aborts included *)

  (* h.masqHandler(w, r)  (:228, :231): the call, and what the client gets *)
  Definition masq_call (c : cid) (r : request) : list xobs :=
    XO (ObsMasq c r) :: match masq r with
                        | MResp p => [XO (ObsResp c r p)]
                        | MAbort sent => [XAbort c r sent]
                        end.

  Definition xstep (s : state) (a : xaction) : option (state * list xobs) :=
    match a with
    | XBase (HttpReq c r pad) =>
        let k := s c in
        if closed k then None
        else if is_auth_req r then                                   (* :159 *)
          match in_auth k with
          | Some _ => None                                           (* :160 Lock() does not return *)
          | None =>                                                  (* :160 Lock(); :161 defer Unlock() *)
              if authed k then                                       (* :162-171 return -> Unlock *)
                Some (s, [XO (ObsResp c r (resp_auth_ok cfg pad))])
              else                                                   (* :172-174 inside Authenticate, mutex held *)
                Some (upd s c (set_lock k (Some r)),
                      [XO (ObsAuthCall c (r_auth r) (parse_u64 (r_ccrx r)))])
          end
        else                                                         (* :229-232 no mutex; returns or panics *)
          Some (s, masq_call c r)
    | XBase (AuthVerdict c ok id pad) =>
        let k := s c in
        match in_auth k with
        | None => None
        | Some r =>
            if ok then                                               (* :175-224, all callbacks return -> Unlock *)
              Some (upd s c (mkConn true id None (udp_sm k || udp_enabled cfg) (tcp_pend k) (tcp_est k)
                                    (dq k) (udp_est k) (closed k)),
                    [XO (ObsResp c r (resp_auth_ok cfg pad)); XO (ObsOnline c id true);
                     XO (ObsConnect c id (actual_tx cfg (parse_u64 (r_ccrx r))))])
            else                                                     (* :225-228 handler returns OR panics -> Unlock *)
              Some (upd s c (set_lock k None), masq_call c r)
        end
    | XAuthPanic c =>                                                (* :174 panics -> Unlock; nothing written *)
        let k := s c in
        match in_auth k with
        | None => None
        | Some r => Some (upd s c (set_lock k None), [XAbort c r None])
        end
    | XLogPanic c id pad site =>
        (* :174 accepts; :176-177 authID, flag; :199-204 the 233 header is set but not flushed; :206 or :209 panics
           -> Unlock; the goroutine of :214-223 (UDP session manager) is never started; the stream is reset *)
        let k := s c in
        match in_auth k with
        | None => None
        | Some r =>
            Some (upd s c (mkConn true id None (udp_sm k) (tcp_pend k) (tcp_est k) (dq k) (udp_est k) (closed k)),
                  XO (ObsOnline c id true) ::
                  (if site then [XO (ObsConnect c id (actual_tx cfg (parse_u64 (r_ccrx r))))] else []) ++
                  [XAbort c r None])
        end
    | XBase b =>                                                     (* streams, datagrams, proxying, close: unchanged *)
        match step cfg (fun r => mres_resp (masq r)) s b with
        | None => None
        | Some (s', o) => Some (s', map XO o)
        end
    end.

  Fixpoint xrun (s : state) (acts : list xaction) : option (state * list xev) :=
    match acts with
    | [] => Some (s, [])
    | a :: t =>
        match xstep s a with
        | None => None
        | Some (s1, o) =>
            match xrun s1 t with
            | None => None
            | Some (s2, tr) => Some (s2, XA a :: map XE o ++ tr)
            end
        end
    end.
End XServer.

(* an action after which the connection counts as accepted *)
Definition x_accepts (a : xaction) : option cid :=
  match a with
  | XBase (AuthVerdict c true _ _) => Some c
  | XLogPanic c _ _ _ => Some c
  | _ => None
  end.
