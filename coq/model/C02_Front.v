(* C02 - what stands between an HTTP/3 request on the wire and h3sHandler.ServeHTTP: the per-connection http3.Server
   that handleClient builds.

   /repo/core/server/server.go handleClient (119-136):

       h3s := http3.Server{
           Handler:          handler,
           StreamDispatcher: handler.ProxyStreamHijacker,
       }
       err := h3s.ServeQUICConn(conn)

   Every field that is not named keeps its zero value; in particular MaxHeaderBytes = 0.  The HTTP/3 library
   (quic-go http3 server.go maxHeaderBytes, server_conn.go requestMaxHeaderBytes / handleRequestStream) then uses
   http.DefaultMaxHeaderBytes (1 MiB - the limit of every server of the net/http family):

       maxHeaderBytes := c.requestMaxHeaderBytes()           limit = MaxHeaderBytes, or the default when <= 0
       if hf.Length > uint64(maxHeaderBytes)   { 431 }       the encoded HEADERS frame
       requestFromHeaders(decodeFn, maxHeaderBytes, ..)      sum over the fields of len(name) + len(value) + 32
           errHeaderTooLarge                   { 431 }       (RFC 9114 4.2.2, pseudo-header fields included)
       handler.ServeHTTP(r, req)

   A request above the limit is answered by the library ITSELF with a bare 431 (no header, no body) and never
   reaches ServeHTTP - neither the authenticator nor the masquerade handler hears of it.  Everything at or below
   the limit is handed to ServeHTTP unchanged; ServeHTTP (model/C01_ServerAuth.v) does not look at the size.

   A wire request is the request ServeHTTP would see plus the two sizes the library compares.  The front is a
   wrapper around the LTS of model/C01_ServerAuth.v: same state, every other action unchanged; an HTTP request
   can enter only through the front.  Definitions only; the theorems are in proof/C02_Front.v. *)
From Hy Require Import gen.ParamsC01 model.C01_ServerAuth.
Local Open Scope N_scope.

(* net/http: DefaultMaxHeaderBytes = 1 << 20 *)
Definition default_max_header_bytes : N := 1048576.

(* http3.Server.maxHeaderBytes / RawServerConn.requestMaxHeaderBytes, for a non-negative setting *)
Definition h3_limit (configured : N) : N :=
  if configured =? 0 then default_max_header_bytes else configured.

(* handleClient does not set http3.Server.MaxHeaderBytes *)
Definition handle_client_max_header_bytes : N := 0.

Definition front_limit : N := h3_limit handle_client_max_header_bytes.

Record wire := mkWire {
  w_req : request;     (* what ServeHTTP is given when the request is let through *)
  w_frame : N;         (* hf.Length: length of the encoded HEADERS frame *)
  w_fields : N         (* size of the decoded field section: sum of len(name) + len(value) + 32 *)
}.

(* rejectWithHeaderFieldsTooLarge: WriteHeader(431), Flush - nothing else *)
Definition resp_431 : response := mkResp 431 [] [].

Definition too_large (lim : N) (w : wire) : bool := (lim <? w_frame w) || (lim <? w_fields w).

Inductive faction :=
| FReq (c : cid) (w : wire) (pad : str)     (* a request stream is opened on c and its HEADERS frame arrives *)
| FAct (a : action).                        (* any other action of the base LTS (an HttpReq cannot bypass the front) *)

Inductive fobs :=
| FO (o : obs)                              (* an observable of the base LTS *)
| F431 (c : cid) (w : wire).                (* the library answered 431 by itself *)

Inductive fev := FA (a : faction) | FE (o : fobs).

Definition fact_conn (a : faction) : cid := match a with FReq c _ _ => c | FAct b => act_conn b end.

Section Front.
  Variable lim : N.                         (* the limit the library applies: front_limit for the code as it is *)
  Variable cfg : config.
  Variable masq : request -> response.

  Definition fstep (s : state) (a : faction) : option (state * list fobs) :=
    match a with
    | FReq c w pad =>
        if closed (s c) then None
        else if too_large lim w then Some (s, [F431 c w])
        else match step cfg masq s (HttpReq c (w_req w) pad) with
             | Some (s', o) => Some (s', map FO o)
             | None => None
             end
    | FAct (HttpReq _ _ _) => None
    | FAct b =>
        match step cfg masq s b with
        | Some (s', o) => Some (s', map FO o)
        | None => None
        end
    end.

  Fixpoint frun (s : state) (acts : list faction) : option (state * list fev) :=
    match acts with
    | [] => Some (s, [])
    | a :: t =>
        match fstep s a with
        | None => None
        | Some (s1, o) =>
            match frun s1 t with
            | None => None
            | Some (s2, tr) => Some (s2, FA a :: map FE o ++ tr)
            end
        end
    end.

  (* the base action a front action amounts to (none when the library answers by itself) *)
  Definition lower1 (a : faction) : list action :=
    match a with
    | FReq c w pad => if too_large lim w then [] else [HttpReq c (w_req w) pad]
    | FAct b => [b]
    end.

  Definition lower (acts : list faction) : list action := flat_map lower1 acts.

  (* the base trace inside a front trace *)
  Definition base_ev (e : fev) : list ev :=
    match e with
    | FA a => map EAct (lower1 a)
    | FE (FO o) => [EObs o]
    | FE (F431 _ _) => []
    end.

  Definition base_tr (tr : list fev) : list ev := flat_map base_ev tr.
End Front.
