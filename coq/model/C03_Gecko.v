(* C03 - the Gecko receiver (extras/obfs/gecko.go ReadFrom / acceptChunk, gecko_frame.go decodeFrame) with
   EVERY Go operation that can panic written out as a Panic site, and every make() recorded.
   Definitions only.

   model/C14_Gecko.v (property C14) describes what the receiver computes; its index e.chunks[h.chunkIdx] is the
   total function nth_error and its decodeFrame reads bytes with a default, so it has no panic site.  This file is
   the same code transcribed statement by statement over Go slices (len = cap) in the Res monad; proof/C03_Gecko.v
   shows that it never takes a Panic branch and returns exactly what C14's model returns (so C14's theorems about
   state bounds and reassembly apply to it unchanged), and that every allocation stays under its cap.

   Panic sites:
     1  ReadFrom:     buf[0]                        index out of range
     2  ReadFrom:     buf[:n]                       slice bounds out of range
     3  decodeFrame:  in[0]                         index out of range
     4  decodeFrame:  in[1]
     5  decodeFrame:  in[2]
     6  decodeFrame:  in[3:5]                       slice bounds out of range
    14  decodeFrame:  binary.BigEndian.Uint16(b): `_ = b[1]`
     7  decodeFrame:  in[geckoHeaderSize+int(h.padLen):]
     8  acceptChunk:  make([][]byte, h.totalChunks)  len out of range
     9  acceptChunk:  e.chunks[h.chunkIdx]           (the read in the duplicate test)
    10  acceptChunk:  make([]byte, len(payload))
    11  acceptChunk:  e.chunks[h.chunkIdx] = cp      (the store)
    12  acceptChunk:  make([]byte, total)
    13  acceptChunk:  out[off:]                      in the assembly loop
   Allocations are recorded as (site, number of elements): site 8 counts slice headers, 10 and 12 bytes.
   Not peer-controlled and not modelled: addr.String() on the address the inner conn returned (non-nil whenever
   err == nil, net.PacketConn contract); the two maps are made by the constructor. *)
From Hy Require Import model.C14_Gecko.
From Coq Require Import ZArith.
Local Open Scope Z_scope.

(* ---- Go slice primitives on a slice with len = cap *)
Definition idx (site : N) (l : list byte) (i : nat) : Res byte :=
  match nth_error l i with Some b => Ok b | None => Panic site end.
Definition slice (site : N) (l : list byte) (lo hi : nat) : Res (list byte) :=
  if Nat.leb lo hi && Nat.leb hi (length l) then Ok (firstn (hi - lo) (skipn lo l)) else Panic site.
Definition slice_from (site : N) (l : list byte) (lo : nat) : Res (list byte) :=
  if Nat.leb lo (length l) then Ok (skipn lo l) else Panic site.
(* make([]T, n) with n an int: panics on a negative or absurd length (2^47 elements is above every cap here) *)
Definition make_limit : Z := 2 ^ 47.
Definition make_ok (site : N) (n : Z) : Res unit :=
  if (n <? 0) || (make_limit <? n) then Panic site else Ok tt.
Definition u16be (site : N) (b : list byte) : Res N :=
  if Nat.ltb (length b) 2 then Panic site else Ok (be_dec (firstn 2 b)).

Definition alloc := (N * Z)%type.

(* ---- decodeFrame(in) *)
Definition decode_frame_p (b : list byte) : Res (hdr * list byte) :=
  if zlen b <? geckoHeaderSize then Err EShort
  else
    b0 <- idx 3 b 0 ;;
    if (N.land (b2n b0) geckoFlagFragment =? 0)%N then Err EInvalid
    else
      b1 <- idx 4 b 1 ;;
      b2 <- idx 5 b 2 ;;
      s34 <- slice 6 b 3 5 ;;
      pad <- u16be 14 s34 ;;
      let h := mkHdr pad (b2n b1) (b2n b2 / 16)%N (N.land (b2n b2) 15) in
      if (Z.of_N (h_tot h) <? geckoMinFragmentChunks) || (geckoMaxFragmentChunks <? Z.of_N (h_tot h))
      then Err EInvalid
      else if (h_tot h <=? h_idx h)%N then Err EInvalid
      else if zlen b <? geckoHeaderSize + Z.of_N (h_pad h) then Err EShort
      else
        payload <- slice_from 7 b (Z.to_nat (geckoHeaderSize + Z.of_N (h_pad h))) ;;
        Ok (h, payload).

(* ---- acceptChunk *)
(* lookup / creation of the entry: model/C14_Gecko.v find_or_create with the make() made explicit *)
Definition find_or_create_p (now : Z) (choice : key) (src : N) (h : hdr) (st : rstate)
  : Res (option (rstate * entry) * list alloc) :=
  let k := (src, h_mid h) in
  match tget k st with
  | None =>
      if geckoMaxPerSource <=? pget src st then Ok (None, [])
      else
        let st1 := if geckoMaxReassembly <=? zlen (tbl st) then evict_oldest choice st else st in
        _ <- make_ok 8 (Z.of_N (h_tot h)) ;;
        let e := mkE (repeat None (N.to_nat (h_tot h))) 0 (h_tot h) (now + geckoReassemblyTTLns) in
        Ok (Some (mkR (aset keqb k e (tbl st1)) (aset N.eqb src (pget src st1 + 1) (per st1)), e),
            [(8%N, Z.of_N (h_tot h))])
  | Some e => if (e_total e =? h_tot h)%N then Ok (Some (st, e), []) else Ok (None, [])
  end.

(*   total := 0; for _, c := range e.chunks { total += len(c) } *)
Definition total_len (cs : list (list byte)) : Z := fold_left (fun a c => a + zlen c) cs 0.

(*   off := 0; for _, c := range e.chunks { off += copy(out[off:], c) }   on out (len = cap) *)
Fixpoint assemble_p (cs : list (list byte)) (out : list byte) (off : nat) : Res (list byte) :=
  match cs with
  | [] => Ok out
  | c :: t =>
      dst <- slice_from 13 out off ;;
      let n := Nat.min (length dst) (length c) in
      assemble_p t (firstn off out ++ firstn n c ++ skipn n dst) (off + n)
  end.

Definition accept_chunk_p (now : Z) (choice : key) (src : N) (h : hdr) (payload : list byte) (st : rstate)
  : Res (rstate * option (list byte) * list alloc) :=
  let k := (src, h_mid h) in
  r <- find_or_create_p now choice src h st ;;
  match fst r with
  | None => Ok (st, None, snd r)
  | Some (st2, e) =>
      let i := N.to_nat (h_idx h) in
      (* if int(h.chunkIdx) >= len(e.chunks) || e.chunks[h.chunkIdx] != nil { return nil, false } *)
      if Nat.leb (length (e_chunks e)) i then Ok (st2, None, snd r)
      else
        c <- match nth_error (e_chunks e) i with Some c => Ok c | None => Panic 9 end ;;
        match c with
        | Some _ => Ok (st2, None, snd r)
        | None =>
            _ <- make_ok 10 (zlen payload) ;;                              (* cp := make([]byte, len(payload)); copy(cp, payload) *)
            if Nat.leb (length (e_chunks e)) i then Panic 11                (* e.chunks[h.chunkIdx] = cp *)
            else
              let e' := mkE (upd i (Some payload) (e_chunks e)) (e_received e + 1) (e_total e) (e_deadline e) in
              let st3 := mkR (aset keqb k e' (tbl st2)) (per st2) in
              let al := (snd r ++ [(10%N, zlen payload)])%list in
              if e_received e' <? Z.of_N (e_total e') then Ok (st3, None, al)
              else
                let cs := map opt_bytes (e_chunks e') in
                let total := total_len cs in
                _ <- make_ok 12 total ;;
                out <- assemble_p cs (repeat x00 (Z.to_nat total)) 0 ;;
                Ok (drop_entry k st3, Some out, (al ++ [(12%N, total)])%list)
        end
  end.

(* ---- ReadFrom, one inner datagram dg from src (the inner conn copies min(len dg, len buf) bytes into
   g.readBuf and returns that count: net.PacketConn contract); rbuf = len(p) of the caller *)
Definition on_packet_p (rbuf : nat) (now : Z) (choice : key) (src : N) (dg : list byte) (st : rstate)
  : Res (rstate * option (list byte) * list alloc) :=
  let buflen := Z.to_nat geckoBufferSize in
  let n := Nat.min (length dg) buflen in
  let buf := (firstn n dg ++ repeat x00 (buflen - n))%list in
  if Nat.eqb n 0 then Ok (st, None, [])                                    (* n <= 0: continue *)
  else
    b0 <- idx 1 buf 0 ;;
    inb <- slice 2 buf 0 n ;;
    if (N.land (b2n b0) 128 =? 0)%N then Ok (st, Some (firstn rbuf inb), [])   (* copy(p, buf[:n]) *)
    else
      match decode_frame_p inb with
      | Ok (h, payload) =>
          r <- accept_chunk_p now choice src h payload st ;;
          Ok (fst (fst r), option_map (firstn rbuf) (snd (fst r)), snd r)
      | Err _ => Ok (st, None, [])
      | Panic s => Panic s
      end.

Definition step_p (rbuf : nat) (st : rstate) (a : action) : Res (rstate * option (N * list byte) * list alloc) :=
  match a with
  | Packet now src dg choice =>
      r <- on_packet_p rbuf now choice src dg st ;;
      Ok (fst (fst r), option_map (fun o => (src, o)) (snd (fst r)), snd r)
  | Tick now => Ok (gc_expired now st, None, [])
  end.

Fixpoint run_p (rbuf : nat) (st : rstate) (l : list action)
  : Res (rstate * list (option (N * list byte)) * list alloc) :=
  match l with
  | [] => Ok (st, [], [])
  | a :: t =>
      r <- step_p rbuf st a ;;
      r2 <- run_p rbuf (fst (fst r)) t ;;
      Ok (fst (fst r2), snd (fst r) :: snd (fst r2), (snd r ++ snd r2)%list)
  end.

(* the caps of the three allocations *)
Definition geckoMaxChunkPayload : Z := geckoBufferSize - geckoHeaderSize.
Definition alloc_ok (a : alloc) : Prop :=
  match fst a with
  | 8%N => 0 <= snd a <= geckoMaxFragmentChunks
  | 10%N => 0 <= snd a <= geckoMaxChunkPayload
  | 12%N => 0 <= snd a <= geckoMaxFragmentChunks * geckoMaxChunkPayload
  | _ => False
  end.
