(* C03 model, gap (b): extras/outbounds/speedtest/protocol.go (request / response / summary
   readers) and server.go (server, handleDownload, handleUpload).  Definitions only.

   The connection is an io.Reader script (lib/Reader.v: chunks of any size, zero-length reads,
   errors with or without data, then EOF for ever) for the read side and a list of booleans for
   the write side (one per Write call: does it succeed; an exhausted list means success).
   binary.Read(r, BigEndian, &x) for a fixed-size x is io.ReadFull into a fresh n-byte slice.

   Panic sites:
     Panic 21  handleDownload: buf[:n] with n > chunkSize
     Panic 22  handleUpload:   buf[:n] with n > chunkSize
     Panic 23  (not a Go panic: marks `remaining -= uint32(rn)` wrapping below zero, which the
               theorems exclude together with the real panics)
     Panic 24  make([]byte, msgLen) out of range (msgLen is a uint16: never)
     Panic 998 / 999  loop fuel exhausted (excluded by the theorems) *)
From Hy Require Export lib.Reader gen.ParamsC03.
From Coq Require Import ZArith.
Local Open Scope N_scope.

Definition wscript := list bool.
Definition wnext (w : wscript) : bool * wscript :=
  match w with [] => (true, []) | b :: t => (b, t) end.

(* what the peer can observe of a server run: sizes of the successful writes, in order *)
Record srun := mkRun { r_res : Res unit; r_writes : list N; r_rest : script; r_calls : N }.

Definition rd (n : nat) (s : script) : Res (list byte) * script :=
  let r := read_full_s s n [] ctr0 in (fst (fst r), snd (fst r)).

(* readDownloadRequest / readUploadRequest *)
Definition read_u32 (s : script) : Res N * script :=
  match rd 4 s with
  | (Ok bs, s') => (Ok (be_dec bs), s')
  | (Err e, s') => (Err e, s')
  | (Panic p, s') => (Panic p, s')
  end.

Definition read_u16 (s : script) : Res N * script :=
  match rd 2 s with
  | (Ok bs, s') => (Ok (be_dec bs), s')
  | (Err e, s') => (Err e, s')
  | (Panic p, s') => (Panic p, s')
  end.

(* readDownloadResponse / readUploadResponse (same code twice): status ok?, message *)
Definition read_response (s : script) : Res (bool * list byte) * script :=
  match rd 1 s with
  | (Ok st, s1) =>
      match read_u16 s1 with
      | (Ok l, s2) =>
          if l =? 0 then (Ok (b2n (hd x00 st) =? 0, []), s2)
          else if 65535 <? l then (Panic 24, s2)
          else match rd (N.to_nat l) s2 with
               | (Ok m, s3) => (Ok (b2n (hd x00 st) =? 0, m), s3)
               | (Err e, s3) => (Err e, s3)
               | (Panic p, s3) => (Panic p, s3)
               end
      | (Err e, s2) => (Err e, s2)
      | (Panic p, s2) => (Panic p, s2)
      end
  | (Err e, s1) => (Err e, s1)
  | (Panic p, s1) => (Panic p, s1)
  end.

(* readUploadSummary: duration in ns (time.Duration(d) * time.Millisecond, an int64), bytes *)
Definition read_summary (s : script) : Res (Z * N) * script :=
  match read_u32 s with
  | (Ok d, s1) =>
      match read_u32 s1 with
      | (Ok l, s2) => (Ok ((Z.of_N d * 1000000)%Z, l), s2)
      | (Err e, s2) => (Err e, s2)
      | (Panic p, s2) => (Panic p, s2)
      end
  | (Err e, s1) => (Err e, s1)
  | (Panic p, s1) => (Panic p, s1)
  end.

(* ---------- handleDownload ---------- *)
Fixpoint download_loop (fuel : nat) (remaining : N) (w : wscript) (acc : list N) : Res unit * list N :=
  if remaining =? 0 then (Ok tt, acc) else
  match fuel with
  | O => (Panic 998, acc)
  | S f =>
      let n := if st_chunkSize <? remaining then st_chunkSize else remaining in
      if st_chunkSize <? n then (Panic 21, acc)          (* buf[:n] *)
      else
        let (okw, w') := wnext w in
        if okw then download_loop f ((remaining + 2 ^ 32 - n) mod 2 ^ 32) w' (n :: acc)
        else (Err EOther, acc)
  end.

Definition handle_download (s : script) (w : wscript) : srun :=
  match read_u32 s with
  | (Ok l, s1) =>
      let (ok1, w1) := wnext w in                       (* writeDownloadResponse(true, "OK") *)
      if ok1 then
        let r := download_loop (N.to_nat (l / st_chunkSize + 1)) l w1 [5] in
        mkRun (fst r) (rev (snd r)) s1 0      (* acc is kept newest-first *)
      else mkRun (Err EOther) [] s1 0
  | (Err e, s1) => mkRun (Err e) [] s1 0
  | (Panic p, s1) => mkRun (Panic p) [] s1 0
  end.

(* ---------- handleUpload ---------- *)
(* one conn.Read(buf[:n]) per iteration; calls counts them *)
Fixpoint upload_loop (fuel : nat) (remaining : N) (s : script) (calls : N) : Res unit * script * N :=
  if remaining =? 0 then (Ok tt, s, calls) else
  match fuel with
  | O => (Panic 999, s, calls)
  | S f =>
      let n := if st_chunkSize <? remaining then st_chunkSize else remaining in
      if st_chunkSize <? n then (Panic 22, s, calls)     (* buf[:n] *)
      else
        let r := read1 (N.to_nat n) s in
        let rn := N.of_nat (length (fst (fst r))) in
        if remaining <? rn then (Panic 23, snd r, calls + 1)   (* uint32 wrap *)
        else
          let rem' := remaining - rn in
          match snd (fst r) with
          | None => upload_loop f rem' (snd r) (calls + 1)
          | Some e =>
              if (rem' =? 0) && (match e with EEof => true | _ => false end)
              then upload_loop f rem' (snd r) (calls + 1)
              else (Err e, snd r, calls + 1)
          end
  end.

Definition upload_fuel (s : script) : nat := S (length s + length (sdata s)).

Definition handle_upload (s : script) (w : wscript) : srun :=
  match read_u32 s with
  | (Ok l, s1) =>
      let (ok1, w1) := wnext w in                       (* writeUploadResponse(true, "OK") *)
      if ok1 then
        match upload_loop (upload_fuel s1) l s1 0 with
        | (Ok _, s2, calls) =>
            let (ok2, _) := wnext w1 in                  (* writeUploadSummary *)
            if ok2 then mkRun (Ok tt) [5; 8] s2 calls else mkRun (Err EOther) [5] s2 calls
        | (Err e, s2, calls) => mkRun (Err e) [5] s2 calls
        | (Panic p, s2, calls) => mkRun (Panic p) [5] s2 calls
        end
      else mkRun (Err EOther) [] s1 0
  | (Err e, s1) => mkRun (Err e) [] s1 0
  | (Panic p, s1) => mkRun (Panic p) [] s1 0
  end.

(* server(conn) *)
Definition server (s : script) (w : wscript) : srun :=
  match rd 1 s with
  | (Ok t, s1) =>
      let ty := b2n (hd x00 t) in
      if ty =? st_typeDownload then handle_download s1 w
      else if ty =? st_typeUpload then handle_upload s1 w
      else mkRun (Err EInvalid) [] s1 0
  | (Err e, s1) => mkRun (Err e) [] s1 0
  | (Panic p, s1) => mkRun (Panic p) [] s1 0
  end.
