(* C03 model, gap (c): extras/realm/stun.go - what is done to a received packet around pion/stun
   (parseSTUNBindingResponse, netIPPortToAddrPort, the receive loops of Discover and
   DiscoverWithDemux) and punch_conn.go decodeSTUNPacket.  Definitions only.

   pion/stun is a library oracle: [decode p] is what stun.Decode + GetFrom report for packet p
   (None = Decode failed).  The oracle may answer anything - any IP length, any port - so the
   theorems cover whatever the library does with hostile bytes short of panicking itself.

   Panic sites:
     Panic 31  Discover: msg.TransactionID with msg == nil
     Panic 32  DiscoverWithDemux: ev.Message.TransactionID with Message == nil
     Panic 33  Discover: buf[:n] with n > len(buf)  (n comes from conn.ReadFrom(buf)) *)
From Hy Require Export lib.Bytes lib.Res.
From Coq Require Import ZArith.
Local Open Scope N_scope.

Record stunmsg := mkSM {
  sm_success : bool;                        (* msg.Type == stun.BindingSuccess *)
  sm_tid : list byte;                       (* TransactionID *)
  sm_xor : option (list byte * Z);          (* XORMappedAddress.GetFrom: IP, Port *)
  sm_mapped : option (list byte * Z) }.     (* MappedAddress.GetFrom *)

Definition v4_prefix : list byte := [x00;x00;x00;x00;x00;x00;x00;x00;x00;x00;xff;xff].

Fixpoint beqb (a b : list byte) : bool :=
  match a, b with
  | [], [] => true
  | x :: a', y :: b' => (b2n x =? b2n y) && beqb a' b'
  | _, _ => false
  end.

(* net.IP.To4 / To16 *)
Definition to4 (ip : list byte) : option (list byte) :=
  if Nat.eqb (length ip) 4 then Some ip
  else if Nat.eqb (length ip) 16 && beqb (firstn 12 ip) v4_prefix then Some (skipn 12 ip)
  else None.
Definition to16 (ip : list byte) : option (list byte) :=
  if Nat.eqb (length ip) 4 then Some (v4_prefix ++ ip)
  else if Nat.eqb (length ip) 16 then Some ip else None.

(* copy(addr[:], src) into a zeroed array of n bytes *)
Definition copy_into (n : nat) (src : list byte) : list byte :=
  firstn n src ++ repeat x00 (n - length src).

Definition ip_port_to_addrport (ip : list byte) (port : Z) : Res (list byte * Z) :=
  if (port <=? 0)%Z || (65535 <? port)%Z then Err EInvalid
  else match to4 ip with
       | Some ip4 => Ok (copy_into 4 ip4, port)
       | None => match to16 ip with
                 | Some ip16 => Ok (copy_into 16 ip16, port)
                 | None => Err EInvalid
                 end
       end.

Section Stun.
  Variable decode : list byte -> option stunmsg.
  Variable is_message : list byte -> bool.        (* stun.IsMessage *)

  (* parseSTUNBindingResponse: (msg, addr, err); msg may be non-nil together with an error *)
  Definition parse_stun (p : list byte) : option stunmsg * Res (list byte * Z) :=
    match decode p with
    | None => (None, Err EOther)
    | Some m =>
        if negb (sm_success m) then (None, Err EInvalid)
        else match sm_xor m with
             | Some (ip, port) => (Some m, ip_port_to_addrport ip port)
             | None => match sm_mapped m with
                       | Some (ip, port) => (Some m, ip_port_to_addrport ip port)
                       | None => (None, Err EInvalid)
                       end
             end
    end.

  (* PunchPacketConn.decodeSTUNPacket: the event carries Message = msg *)
  Definition decode_stun_packet (p : list byte) : option (option stunmsg * (list byte * Z)) :=
    if negb (is_message p) then None
    else match parse_stun p with
         | (m, Ok a) => Some (m, a)
         | (_, _) => None
         end.

  (* one conn.ReadFrom(buf) of Discover *)
  Inductive rx := RxPkt (n : Z) (p : list byte)   (* returned n, buffer contents p *)
                | RxTimeout | RxFail.

  Definition tid_in (t : list byte) (l : list (list byte)) : bool := existsb (beqb t) l.
  Definition tid_del (t : list byte) (l : list (list byte)) : list (list byte) :=
    filter (fun x => negb (beqb t x)) l.

  (* Discover's loop: pending transaction ids, results so far (with duplicates kept, the Go code
     collects a set) *)
  Fixpoint discover_loop (buflen : nat) (pending : list (list byte)) (rxs : list rx)
           (acc : list (list byte * Z)) : Res (list (list byte * Z)) :=
    match pending with
    | [] => Ok acc
    | _ :: _ =>
        match rxs with
        | [] => Ok acc                                 (* context deadline *)
        | RxTimeout :: _ => Ok acc
        | RxFail :: _ => Err EOther
        | RxPkt n p :: t =>
            if (n <? 0)%Z || (Z.of_nat buflen <? n)%Z then Panic 33
            else
              match parse_stun (firstn (Z.to_nat n) p) with
              | (_, Err _) => discover_loop buflen pending t acc
              | (_, Panic s) => Panic s
              | (None, Ok _) => Panic 31
              | (Some m, Ok a) =>
                  if tid_in (sm_tid m) pending
                  then discover_loop buflen (tid_del (sm_tid m) pending) t (acc ++ [a])
                  else discover_loop buflen pending t acc
              end
        end
    end.

  (* DiscoverWithDemux's loop over the events the demultiplexer emitted *)
  Fixpoint demux_loop (pending : list (list byte)) (evs : list (option stunmsg * (list byte * Z)))
           (acc : list (list byte * Z)) : Res (list (list byte * Z)) :=
    match pending with
    | [] => Ok acc
    | _ :: _ =>
        match evs with
        | [] => Ok acc
        | (None, _) :: _ => Panic 32
        | (Some m, a) :: t =>
            if tid_in (sm_tid m) pending
            then demux_loop (tid_del (sm_tid m) pending) t (acc ++ [a])
            else demux_loop pending t acc
        end
    end.

  (* the events decodeSTUNPacket produces from a sequence of datagrams *)
  Fixpoint stun_events (ps : list (list byte)) : list (option stunmsg * (list byte * Z)) :=
    match ps with
    | [] => []
    | p :: t => match decode_stun_packet p with
                | Some e => e :: stun_events t
                | None => stun_events t
                end
    end.
End Stun.
