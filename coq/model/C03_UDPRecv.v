(* C03 model, gap (a): what the server and the client do with the QUIC datagrams a peer sends.
   Definitions only.

   Server  core/server/server.go udpIOImpl.ReceiveMessage  (ParseUDPMessage on every datagram, a
           malformed one is skipped), core/server/udp.go udpSessionManager.Run/feed (look the
           session up, create it when absent), udpSessionEntry.Feed (Defragger.Feed, first complete
           message dials, then WriteTo), idle cleanup / CloseWithErr (entry leaves the map), and the
           reply path receiveLoop -> sendMessageAutoFrag (Serialize into the 4096-byte buffer,
           FragUDPMessage when quic-go answers DatagramTooLargeError).
   Client  core/client/client.go udpIOImpl.ReceiveMessage, core/client/udp.go
           udpSessionManager.feed (unknown session ids are ignored, non-blocking send into the
           1024-slot channel), udpConn.Receive (Defragger.Feed), NewUDP, close, closeCleanup.

   The wire parser [parse], the reassembler [feed] and the splitter [frag] are the C05 model
   (model/C05_Frag.v); their panic sites (Panic 1..4) are inherited.  New sites:
     Panic 11   client feed: send on a closed channel (conn.ReceiveCh <- msg after close)
     Panic 12   client close: close of a closed channel
   Everything outside the two packages is an input of the action: the datagram bytes, whether the
   traffic logger lets the message through, whether the dial succeeds, what the target answers,
   quic-go's verdict on a datagram size, when sessions expire / are closed by the local user. *)
From Hy Require Export model.C05_Frag gen.ParamsC03.
From Coq Require Import ZArith.
Local Open Scope N_scope.

(* ------------------------------------------------------------------ server *)

Record sess := mkSess { se_d : dstate;      (* e.D *)
                        se_conn : bool }.   (* e.conn != nil *)
Definition stab := list (N * sess).        (* m.m : map[uint32]*udpSessionEntry *)

Fixpoint sget (k : N) (t : stab) : option sess :=
  match t with
  | [] => None
  | (k', s) :: r => if k =? k' then Some s else sget k r
  end.
Fixpoint sdel (k : N) (t : stab) : stab :=
  match t with
  | [] => []
  | (k', s) :: r => if k =? k' then sdel k r else (k', s) :: sdel k r
  end.
Definition sset (k : N) (s : sess) (t : stab) : stab := (k, s) :: sdel k t.

Inductive sact :=
| SDgram (b : list byte) (log_ok dial_ok : bool)   (* ReceiveDatagram returned b *)
| SExpire (sid : N)                                 (* idle sweep / CloseWithErr of that session *)
| SReply (sid pid : N) (from data : list byte) (too_large : option Z)
      (* receiveLoop read one packet [data] from [from]; quic-go accepts the whole message
         (None) or answers DatagramTooLargeError with that MaxDatagramPayloadSize; pid is the
         random packet id drawn for the fragments *)
| SRecvErr.                                         (* ReceiveDatagram failed: Run returns *)

Inductive sout :=
| SODropped                                   (* ParseUDPMessage failed: continue *)
| SOPending (sid : N)                         (* Defragger.Feed returned nil *)
| SOWrite (sid : N) (addr data : list byte)   (* conn.WriteTo(dfMsg.Data, addr) *)
| SODialFail (sid : N)                        (* DialFunc failed: session closed and removed *)
| SOSent (sizes : list nat)                   (* sizes of the datagrams handed to SendDatagram *)
| SONone
| SOStop.                                     (* Run returned: every session closed *)

Record sstate := mkSS { ss_tab : stab; ss_stopped : bool }.
Definition ss_init : sstate := mkSS [] false.

(* udpSessionManager.feed + udpSessionEntry.Feed *)
Definition srv_feed (t : stab) (m : msg) (dial_ok : bool) : Res (stab * sout) :=
  let e := match sget (sid m) t with Some s => s | None => mkSess d_init false end in
  r <- feed (se_d e) m ;;
  let '(d1, o) := r in
  match o with
  | None => Ok (sset (sid m) (mkSess d1 (se_conn e)) t, SOPending (sid m))
  | Some df =>
      if se_conn e || dial_ok
      then Ok (sset (sid m) (mkSess d1 true) t, SOWrite (sid m) (addr df) (data df))
      else Ok (sdel (sid m) t, SODialFail (sid m))
  end.

(* udpIOImpl.SendMessage: Serialize into buf (len 4096); a message that does not fit is dropped
   silently *)
Definition send_sizes (ms : list msg) : list nat :=
  map size (filter (fun m => Nat.leb (size m) (N.to_nat MaxUDPSize)) ms).

(* sendMessageAutoFrag *)
Definition srv_reply (sid pid : N) (from data : list byte) (too_large : option Z) : Res sout :=
  let m := mkMsg sid 0 0 1 from data in
  if Nat.ltb (N.to_nat MaxUDPSize) (size m) then Ok (SOSent [])
  else match too_large with
       | None => Ok (SOSent [size m])
       | Some mx =>
           fs <- frag (mkMsg sid pid 0 1 from data) mx ;;
           Ok (SOSent (send_sizes fs))
       end.

Definition srv_step (s : sstate) (a : sact) : Res (sstate * sout) :=
  if ss_stopped s then Ok (s, SONone)
  else match a with
  | SDgram b log_ok dial_ok =>
      match parse b with
      | Ok m =>
          if log_ok then
            r <- srv_feed (ss_tab s) m dial_ok ;;
            Ok (mkSS (fst r) false, snd r)
          else Ok (mkSS [] true, SOStop)        (* errDisconnect: Run returns, cleanup(false) *)
      | Err _ => Ok (s, SODropped)
      | Panic n => Panic n
      end
  | SExpire k => Ok (mkSS (sdel k (ss_tab s)) false, SONone)
  | SReply k pid from data tl =>
      match sget k (ss_tab s) with
      | Some (mkSess _ true) => r <- srv_reply k pid from data tl ;; Ok (s, r)
      | _ => Ok (s, SONone)                     (* no receive loop without a socket *)
      end
  | SRecvErr => Ok (mkSS [] true, SOStop)
  end.

Fixpoint srv_run (s : sstate) (l : list sact) : Res (sstate * list sout) :=
  match l with
  | [] => Ok (s, [])
  | a :: t =>
      r <- srv_step s a ;;
      r2 <- srv_run (fst r) t ;;
      Ok (fst r2, snd r :: snd r2)
  end.

(* ------------------------------------------------------------------ client *)

Definition udpMessageChanSize : nat := N.to_nat cl_udpMessageChanSize.   (* 1024, regenerated *)

Record cconn := mkCC { cc_id : N;             (* uint32 *)
                       cc_d : dstate;
                       cc_q : list msg;       (* ReceiveCh contents, oldest first *)
                       cc_closed : bool }.    (* Closed, and the channel is closed *)

(* conns are named by their creation index (the *udpConn the local user holds) *)
Record cstate := mkCS { cs_conns : list cconn;
                        cs_map : list (N * nat);   (* m.m : id -> conn *)
                        cs_next : N;               (* m.nextID, uint32 *)
                        cs_closed : bool }.        (* m.closed *)
Definition cs_init : cstate := mkCS [] [] 1 false.

Fixpoint mget (k : N) (t : list (N * nat)) : option nat :=
  match t with
  | [] => None
  | (k', h) :: r => if k =? k' then Some h else mget k r
  end.
Fixpoint mdel (k : N) (t : list (N * nat)) : list (N * nat) :=
  match t with
  | [] => []
  | (k', h) :: r => if k =? k' then mdel k r else (k', h) :: mdel k r
  end.

Inductive cact :=
| CDgram (b : list byte)     (* ReceiveDatagram returned b *)
| COpen                      (* local user: NewUDP *)
| CClose (h : nat)           (* local user: conn.Close() *)
| CReceive (h : nat)         (* local user: conn.Receive() (one iteration per queued message) *)
| CRecvErr.                  (* ReceiveDatagram failed: run returns, closeCleanup *)

Inductive cout :=
| CODropped                  (* parse failed, unknown session, or channel full *)
| COQueued (h : nat)
| COOpened (h : nat) (id : N)
| CORefused                  (* NewUDP after close: ClosedError *)
| COData (addr data : list byte)   (* Receive returned a message *)
| COEof                      (* Receive on a closed, drained channel *)
| COBlocked                  (* Receive would block: nothing queued *)
| COMore                     (* Receive consumed a fragment and loops *)
| CONone.

Definition set_conn (h : nat) (c : cconn) (l : list cconn) : list cconn := upd h c l.

(* m.close(conn) *)
Definition c_close (s : cstate) (h : nat) : Res cstate :=
  match nth_error (cs_conns s) h with
  | None => Ok s
  | Some c =>
      if cc_closed c then Ok s
      else Ok (mkCS (set_conn h (mkCC (cc_id c) (cc_d c) (cc_q c) true) (cs_conns s))
                    (mdel (cc_id c) (cs_map s)) (cs_next s) (cs_closed s))
  end.

Fixpoint c_close_all (s : cstate) (hs : list nat) : Res cstate :=
  match hs with
  | [] => Ok s
  | h :: t => s1 <- c_close s h ;; c_close_all s1 t
  end.

Definition cli_step (s : cstate) (a : cact) : Res (cstate * cout) :=
  match a with
  | CDgram b =>
      if cs_closed s then Ok (s, CONone)          (* run has returned: nobody reads datagrams *)
      else
      match parse b with
      | Ok m =>
          match mget (sid m) (cs_map s) with
          | None => Ok (s, CODropped)
          | Some h =>
              match nth_error (cs_conns s) h with
              | None => Ok (s, CODropped)
              | Some c =>
                  if cc_closed c then Panic 11    (* send on closed channel *)
                  else if Nat.leb udpMessageChanSize (length (cc_q c)) then Ok (s, CODropped)
                  else Ok (mkCS (set_conn h (mkCC (cc_id c) (cc_d c) (cc_q c ++ [m]) false) (cs_conns s))
                                (cs_map s) (cs_next s) false, COQueued h)
              end
          end
      | Err _ => Ok (s, CODropped)
      | Panic n => Panic n
      end
  | COpen =>
      if cs_closed s then Ok (s, CORefused)
      else
        let id := cs_next s in
        let h := length (cs_conns s) in
        Ok (mkCS (cs_conns s ++ [mkCC id d_init [] false]) ((id, h) :: mdel id (cs_map s))
                 ((id + 1) mod 2 ^ 32) false, COOpened h id)
  | CClose h => s1 <- c_close s h ;; Ok (s1, CONone)
  | CReceive h =>
      match nth_error (cs_conns s) h with
      | None => Ok (s, CONone)
      | Some c =>
          match cc_q c with
          | [] => Ok (s, if cc_closed c then COEof else COBlocked)
          | m :: q =>
              r <- feed (cc_d c) m ;;
              let '(d1, o) := r in
              Ok (mkCS (set_conn h (mkCC (cc_id c) d1 q (cc_closed c)) (cs_conns s))
                       (cs_map s) (cs_next s) (cs_closed s),
                  match o with Some df => COData (addr df) (data df) | None => COMore end)
          end
      end
  | CRecvErr =>
      if cs_closed s then Ok (s, CONone)
      else s1 <- c_close_all s (map snd (cs_map s)) ;;
           Ok (mkCS (cs_conns s1) (cs_map s1) (cs_next s1) true, CONone)
  end.

Fixpoint cli_run (s : cstate) (l : list cact) : Res (cstate * list cout) :=
  match l with
  | [] => Ok (s, [])
  | a :: t =>
      r <- cli_step s a ;;
      r2 <- cli_run (fst r) t ;;
      Ok (fst r2, snd r :: snd r2)
  end.
