(* C04 model, third part: the CLIENT's consumption of the TCPResponse frame and what the application reads
   behind it.  Definitions only.

   core/client/client.go:
       func (c *clientImpl) TCP(addr string) (net.Conn, error) {
           stream, err := c.openStream() ...
           err = protocol.WriteTCPRequest(stream, addr) ...
           if c.config.FastOpen {
               return &tcpConn{Orig: stream, ..., Established: false}, nil      -- response handling deferred
           }
           ok, msg, err := protocol.ReadTCPResponse(stream)
           if err != nil { _ = stream.Close(); return nil, wrapIfConnectionClosed(err) }
           if !ok { _ = stream.Close(); return nil, coreErrs.DialError{Message: msg} }
           return &tcpConn{Orig: stream, ..., Established: true}, nil }

       func (c *tcpConn) Read(b []byte) (n int, err error) {
           if !c.Established {
               ok, msg, err := protocol.ReadTCPResponse(c.Orig)
               if err != nil { return 0, err }
               if !ok { return 0, coreErrs.DialError{Message: msg} }
               c.Established = true
           }
           return c.Orig.Read(b) }

   The stream (server to client direction) is the script of lib/Reader.v; c.Orig.Read(b) is one read1 with
   n = len(b).  The response reader works DIRECTLY on the stream: whatever it leaves in the script is what the
   application's Reads get. *)
From Hy Require Export model.C04_Framing.
From Coq Require Import ZArith.
Local Open Scope N_scope.

(* c.Orig.Read(b), len b = n *)
Definition stream_read (n : nat) (st : rstate) : (list byte * option errc) * rstate :=
  let r := read1 n (rs_script st) in (fst r, mkRS (snd r) (tick n (rs_ctr st))).

(* what one tcpConn.Read hands to the application: (n bytes, err) or (0, DialError{msg}) *)
Inductive rd := RData (bs : list byte) (e : option errc) | RDial (msg : list byte).

(* tcpConn.Read(b), len b = n, on a connection whose Established flag is [est]: result and the new flag *)
Definition tcpconn_read (est : bool) (n : nat) : IO (rd * bool) :=
  fun st =>
    if est then let r := stream_read n st in (Ok (RData (fst (fst r)) (snd (fst r)), true), snd r)
    else match read_tcp_response st with
         | (Ok (true, _), st1) => let r := stream_read n st1 in (Ok (RData (fst (fst r)) (snd (fst r)), true), snd r)
         | (Ok (false, msg), st1) => (Ok (RDial msg, false), st1)
         | (Err e, st1) => (Ok (RData [] (Some e), false), st1)
         | (Panic p, st1) => (Panic p, st1)
         end.

(* clientImpl.TCP behind WriteTCPRequest: a connection (with its Established flag), a DialError, another error *)
Inductive tcpres := TConn (est : bool) | TDial (msg : list byte) | TErr (e : errc).

Definition client_tcp (fo : bool) : IO tcpres :=
  fun st =>
    if fo then (Ok (TConn false), st)
    else match read_tcp_response st with
         | (Ok (true, _), st1) => (Ok (TConn true), st1)
         | (Ok (false, msg), st1) => (Ok (TDial msg), st1)
         | (Err e, st1) => (Ok (TErr e), st1)
         | (Panic p, st1) => (Panic p, st1)
         end.

(* ---------- the application: Reads with the buffer sizes bufs[0], bufs[1], ... (the last one repeats) ----------
   It reads while   fin (it reads until an error, io.EOF at the end of the stream)
                 or it has not issued its first Read
                 or it has fewer than plen bytes,
   and stops at the first error.  What it got = the concatenation of what its Reads returned. *)
Definition buf_at (bufs : list nat) (i : nat) : nat := nth i bufs (last bufs (N.to_nat 4096)).

Inductive fin_t := FNone | FErr (e : errc) | FDial (msg : list byte) | FFuel.

Fixpoint app_reads (fuel i : nat) (est fin : bool) (plen : nat) (bufs : list nat) (got : nat)
         (racc : list (list byte)) (st : rstate) : Res (list byte * fin_t) * rstate :=
  match fuel with
  | O => (Ok (concat (rev racc), FFuel), st)
  | S f =>
      if fin || Nat.eqb i 0 || Nat.ltb got plen then
        match tcpconn_read est (buf_at bufs i) st with
        | (Ok (RDial m, _), st1) => (Ok (concat (rev racc), FDial m), st1)
        | (Ok (RData bs (Some e), _), st1) => (Ok (concat (rev (bs :: racc)), FErr e), st1)
        | (Ok (RData bs None, est1), st1) =>
            app_reads f (S i) est1 fin plen bufs (got + length bs) (bs :: racc) st1
        | (Err e, st1) => (Err e, st1)
        | (Panic p, st1) => (Panic p, st1)
        end
      else (Ok (concat (rev racc), FNone), st)
  end.

(* TCP(), then the application's Reads on the connection it returned *)
Definition client_session (fo fin : bool) (plen : nat) (bufs : list nat) (fuel : nat)
  : IO (tcpres * (list byte * fin_t)) :=
  fun st =>
    match client_tcp fo st with
    | (Ok (TConn est), st1) =>
        match app_reads fuel 0 est fin plen bufs 0 [] st1 with
        | (Ok r, st2) => (Ok (TConn est, r), st2)
        | (Err e, st2) => (Err e, st2)
        | (Panic p, st2) => (Panic p, st2)
        end
    | (Ok t, st1) => (Ok (t, ([], FNone)), st1)
    | (Err e, st1) => (Err e, st1)
    | (Panic p, st1) => (Panic p, st1)
    end.
