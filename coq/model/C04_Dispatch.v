(* C04 model, second part: how a TCP request stream reaches ReadTCPRequest on the real server.
   Definitions only.

   quic-go http3/server.go (handleConn, one goroutine per accepted stream):
       frameType, err := quicvarint.Peek(str)
       handled, dispatchErr := s.StreamDispatcher(FrameType(frameType), str, err)
       ... if handled { return }; hconn.HandleRequestStream(str)
   core/server/server.go:
       func (h *h3sHandler) ProxyStreamHijacker(ft http3.FrameType, stream *quic.Stream, err error) (bool, error) {
           if err != nil || !h.authenticated.Load() { return false, nil }
           switch ft {
           case protocol.FrameTypeTCPRequest:
               if _, err := quicvarint.Read(quicvarint.NewReader(stream)); err != nil { return false, err }
               go h.handleTCPRequest(qStream)        -- reqAddr, err := protocol.ReadTCPRequest(stream)
               return true, nil
           default: return false, nil } }

   The dispatcher only LOOKS at the frame type (Peek does not consume), at whatever varint width the peer
   chose; the hijacker then has to consume exactly that varint, so that ReadTCPRequest starts at the address
   length.  Both are modelled over the same script (lib/Reader.v). *)
From Hy Require Export model.C04_Framing.
From Coq Require Import ZArith.
Local Open Scope N_scope.

(* ---------- quic.Stream.Peek(b), len b = need ----------
   Fills b with the next len(b) bytes of the stream WITHOUT consuming them; blocks until that many have
   arrived; if the stream ends (FIN) or fails before, it reports that error.  On a script: the data of
   the leading events, up to the first event that carries an error.  Bytes delivered together with an
   error count as arrived.  No Read call is made: the counters are untouched. *)
Fixpoint peek_s (s : script) (need : nat) {struct s} : Res (list byte) :=
  match need with
  | O => Ok []
  | S _ =>
      match s with
      | [] => Err EEof
      | Ev bs oe :: t =>
          if Nat.leb need (length bs) then Ok (firstn need bs)
          else match oe with
               | Some e => Err e
               | None =>
                   match peek_s t (need - length bs) with
                   | Ok r => Ok (bs ++ r)
                   | Err e => Err e
                   | Panic p => Panic p
                   end
               end
      end
  end.

(* ---------- quicvarint.Peek(p Peeker) (uint64, error) ----------
     if _, err := p.Peek(b[:1]); err != nil { return 0, err }
     l := 1 << (b[0] >> 6)
     if l == 1 { return uint64(b[0] & 0b00111111), nil }
     if _, err := p.Peek(b[:l]); err != nil { return 0, err }
     val, _, err := Parse(b[:l]); return val, err
   Parse is Varint.varint_read (it reports io.ErrUnexpectedEOF on a short slice; not reachable here,
   the slice has l bytes). *)
Definition peek_varint_s (s : script) : Res N :=
  match peek_s s 1 with
  | Ok [] => Err EEof
  | Ok (b0 :: _) =>
      let l := varint_width_of_first b0 in
      if Nat.eqb l 1 then Ok (b2n b0 mod 64)
      else match peek_s s l with
           | Ok bs => match varint_read bs with Some (v, _) => Ok v | None => Err EShort end
           | Err e => Err e
           | Panic p => Panic p
           end
  | Err e => Err e
  | Panic p => Panic p
  end.

Definition io_peek_varint : IO N := fun st => (peek_varint_s (rs_script st), st).

(* ---------- dispatcher + ProxyStreamHijacker + handleTCPRequest's parse, authenticated connection ----------
   Ok (Some addr)  the stream was hijacked and ReadTCPRequest returned addr: Outbound.TCP(addr) is called
   Ok None         not hijacked (another frame type, or the peek failed): the stream is left to http3, untouched
   Err e           hijacked, but the frame type could not be consumed / ReadTCPRequest failed: the stream is
                   closed, nothing is dialled *)
Definition server_dispatch : IO (option (list byte)) :=
  fun st =>
    match io_peek_varint st with
    | (Ok ft, st1) =>
        if ft =? FrameTypeTCPRequest
        then (addr <~ server_read_request ;; io_ret (Some addr)) st1
        else (Ok None, st1)
    | (Err _, st1) => (Ok None, st1)
    | (Panic p, st1) => (Panic p, st1)
    end.
