(* C04 model: core/internal/protocol/proxy.go - ReadTCPRequest, WriteTCPRequest, ReadTCPResponse,
   WriteTCPResponse, varintPut - and the frame-type read of core/server/server.go
   (ProxyStreamHijacker).  Definitions only.  Transcribed statement by statement over the io.Reader
   model of lib/Reader.v; Go failure modes are explicit (Panic sites):
     1  make([]byte, addrLen)  len out of range            (ReadTCPRequest)
     2  make([]byte, msgLen)   len out of range            (ReadTCPResponse)
     3  varintPut: panic("... doesn't fit into 62 bits")
     4  varintPut: b[k] index out of range (buffer too short)
     5  slice expression buf[i:] out of range
     6  quicvarint.Len panics (value above 2^62-1)
   999  out-of-fuel marker of Reader.copyn (shown unreachable)
   Limits, the frame type, the padding ranges and the padding alphabet come from gen/ParamsC04.v,
   regenerated from /repo on every run. *)
From Hy Require Export lib.Bytes lib.Varint lib.Res lib.Reader gen.ParamsC04.
From Coq Require Import ZArith.
Local Open Scope N_scope.

(* ---------- ReadTCPRequest(r io.Reader) (string, error) ---------- *)
Definition read_tcp_request : IO (list byte) :=
  (* bReader := quicvarint.NewReader(r): r has no ReadByte, so the one-byte-at-a-time byteReader *)
  addrLen <~ io_read_varint ;;
  if (addrLen =? 0) || (MaxAddressLength <? addrLen) then io_fail EInvalid else
  _ <~ io_make 1 addrLen ;;                         (* addrBuf := make([]byte, addrLen) *)
  addrBuf <~ io_read_full (N.to_nat addrLen) ;;     (* io.ReadFull(r, addrBuf) *)
  paddingLen <~ io_read_varint ;;
  if MaxPaddingLength <? paddingLen then io_fail EInvalid else
  _ <~ (if 0 <? paddingLen then io_copyn_discard (N.to_nat paddingLen) else io_ret tt) ;;
  io_ret addrBuf.

(* ---------- ReadTCPResponse(r io.Reader) (bool, string, error) ---------- *)
Definition read_tcp_response : IO (bool * list byte) :=
  status <~ io_read_full 1 ;;                       (* var status [1]byte; io.ReadFull(r, status[:]) *)
  msgLen <~ io_read_varint ;;
  if MaxMessageLength <? msgLen then io_fail EInvalid else
  msgBuf <~ (if 0 <? msgLen
             then (_ <~ io_make 2 msgLen ;; io_read_full (N.to_nat msgLen))
             else io_ret []) ;;
  paddingLen <~ io_read_varint ;;
  if MaxPaddingLength <? paddingLen then io_fail EInvalid else
  _ <~ (if 0 <? paddingLen then io_copyn_discard (N.to_nat paddingLen) else io_ret tt) ;;
  io_ret (b2n (hd x00 status) =? 0, msgBuf).

(* ---------- server.go ProxyStreamHijacker: consume the frame type, then ReadTCPRequest ----------
   (the http3 dispatcher only peeks the type; the handler reads it with quicvarint.Read and hands
   the stream to handleTCPRequest, which calls ReadTCPRequest) *)
Definition server_read_request : IO (list byte) :=
  _ <~ io_read_varint ;;
  read_tcp_request.

(* ---------- varintPut(b []byte, i uint64) int ----------
   the bytes it stores, or None for the explicit panic; uint8(x) is n2b (mod 256) *)
Definition shr (i : N) (k : N) : N := i / 2 ^ k.
Definition u8 (x : N) : N := x mod 256.

Definition varintPut_bytes (i : N) : option (list byte) :=
  if i <=? maxVarInt1 then Some [n2b i]
  else if i <=? maxVarInt2 then Some [n2b (N.lor (u8 (shr i 8)) 64); n2b i]
  else if i <=? maxVarInt4 then
    Some [n2b (N.lor (u8 (shr i 24)) 128); n2b (shr i 16); n2b (shr i 8); n2b i]
  else if i <=? maxVarInt8 then
    Some [n2b (N.lor (u8 (shr i 56)) 192); n2b (shr i 48); n2b (shr i 40); n2b (shr i 32);
          n2b (shr i 24); n2b (shr i 16); n2b (shr i 8); n2b i]
  else None.

(* on a buffer b (len = cap): the stores b[0] .. b[k-1] panic when b is too short *)
Definition varintPut (b : list byte) (i : N) : Res (list byte * nat) :=
  match varintPut_bytes i with
  | None => Panic 3
  | Some enc =>
      if Nat.leb (length enc) (length b) then Ok (enc ++ skipn (length enc) b, length enc)
      else Panic 4
  end.

(* buf[i:] *)
Definition slice_from (buf : list byte) (i : nat) : Res (list byte) :=
  if Nat.leb i (length buf) then Ok (skipn i buf) else Panic 5.

(* varintPut(buf[i:], v): the sub-slice aliases buf *)
Definition put_varint_at (buf : list byte) (i : nat) (v : N) : Res (list byte * nat) :=
  b <- slice_from buf i ;;
  r <- varintPut b v ;;
  Ok (firstn i buf ++ fst r, snd r).

(* copy(buf[i:], src): copies min(len) bytes, returns that count *)
Definition copy_at (buf : list byte) (i : nat) (src : list byte) : Res (list byte * nat) :=
  b <- slice_from buf i ;;
  let n := Nat.min (length b) (length src) in
  Ok (firstn i buf ++ firstn n src ++ skipn n b, n).

(* quicvarint.Len *)
Definition quic_len (v : N) : Res nat :=
  match varint_len v with Some w => Ok w | None => Panic 6 end.

(* ---------- WriteTCPRequest(w, addr): the bytes handed to the single w.Write ----------
   [padding] is the value of tcpRequestPadding.String() *)
Definition write_tcp_request (addr padding : list byte) : Res (list byte) :=
  let paddingLen := length padding in
  let addrLen := length addr in
  l0 <- quic_len FrameTypeTCPRequest ;;
  l1 <- quic_len (N.of_nat addrLen) ;;
  l2 <- quic_len (N.of_nat paddingLen) ;;
  let sz := (l0 + l1 + addrLen + l2 + paddingLen)%nat in
  let buf := repeat x00 sz in
  r <- varintPut buf FrameTypeTCPRequest ;;
  let buf := fst r in let i := snd r in
  r <- put_varint_at buf i (N.of_nat addrLen) ;;
  let buf := fst r in let i := (i + snd r)%nat in
  r <- copy_at buf i addr ;;
  let buf := fst r in let i := (i + snd r)%nat in
  r <- put_varint_at buf i (N.of_nat paddingLen) ;;
  let buf := fst r in let i := (i + snd r)%nat in
  r <- copy_at buf i padding ;;
  Ok (fst r).

(* ---------- WriteTCPResponse(w, ok, msg) ---------- *)
Definition write_tcp_response (ok : bool) (msg padding : list byte) : Res (list byte) :=
  let paddingLen := length padding in
  let msgLen := length msg in
  l1 <- quic_len (N.of_nat msgLen) ;;
  l2 <- quic_len (N.of_nat paddingLen) ;;
  let sz := (1 + l1 + msgLen + l2 + paddingLen)%nat in
  let buf := repeat x00 sz in
  (* buf[0] = 0 / 1: sz >= 1, the store cannot fail *)
  let buf := (if ok then x00 else x01) :: skipn 1 buf in
  r <- put_varint_at buf 1 (N.of_nat msgLen) ;;
  let buf := fst r in let i := snd r in
  r <- copy_at buf (1 + i) msg ;;
  let buf := fst r in let i := (i + snd r)%nat in
  r <- put_varint_at buf (1 + i) (N.of_nat paddingLen) ;;
  let buf := fst r in let i := (i + snd r)%nat in
  r <- copy_at buf (1 + i) padding ;;
  Ok (fst r).

(* ---------- padding.String(): what the writers may draw ----------
   n := Min + rand.Intn(Max-Min) (rand.Intn panics unless Max-Min > 0); every byte from paddingChars *)
Definition drawable (pmin pmax : Z) (pad : list byte) : Prop :=
  (pmin <= Z.of_nat (length pad) < pmax)%Z /\ Forall (fun b => In (b2n b) paddingChars) pad.

Definition drawableb (pmin pmax : Z) (pad : list byte) : bool :=
  (pmin <=? Z.of_nat (length pad))%Z && (Z.of_nat (length pad) <? pmax)%Z &&
  forallb (fun b => existsb (N.eqb (b2n b)) paddingChars) pad.

(* ---------- the frames, as the protocol document describes them (specification side) ----------
   a peer may encode each length on any legal width *)
Definition request_frame (wa wp : nat) (addr pad : list byte) : list byte :=
  varint_enc_w wa (N.of_nat (length addr)) ++ addr ++ varint_enc_w wp (N.of_nat (length pad)) ++ pad.

Definition response_frame (status : byte) (wm wp : nat) (msg pad : list byte) : list byte :=
  status :: varint_enc_w wm (N.of_nat (length msg)) ++ msg ++ varint_enc_w wp (N.of_nat (length pad)) ++ pad.

Definition fits (w : nat) (v : N) : Prop := legal_width w = true /\ v < 2 ^ (8 * N.of_nat w - 2).

(* run an IO action on a fresh reader *)
Definition run_on {A} (m : IO A) (s : script) : Res A * rstate := m (mkRS s ctr0).
