(* C05 model: core/internal/frag/frag.go (FragUDPMessage, Defragger.Feed) and the UDPMessage
   wire format of core/internal/protocol/proxy.go (HeaderSize, Size, Serialize, ParseUDPMessage).
   Definitions only.  Transcribed statement by statement; Go failure modes are explicit:
   the indexed store frags[fragID] and the uint8 arithmetic on fragID / count are written in. *)
From Hy Require Export lib.Bytes lib.Varint lib.Res gen.ParamsC05.
From Coq Require Import ZArith.
Local Open Scope N_scope.

Record msg := mkMsg {
  sid : N;            (* uint32 *)
  pid : N;            (* uint16 *)
  fid : N;            (* uint8 *)
  fcount : N;         (* uint8 *)
  addr : list byte;   (* Go string *)
  data : list byte }.

Definition set_frag (m : msg) (i c : N) (d : list byte) : msg :=
  mkMsg (sid m) (pid m) i c (addr m) d.

(* quicvarint.Len on a length (lengths are < 2^62 on any real machine; 8 is the widest) *)
Definition vlen (n : nat) : nat :=
  match varint_len (N.of_nat n) with Some w => w | None => 8%nat end.

Definition header_size (m : msg) : nat := (4 + 2 + 1 + 1 + vlen (length (addr m)) + length (addr m))%nat.
Definition size (m : msg) : nat := (header_size m + length (data m))%nat.

(* ---------- FragUDPMessage ---------- *)

Fixpoint upd {A} (i : nat) (x : A) (l : list A) : list A :=
  match l, i with
  | [], _ => []
  | _ :: t, O => x :: t
  | h :: t, S j => h :: upd j x t
  end.

(* the for-loop: d = fullPayload[off:], i = fragID (uint8), frags = the pre-allocated slice.
   fuel bounds the iteration count; every iteration consumes >= 1 byte when mp >= 1. *)
Fixpoint frag_loop (fuel : nat) (m : msg) (mp : nat) (cnt : N) (d : list byte) (i : N)
         (frags : list msg) : Res (list msg) :=
  match fuel with
  | O => Ok frags
  | S f =>
      match d with
      | [] => Ok frags
      | _ :: _ =>
          let fr := set_frag m i cnt (firstn mp d) in
          if Nat.ltb (N.to_nat i) (length frags)
          then frag_loop f m mp cnt (skipn mp d) ((i + 1) mod 256) (upd (N.to_nat i) fr frags)
          else Panic 1 (* frag.go: frags[fragID] index out of range *)
      end
  end.

(* FragUDPMessage(m, maxSize): maxSize is a Go int *)
Definition frag (m : msg) (maxSize : Z) : Res (list msg) :=
  if (Z.of_nat (size m) <=? maxSize)%Z then Ok [m]
  else
    let mpz := (maxSize - Z.of_nat (header_size m))%Z in
    if (mpz <=? 0)%Z then Ok []
    else
      let mp := Z.to_nat mpz in
      let cnt := ((length (data m) + mp - 1) / mp)%nat in
      if Nat.ltb 255 cnt then Ok []
      else frag_loop (length (data m)) m mp (N.of_nat cnt) (data m) 0
                     (repeat (mkMsg 0 0 0 0 [] []) cnt).

(* The behaviour of the tree before the "fix:" commit (uint8 truncation of the count), kept so that
   the old defect stays checkable: C05_frag_old_refuted. *)
Definition frag_old (m : msg) (maxSize : Z) : Res (list msg) :=
  if (Z.of_nat (size m) <=? maxSize)%Z then Ok [m]
  else
    let mpz := (maxSize - Z.of_nat (header_size m))%Z in
    if (mpz <=? 0)%Z then Ok []
    else
      let mp := Z.to_nat mpz in
      let cnt := (N.of_nat ((length (data m) + mp - 1) / mp)) mod 256 in
      frag_loop (length (data m)) m mp cnt (data m) 0
                (repeat (mkMsg 0 0 0 0 [] []) (N.to_nat cnt)).

(* specification-level splitter used to state the theorems *)
Fixpoint chunks (fuel : nat) (mp : nat) (d : list byte) : list (list byte) :=
  match fuel with
  | O => []
  | S f => match d with [] => [] | _ :: _ => firstn mp d :: chunks f mp (skipn mp d) end
  end.

(* ---------- Defragger ---------- *)

Record dstate := mkD {
  d_pid : N;                       (* uint16 *)
  d_frags : list (option msg);     (* []*UDPMessage, nil = None *)
  d_count : N;                     (* uint8 *)
  d_size : nat }.

Definition d_init : dstate := mkD 0 [] 0 0.

Definition opt_data (o : option msg) : list byte := match o with Some f => data f | None => [] end.

(* Feed returns the new state and the emitted message (None = nil).
   Panic sites (nil dereference in the assemble loop, index out of range) are modelled:
   the index d.frags[m.FragID] is guarded by FragID < FragCount = len(d.frags). *)
Definition feed (d : dstate) (m : msg) : Res (dstate * option msg) :=
  if fcount m <=? 1 then Ok (d, Some m)
  else if fcount m <=? fid m then Ok (d, None)
  else if negb (pid m =? d_pid d) || negb (fcount m =? N.of_nat (length (d_frags d)) mod 256) then
    let fr := repeat None (N.to_nat (fcount m)) in
    if Nat.ltb (N.to_nat (fid m)) (length fr)
    then Ok (mkD (pid m) (upd (N.to_nat (fid m)) (Some m) fr) 1 (length (data m)), None)
    else Panic 2 (* frag.go: d.frags[m.FragID] after make: out of range *)
  else
    match nth_error (d_frags d) (N.to_nat (fid m)) with
    | None => Panic 3 (* frag.go: d.frags[m.FragID] out of range *)
    | Some (Some _) => Ok (d, None)
    | Some None =>
        let fr := upd (N.to_nat (fid m)) (Some m) (d_frags d) in
        let c := (d_count d + 1) mod 256 in
        let sz := (d_size d + length (data m))%nat in
        if c =? N.of_nat (length fr) then
          if forallb (fun o => match o with Some _ => true | None => false end) fr
          then
            (* data := make(size); off += copy(data[off:], frag.Data): copy truncates at size *)
            let all := firstn sz (concat (map opt_data fr)) in
            let all := (all ++ repeat x00 (sz - length all))%list in
            Ok (mkD (d_pid d) fr c sz, Some (mkMsg (sid m) (pid m) 0 1 (addr m) all))
          else Panic 4 (* frag.go: nil fragment dereference in assemble loop *)
        else Ok (mkD (d_pid d) fr c sz, None)
    end.

(* feeding a sequence: emitted messages in order; a panic aborts *)
Fixpoint feed_all (d : dstate) (l : list msg) : Res (dstate * list msg) :=
  match l with
  | [] => Ok (d, [])
  | m :: t =>
      r <- feed d m ;;
      let '(d1, o) := r in
      r2 <- feed_all d1 t ;;
      let '(d2, os) := r2 in
      Ok (d2, match o with Some x => x :: os | None => os end)
  end.

(* ---------- wire format ---------- *)

Definition serialize (m : msg) : list byte :=
  be_enc 4 (sid m) ++ be_enc 2 (pid m) ++ [n2b (fid m); n2b (fcount m)] ++
  match varint_put (N.of_nat (length (addr m))) with Some v => v | None => [] end ++
  addr m ++ data m.

(* UDPMessage.Serialize(buf) with len(buf) = buflen: -1 when the buffer is too small *)
Definition serialize_ret (m : msg) (buflen : nat) : Z :=
  if Nat.ltb buflen (size m) then (-1)%Z else Z.of_nat (size m).

Definition parse (b : list byte) : Res msg :=
  if Nat.ltb (length b) 8 then Err EEof
  else
    match varint_read (skipn 8 b) with
    | None => Err EEof
    | Some (la, bs) =>
        if (la =? 0) || (MaxMessageLength <? la) then Err EInvalid
        else if Nat.leb (length bs) (N.to_nat la) then Err EInvalid
        else Ok (mkMsg (be_dec (firstn 4 b)) (be_dec (firstn 2 (skipn 4 b)))
                       (b2n (nth 6 b x00)) (b2n (nth 7 b x00))
                       (firstn (N.to_nat la) bs) (skipn (N.to_nat la) bs))
    end.

(* well-formed sender-side message: the field ranges of the Go struct *)
Definition msg_wf (m : msg) : Prop :=
  sid m < 2 ^ 32 /\ pid m < 2 ^ 16 /\ fid m < 256 /\ fcount m < 256.
