(* C05 model, send paths: core/client/udp.go (udpConn.Send) and core/server/udp.go
   (receiveLoop -> sendMessageAutoFrag).  Both are the same code:

     msg := &UDPMessage{SessionID: id, PacketID: 0, FragID: 0, FragCount: 1, Addr, Data}
     err := SendMessage(buf, msg)                       -- try the whole message first
     if errors.As(err, &errTooLarge) {
         msg.PacketID = uint16(rand.Intn(0xFFFF)) + 1   -- fresh random id in 1..65535
         fMsgs := frag.FragUDPMessage(msg, int(errTooLarge.MaxDatagramPayloadSize))
         for _, fMsg := range fMsgs { if err := SendMessage(buf, &fMsg); err != nil { return err } }
         return nil
     } else { return err }

   and SendMessage (udpIOImpl, both sides): n := msg.Serialize(buf); n < 0 => silent drop, nil;
   otherwise Conn.SendDatagram(buf[:n]).

   Definitions only.  The QUIC connection is an oracle: what it does at the i-th SendMessage call of
   one send (0 = the whole-message attempt) is [env i]: a datagram limit L (accept <= L, refuse > L
   with DatagramTooLargeError{L}) or another error.  The random packet id is an oracle argument.
   The send path keeps NO state between two sends (the function below has no state argument): this
   is the transcription of the code, and it is what "never split against a stale limit" rests on. *)
From Hy Require Export model.C05_Frag.
From Coq Require Import ZArith.
Local Open Scope N_scope.

Inductive ioresp := RLim (L : Z) | RFail.
Inductive ioout := OAccept | ODrop | OTooLarge (L : Z) | OFail.
Inductive sret := SNil | STooLarge (L : Z) | SFail.

(* udpIOImpl.SendMessage over a connection that answers r; buflen = len(buf) *)
Definition io_send (buflen : nat) (r : ioresp) (m : msg) : ioout :=
  if Nat.ltb buflen (size m) then ODrop
  else match r with
       | RFail => OFail
       | RLim L => if (L <? Z.of_nat (size m))%Z then OTooLarge L else OAccept
       end.

Definition ret_of (o : ioout) : sret :=
  match o with OAccept | ODrop => SNil | OTooLarge L => STooLarge L | OFail => SFail end.

(* the range loop over the fragments; k = index of the next SendMessage call of this send *)
Fixpoint send_frags (buflen : nat) (env : nat -> ioresp) (k : nat) (fs : list msg)
  : list (msg * ioout) * sret :=
  match fs with
  | [] => ([], SNil)
  | f :: t =>
      let o := io_send buflen (env k) f in
      match ret_of o with
      | SNil => let r := send_frags buflen env (S k) t in ((f, o) :: fst r, snd r)
      | e => ([(f, o)], e)
      end
  end.

Definition whole (sid p : N) (a d : list byte) : msg := mkMsg sid p 0 1 a d.

(* one send: the trace of SendMessage calls (message handed in, what the connection did) and the
   value returned to the caller *)
Definition send (buflen : nat) (env : nat -> ioresp) (newpid sid : N) (a d : list byte)
  : Res (list (msg * ioout) * sret) :=
  let m := whole sid 0 a d in
  let o := io_send buflen (env 0%nat) m in
  match o with
  | OTooLarge L =>
      fs <- frag (whole sid newpid a d) L ;;
      let r := send_frags buflen env 1 fs in
      Ok ((m, o) :: fst r, snd r)
  | _ => Ok ([(m, o)], ret_of o)
  end.

(* what the far side receives: the messages of the accepted datagrams, in order *)
Definition accepted (evs : list (msg * ioout)) : list msg :=
  map fst (filter (fun e => match snd e with OAccept => true | _ => false end) evs).

(* a history of sends on one session: per step its own connection behaviour, fresh id, address, payload *)
Record sstep := mkStep { st_env : nat -> ioresp; st_pid : N; st_addr : list byte; st_data : list byte }.

Definition step_msg (sid : N) (s : sstep) : msg := whole sid (st_pid s) (st_addr s) (st_data s).

Fixpoint send_hist (buflen : nat) (sid : N) (steps : list sstep) : Res (list (list (msg * ioout) * sret)) :=
  match steps with
  | [] => Ok []
  | s :: t =>
      r <- send buflen (st_env s) (st_pid s) sid (st_addr s) (st_data s) ;;
      rs <- send_hist buflen sid t ;;
      Ok (r :: rs)
  end.

(* "the message can be delivered under limit L": it fits the buffer and either fits L whole or can be
   split into <= 255 fitting fragments *)
Definition fits (buflen : nat) (L : Z) (m : msg) : bool :=
  Nat.leb (size m) buflen &&
  ((Z.of_nat (size m) <=? L)%Z ||
   (let mp := (L - Z.of_nat (header_size m))%Z in
    (0 <? mp)%Z && (Z.of_nat (length (data m)) <=? 255 * mp)%Z)).

(* what the far side must get for one step under a constant limit: the message as sent whole
   (packet id 0) or as reassembled (fresh id), id/count 0/1 *)
Definition delivered (buflen : nat) (sid : N) (L : Z) (s : sstep) : list msg :=
  let m0 := whole sid 0 (st_addr s) (st_data s) in
  if fits buflen L m0 then
    [if (Z.of_nat (size m0) <=? L)%Z then m0 else step_msg sid s]
  else [].
