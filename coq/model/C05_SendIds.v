(* C05 model, send paths: what the packet ids of a history of sends have to satisfy.

   The send path (model/C05_Send.v) takes the id of a fragmented message as an oracle argument: in the code
   it is uint16(rand.Intn(0xFFFF)) + 1, drawn per message.  The far side's Defragger has ONE slot, keyed by
   (packet id, fragment count); on a loss-free channel the id it holds is the id of the most recent message
   that was actually split.  So the exact requirement on the ids of a history is [fresh_ids]: every message
   that is split carries an id different from the one of the most recent earlier message that was split
   (ids of messages that go out whole, or are discarded, never reach a Defragger slot and do not matter).

   [win_distinct w ids] is the observable form the harness evaluates on the implementation (long-operation
   class of harness/go/c05/c05_send_common_test.go.tmpl, where every message of the history is split): among
   any w consecutive messages no two carry the same id.  Definitions only. *)
From Hy Require Export model.C05_Send.
From Coq Require Import ZArith.
Local Open Scope N_scope.

(* the step is refused whole under limit L and goes out as fragments *)
Definition splits (buflen : nat) (sid : N) (L : Z) (s : sstep) : bool :=
  let m0 := whole sid 0 (st_addr s) (st_data s) in
  fits buflen L m0 && (L <? Z.of_nat (size m0))%Z.

(* cur = the id the far side's slot may hold (None: the slot is empty) *)
Fixpoint fresh_ids (buflen : nat) (sid : N) (cur : option N) (ls : list (Z * sstep)) : Prop :=
  match ls with
  | [] => True
  | p :: t =>
      if splits buflen sid (fst p) (snd p)
      then cur <> Some (st_pid (snd p)) /\ fresh_ids buflen sid (Some (st_pid (snd p))) t
      else fresh_ids buflen sid cur t
  end.

(* x differs from the first w elements of l *)
Fixpoint notin_first (w : nat) (x : N) (l : list N) : bool :=
  match w, l with
  | O, _ => true
  | _, [] => true
  | S w', y :: t => negb (x =? y) && notin_first w' x t
  end.

(* among any w consecutive elements no two are equal (w >= 1; w = 1 says nothing) *)
Fixpoint win_distinct (w : nat) (ids : list N) : bool :=
  match ids with
  | [] => true
  | x :: t => notin_first (w - 1) x t && win_distinct w t
  end.

(* per-lag repeat counts, as the harness reports them: #{i : ids[i] = ids[i+d]} *)
Fixpoint lag_count (d : nat) (ids : list N) : N :=
  match ids with
  | [] => 0
  | x :: t => (match nth_error t (d - 1) with Some y => if x =? y then 1 else 0 | None => 0 end) + lag_count d t
  end.
