(* C05 model, reassembly as seen THROUGH the session managers (definitions only).

   Server, core/server/udp.go:
     udpSessionManager.feed(msg):   entry := m.m[msg.SessionID]
                                    if entry == nil { entry = newUDPSessionEntry(...); m.m[msg.SessionID] = entry }
                                    entry.Feed(msg)
     newUDPSessionEntry:            D: &frag.Defragger{}, Last: now            -- one Defragger PER ENTRY
     udpSessionEntry.Feed(msg):     e.Last.Set(now); dfMsg := e.D.Feed(msg); if dfMsg == nil { return }
                                    ... dial on first use, policy ...; e.conn.WriteTo(dfMsg.Data, addr)
     idleCleanupLoop / cleanup:     every idleCleanupInterval: entries with now - Last > idleTimeout are closed,
                                    ExitFunc deletes them from m.m                -- the reassembly state goes with them
   Client, core/client/udp.go:
     udpSessionManager.feed(msg):   conn, ok := m.m[msg.SessionID]; if !ok { return }   -- unknown session: ignored
                                    conn.ReceiveCh <- msg
     udpConn.Receive():             dfMsg := u.D.Feed(msg); if dfMsg == nil { continue }; return dfMsg.Data, dfMsg.Addr
     NewUDP():                      id := m.nextID; m.nextID++; conn{ID: id, D: &frag.Defragger{}}; m.m[id] = conn
     close(conn):                   delete(m.m, conn.ID)

   So both tables are maps  session id -> one-slot reassembler (model/C05_Frag.v [feed]); every message is routed
   by its session id BEFORE it reaches a reassembler.  The table is a function (Go map; its size is observed by the
   correspondence check over the keys a history can touch).  What follows a delivery on the server (dial, hook,
   outbound policy, the write) belongs to C07/C08 and is not modelled here: the output of a step is the message
   handed on by the reassembler.  Time is in milliseconds. *)
From Hy Require Export model.C05_Frag.
From Coq Require Import ZArith.
Local Open Scope N_scope.

Record sentry := mkSE { se_d : dstate; se_last : N }.
Definition stab := N -> option sentry.

Definition tab_empty : stab := fun _ => None.
Definition tab_set (s : N) (e : sentry) (t : stab) : stab := fun k => if k =? s then Some e else t k.
Definition tab_del (s : N) (t : stab) : stab := fun k => if k =? s then None else t k.

(* cleanup(true) at time T: now.Sub(entry.Last.Get()) > m.idleTimeout *)
Definition sweep_at (timeout T : N) (t : stab) : stab :=
  fun k => match t k with
           | Some e => if timeout <? T - se_last e then None else Some e
           | None => None
           end.

(* k consecutive ticks of the sweeper, the first at time T *)
Fixpoint sweep_ticks (iv timeout : N) (k : nat) (T : N) (t : stab) : stab :=
  match k with
  | O => t
  | S k' => sweep_ticks iv timeout k' (T + iv) (sweep_at timeout T t)
  end.

(* d ms pass without traffic: the ticks (multiples of iv) in (now, now + d] *)
Definition sleep_tab (iv timeout now d : N) (t : stab) : stab :=
  sweep_ticks iv timeout (N.to_nat ((now + d) / iv - now / iv)) ((now / iv + 1) * iv) t.

Record mstate := mkMS { ms_tab : stab; ms_now : N; ms_next : N (* client: nextID, uint32 *) }.

Definition ms_init (now : N) : mstate := mkMS tab_empty now 1.

Inductive mop :=
| MArrS (m : msg)    (* server: a message arrives (udpSessionManager.feed) *)
| MArrC (m : msg)    (* client: a message arrives (feed, then the session's Receive) *)
| MSleep (d : N)     (* d ms without traffic; the server's sweeper ticks every iv ms *)
| MOpen              (* client: NewUDP *)
| MClose (s : N).    (* client: udpConn.Close *)

(* one step: the new state and the message handed on (None: nothing is delivered) *)
Definition sm_step (iv timeout : N) (st : mstate) (o : mop) : Res (mstate * option msg) :=
  match o with
  | MArrS m =>
      let e := match ms_tab st (sid m) with Some e => e | None => mkSE d_init (ms_now st) end in
      r <- feed (se_d e) m ;;
      Ok (mkMS (tab_set (sid m) (mkSE (fst r) (ms_now st)) (ms_tab st)) (ms_now st) (ms_next st), snd r)
  | MArrC m =>
      match ms_tab st (sid m) with
      | None => Ok (st, None)
      | Some e =>
          r <- feed (se_d e) m ;;
          Ok (mkMS (tab_set (sid m) (mkSE (fst r) (se_last e)) (ms_tab st)) (ms_now st) (ms_next st), snd r)
      end
  | MSleep d =>
      Ok (mkMS (sleep_tab iv timeout (ms_now st) d (ms_tab st)) (ms_now st + d) (ms_next st), None)
  | MOpen =>
      Ok (mkMS (tab_set (ms_next st) (mkSE d_init (ms_now st)) (ms_tab st)) (ms_now st)
               ((ms_next st + 1) mod 2 ^ 32), None)
  | MClose s =>
      Ok (mkMS (tab_del s (ms_tab st)) (ms_now st) (ms_next st), None)
  end.

(* a history: the delivered messages in order; a panic aborts *)
Fixpoint sm_run (iv timeout : N) (st : mstate) (ops : list mop) : Res (mstate * list msg) :=
  match ops with
  | [] => Ok (st, [])
  | o :: t =>
      r <- sm_step iv timeout st o ;;
      r2 <- sm_run iv timeout (fst r) t ;;
      Ok (fst r2, match snd r with Some x => x :: snd r2 | None => snd r2 end)
  end.

(* the deliveries of a history (None: it panicked) *)
Definition run_outs (r : Res (mstate * list msg)) : option (list msg) :=
  match r with Ok (_, outs) => Some outs | _ => None end.

(* ---- what a session can see of a history ---- *)

(* the operation touches session s, or the clock / the id counter every session depends on *)
Definition concerns (s : N) (o : mop) : bool :=
  match o with
  | MArrS m | MArrC m => sid m =? s
  | MSleep _ | MOpen => true
  | MClose k => k =? s
  end.

Definition of_session (s : N) (l : list msg) : list msg := filter (fun x => sid x =? s) l.

(* the arrivals of a server history that carry session id s *)
Fixpoint arrivals_of (s : N) (ops : list mop) : list msg :=
  match ops with
  | [] => []
  | MArrS m :: t => if sid m =? s then m :: arrivals_of s t else arrivals_of s t
  | _ :: t => arrivals_of s t
  end.

Definition is_arrS (o : mop) : Prop := match o with MArrS _ => True | _ => False end.

(* ---- two variants that are NOT the code (kept so that the classes of change the correspondence check is
        directed at stay checkable: C05_sess_guard_refuted, C05_sess_shared_refuted) ---- *)

(* "no session state for stray fragments": a fragment other than fragment 0 for a session with no entry is dropped *)
Definition sm_step_guard (iv timeout : N) (st : mstate) (o : mop) : Res (mstate * option msg) :=
  match o with
  | MArrS m =>
      match ms_tab st (sid m) with
      | None => if (1 <? fcount m) && negb (fid m =? 0) then Ok (st, None) else sm_step iv timeout st o
      | Some _ => sm_step iv timeout st o
      end
  | _ => sm_step iv timeout st o
  end.

Fixpoint sm_run_guard (iv timeout : N) (st : mstate) (ops : list mop) : Res (mstate * list msg) :=
  match ops with
  | [] => Ok (st, [])
  | o :: t =>
      r <- sm_step_guard iv timeout st o ;;
      r2 <- sm_run_guard iv timeout (fst r) t ;;
      Ok (fst r2, match snd r with Some x => x :: snd r2 | None => snd r2 end)
  end.

(* one reassembler shared by all sessions of a connection: the server's arrivals all go through one slot *)
Definition shared_run (d : dstate) (ops : list mop) : Res (dstate * list msg) :=
  feed_all d (flat_map (fun o => match o with MArrS m => [m] | _ => [] end) ops).
