(* C06 - the client's end of a proxied TCP connection being closed (core/client/client.go:296-298,
   core/internal/utils/qstream.go:44-47).  Definitions only.

       func (c *tcpConn) Close() error { return c.Orig.Close() }          whatever c.Established is
       func (s *QStream) Close() error { s.Stream.CancelRead(0); return s.Stream.Close() }

   With fast open TCP() returns before the server's response was read and the connection only becomes
   Established inside its first Read (client.go:271-284); an application that writes and closes without reading
   (a one-way upload) closes a connection that is not Established.  What the server's end of the stream then
   yields is decided by HOW the send side is ended: quic-go's Stream.Close sends FIN behind everything written
   (the peer reads all of it, then EOF); CancelWrite sends RESET_STREAM (the peer's Read fails, bytes not yet
   delivered - even bytes already received but not yet read - are dropped).  That behaviour of quic-go is trusted,
   not modelled beyond the two outcomes below. *)
From Hy Require Import lib.Bytes model.C06_Relay model.C06_Request.
From Coq Require Import List NArith.
Import ListNotations.

(* calls on the underlying quic stream *)
Inductive qop := QCancelRead | QFin | QCancelWrite.

(* how the peer's Read side ends *)
Inductive upend := UEOF      (* every byte written, then io.EOF *)
                 | UReset.   (* some prefix of what was written, then a stream error *)

Fixpoint send_end (ops : list qop) : option upend :=
  match ops with
  | [] => None
  | QFin :: _ => Some UEOF
  | QCancelWrite :: _ => Some UReset
  | QCancelRead :: t => send_end t
  end.

Definition qstream_close : list qop := [QCancelRead; QFin].
(* tcpConn.Close: the same for an Established and a not yet Established connection *)
Definition conn_close (c : tconn) : list qop := qstream_close.

(* what the application does with the connection between TCP() and Close() *)
Inductive cop := CWrite (p : bytes) | CRead.
(* only Read changes the tcpConn: it consumes the response and sets Established (Write is c.Orig.Write) *)
Definition conn_after (c : tconn) (o : cop) : tconn :=
  match o with CWrite _ => c | CRead => mkConn true (pending c) end.
Definition payload_of (h : list cop) : bytes :=
  flat_map (fun o => match o with CWrite p => p | CRead => [] end) h.

(* the history  conn := TCP(addr); h; conn.Close()  as the server's end of the stream sees it: the bytes the
   client put on the stream and how they end.  `close` is the Close under discussion. *)
Definition upstream_of (close : tconn -> list qop) (write_req : bytes -> bytes) (addr : bytes) (c0 : tconn) (h : list cop)
  : bytes * option upend :=
  (client_stream write_req addr (payload_of h), send_end (close (fold_left conn_after h c0))).

(* a Close that gives up on a connection whose response was never read: reset instead of FIN *)
Definition conn_close_abort_unestablished (c : tconn) : list qop :=
  if established c then qstream_close else [QCancelRead; QCancelWrite].
