(* C06 - one proxied TCP connection end to end, over the REAL frame codecs of property C04.
   Definitions only.

   model/C06_Relay.v leaves the environment of the two copy loops open (what a Read returns is any
   action LRead) and states the client side over an abstract response codec; model/C06_Request.v
   states the request side over an abstract request codec.  Here the four byte streams of one
   connection are io.Reader scripts of lib/Reader.v (any cut into reads, zero-length reads, a
   terminal condition with or without the last bytes), the request is taken off the client stream by
   the model of ProxyStreamHijacker + protocol.ReadTCPRequest (C04_Framing.server_read_request), the
   response is the buffer protocol.WriteTCPResponse builds (C04_Framing.write_tcp_response) and the
   client is core/client/client.go TCP() + tcpConn.Read over protocol.ReadTCPResponse
   (C04_Framing.read_tcp_response):

     client application --write--> [request frame ++ payload]  = script su  --server_read_request--> Up loop --> target
     target             --write--> script sd --> Down loop --> [response frame ++ Down sink] = script sc --tcp_io/conn_read--> application

       func (c *clientImpl) TCP(addr string) (net.Conn, error) {            client.go:193-231
         ... WriteTCPRequest(stream, addr) ...
         if c.config.FastOpen { return &tcpConn{Orig: stream, Established: false}, nil }
         ok, msg, err := protocol.ReadTCPResponse(stream)
         if err != nil { return nil, err }                                  RResp e
         if !ok { return nil, DialError{Message: msg} }                     RDial msg
         return &tcpConn{Orig: stream, Established: true}, nil
       }
       func (c *tcpConn) Read(b []byte) (n int, err error) {                client.go:271-284
         if !c.Established {
           ok, msg, err := protocol.ReadTCPResponse(c.Orig)
           if err != nil { return 0, err }                                  RResp e, Established stays false
           if !ok { return 0, DialError{Message: msg} }                     RDial msg
           c.Established = true
         }
         return c.Orig.Read(b)                                              read1 (len b), error RStream e
       } *)
From Hy Require Import model.C04_Framing model.C06_Relay.
From Coq Require Import List NArith ZArith Bool.
Import ListNotations.
Local Open Scope N_scope.

(* ---- a reader error as the copy loops see it: nil, io.EOF, anything else *)
Definition errc_code (e : errc) : N :=
  match e with EEof => 0 | EShort => 1 | EInvalid => 2 | ELimit => 3 | EOther => 4 end.
Definition eerr_of (oe : option errc) : eerr :=
  match oe with None => EN | Some EEof => EEOF | Some e => EE (errc_code e) end.

(* the Reads of one copy loop are successive Reads of this script: src.Read(buf) with len(buf) = bl returns
   what Reader.read1 returns; the other actions of the loop do not touch its source.  The script left. *)
Fixpoint reads_script (s : script) (l : list lact) : option script :=
  match l with
  | [] => Some s
  | LRead bl c er :: t =>
      let r := read1 (N.to_nat bl) s in
      if beqb c (fst (fst r)) && eerr_eqb er (eerr_of (snd (fst r))) then reads_script (snd r) t else None
  | _ :: t => reads_script s t
  end.

(* a byte stream as a peer produces it: data, then at most one terminal condition (FIN, reset, deadline),
   which may arrive together with the last bytes; nothing after it *)
Fixpoint fin_ok (s : script) : bool :=
  match s with
  | [] => true
  | Ev _ None :: t => fin_ok t
  | Ev _ (Some _) :: t => match t with [] => true | _ => false end
  end.

(* ---- server side.  The run serves the client stream su: the request is read off its front by
   quicvarint.Read (frame type) + ReadTCPRequest; AReadReq true only if that succeeded, and then the
   Up loop reads the script the request phase left. *)
Definition serves_io (su : script) (tr : list act) : Prop :=
  match run_on server_read_request su with
  | (Ok _, st1) => exists left, reads_script (rs_script st1) (proj Up tr) = Some left
  | _ => ~ In (AReadReq true) tr
  end.
(* the Down loop reads what the target sends *)
Definition target_io (sd : script) (tr : list act) : Prop :=
  exists left, reads_script sd (proj Down tr) = Some left.

(* the codecs of C04 as the functions model/C06_Relay.v's stream_out and model/C06_Request.v's client_stream take;
   pad = the padding drawn for this frame *)
Definition real_write_resp (pad : list byte) (ok : bool) (msg : bytes) : bytes :=
  match write_tcp_response ok msg pad with Ok f => f | _ => [] end.
Definition real_write_req (pad : list byte) (addr : bytes) : bytes :=
  match write_tcp_request addr pad with Ok f => f | _ => [] end.

(* the response frames a run put on the stream (at most one, see proof/C06_E2E.v) *)
Definition resp_out (write_resp : bool -> bytes -> bytes) (tr : list act) : bytes :=
  flat_map (fun a => match a with AWriteResp ok msg => write_resp ok msg | _ => [] end) tr.

(* ---- client side over a script of the stream *)
Inductive rderr :=
| RDial (msg : bytes)      (* coreErrs.DialError{Message: msg} *)
| RResp (e : errc)         (* the error ReadTCPResponse returned *)
| RStream (e : errc).      (* the error the stream's Read returned *)

Record cconn := mkCC { c_est : bool; c_strm : rstate }.

Definition tcp_io (fastopen : bool) (st : rstate) : rderr + cconn :=
  if fastopen then inr (mkCC false st)
  else match read_tcp_response st with
       | (Ok (true, _), st') => inr (mkCC true st')
       | (Ok (false, msg), _) => inl (RDial msg)
       | (Err e, _) => inl (RResp e)
       | (Panic _, _) => inl (RResp EOther)     (* unreachable: C04_readers_never_panic *)
       end.

(* c.Orig.Read(b), len b = n *)
Definition stream_read (st : rstate) (n : nat) : (bytes * option rderr) * cconn :=
  let r := read1 n (rs_script st) in
  ((fst (fst r), option_map RStream (snd (fst r))), mkCC true (mkRS (snd r) (tick n (rs_ctr st)))).

(* tcpConn.Read(b), len b = n *)
Definition conn_read (c : cconn) (n : nat) : (bytes * option rderr) * cconn :=
  if c_est c then stream_read (c_strm c) n
  else match read_tcp_response (c_strm c) with
       | (Ok (true, _), st') => stream_read st' n
       | (Ok (false, msg), st') => (([], Some (RDial msg)), mkCC false st')
       | (Err e, st') => (([], Some (RResp e)), mkCC false st')
       | (Panic _, st') => (([], Some (RResp EOther)), mkCC false st')
       end.

(* the application: Reads with buffers of the sizes ns, until the first error; the bytes it got, in order *)
Fixpoint app_reads (c : cconn) (ns : list nat) : bytes * option rderr :=
  match ns with
  | [] => ([], None)
  | n :: t =>
      let r := conn_read c n in
      match snd (fst r) with
      | Some e => (fst (fst r), Some e)
      | None => let r' := app_reads (snd r) t in (fst (fst r) ++ fst r', snd r')
      end
  end.

(* TCP() on a fresh stream whose incoming side is sc, then the application's Reads *)
Definition client_io (fastopen : bool) (sc : script) (ns : list nat) : rderr + (bytes * option rderr) :=
  match tcp_io fastopen (mkRS sc ctr0) with
  | inl e => inl e
  | inr c => inr (app_reads c ns)
  end.

(* the first three actions of every run that relays *)
Definition accept_run : list act := [AReadReq true; ADial None; AWriteResp true Connected].

(* ---- the application that polls: it reads with a short read deadline and retries a Read that failed with the deadline
   error.  In a script a deadline that expires while nothing has arrived is the event Fail EOther (Read returns (0, err)
   and the stream goes on afterwards); tcpConn.Read as above: while the response has not been read completely,
   Established stays false and the NEXT Read parses the response from where the stream is. *)
Definition transient (e : rderr) : bool :=
  match e with RResp EOther | RStream EOther => true | _ => false end.

Fixpoint app_polls (c : cconn) (ns : list nat) : bytes * option rderr :=
  match ns with
  | [] => ([], None)
  | n :: t =>
      let r := conn_read c n in
      match snd (fst r) with
      | Some e => if transient e
                  then let r' := app_polls (snd r) t in (fst (fst r) ++ fst r', snd r')
                  else (fst (fst r), Some e)
      | None => let r' := app_polls (snd r) t in (fst (fst r) ++ fst r', snd r')
      end
  end.

(* k expired deadlines in a row *)
Definition deadlines (k : nat) : script := repeat (Fail EOther) k.

(* the variant of tcpConn.Read that guards the lazy response read with a sync.Once ("consume the response header only
   once"): an attempt that FAILED also spends the Once, after which Read goes straight to the stream
       if !c.Established { c.respOnce.Do(func() { err = c.readResponse() }); if err != nil { return 0, err } }
       return c.Orig.Read(b) *)
Record oconn := mkOC { o_est : bool; o_spent : bool; o_strm : rstate }.
Definition conn_read_once (c : oconn) (n : nat) : (bytes * option rderr) * oconn :=
  if o_est c || o_spent c
  then let r := stream_read (o_strm c) n in (fst r, mkOC (o_est c) (o_spent c) (c_strm (snd r)))
  else match read_tcp_response (o_strm c) with
       | (Ok (true, _), st') => let r := stream_read st' n in (fst r, mkOC true true (c_strm (snd r)))
       | (Ok (false, msg), st') => (([], Some (RDial msg)), mkOC false true st')
       | (Err e, st') => (([], Some (RResp e)), mkOC false true st')
       | (Panic _, st') => (([], Some (RResp EOther)), mkOC false true st')
       end.
Fixpoint app_polls_once (c : oconn) (ns : list nat) : bytes * option rderr :=
  match ns with
  | [] => ([], None)
  | n :: t =>
      let r := conn_read_once c n in
      match snd (fst r) with
      | Some e => if transient e
                  then let r' := app_polls_once (snd r) t in (fst (fst r) ++ fst r', snd r')
                  else (fst (fst r), Some e)
      | None => let r' := app_polls_once (snd r) t in (fst (fst r) ++ fst r', snd r')
      end
  end.
