(* C06 - the tail of handleTCPRequest (core/server/server.go:325-343) WITH the optional EventLogger, as the code has it.
   Definitions only.

       err = copyTwoWayEx(h.authID, stream, tConn, trafficLogger, streamStats)   / copyTwoWay(stream, tConn)
                                                                   -- e = the value the parent took off errChan
       if h.config.EventLogger != nil {
           h.config.EventLogger.TCPError(h.conn.RemoteAddr(), h.authID, reqAddr, err)        TEvent e
       }
       _ = tConn.Close()                                                                     TCloseTarget
       _ = stream.Close()                                                                    TCloseStream
       if err == errDisconnect {
           _ = h.conn.CloseWithError(closeErrCodeTrafficLimitReached, "")                    TCloseConn
       }

   model/C06_Relay.v has the same tail without the EventLogger call (QCloseT, QCloseS, QCloseC): the call sits between
   the return of the copy and the teardown and reads the very variable the close test reads afterwards.  Whether an
   EventLogger is configured is a configuration bit ([evlog]); the close test must not depend on it.

   [remap] = the variant proof/C06_Events.v refutes: the value shown to the EventLogger is "cleaned" (a logger-requested
   disconnect is not reported as a TCP error: errDisconnect becomes nil) in place, i.e. in the variable the close test
   reads. *)
From Hy Require Import lib.Bytes model.C06_Relay.
From Coq Require Import List NArith Bool.
Import ListNotations.

Inductive tpc :=
| TEv (e : gerr)      (* at EventLogger.TCPError(..., err) *)
| TCT (e : gerr)      (* at tConn.Close() *)
| TCS (e : gerr)      (* at stream.Close() *)
| TCC                 (* at h.conn.CloseWithError *)
| TEnd.

Inductive tact :=
| TEvent (e : gerr)   (* TCPError was handed e *)
| TCloseTarget
| TCloseStream
| TCloseConn.

Definition tail_init (evlog : bool) (e : gerr) : tpc := if evlog then TEv e else TCT e.

Definition clean (e : gerr) : gerr := match e with GDisconnect => GNil | _ => e end.

Definition tstep (remap : bool) (p : tpc) (a : tact) : option tpc :=
  match p, a with
  | TEv e, TEvent e' =>
      let e1 := if remap then clean e else e in
      if gerr_eqb e' e1 then Some (TCT e1) else None
  | TCT e, TCloseTarget => Some (TCS e)
  | TCS e, TCloseStream => Some (match e with GDisconnect => TCC | _ => TEnd end)
  | TCC, TCloseConn => Some TEnd
  | _, _ => None
  end.

Fixpoint texec (remap : bool) (p : tpc) (tr : list tact) : option tpc :=
  match tr with
  | [] => Some p
  | a :: t => match tstep remap p a with Some p' => texec remap p' t | None => None end
  end.

Definition is_close_conn (a : tact) : bool := match a with TCloseConn => true | _ => false end.
Definition closes_conn (tr : list tact) : bool := existsb is_close_conn tr.
Definition events_of (tr : list tact) : list gerr := flat_map (fun a => match a with TEvent e => [e] | _ => [] end) tr.

(* the one complete run of the tail *)
Definition tail_run (remap evlog : bool) (e : gerr) : list tact :=
  let e1 := if evlog && remap then clean e else e in
  (if evlog then [TEvent e1] else []) ++ [TCloseTarget; TCloseStream] ++
  (match e1 with GDisconnect => [TCloseConn] | _ => [] end).

(* the same tail as actions of the parent of model/C06_Relay.v (which has no EventLogger call) *)
Definition to_act (a : tact) : list act :=
  match a with TEvent _ => [] | TCloseTarget => [ACloseTarget] | TCloseStream => [ACloseStream] | TCloseConn => [ACloseConn] end.
