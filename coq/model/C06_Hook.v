(* C06 - handleTCPRequest as a whole (core/server/server.go:261-343), INCLUDING the branch a RequestHook takes.
   Definitions only.

   model/C06_Relay.v models the parent for a connection no hook intercepts.  Here the parent is modelled with the
   hook branch as the code has it; the two-way copy and the teardown are the LTS of model/C06_Relay.v, embedded
   unchanged (XRelay a = an action of that LTS, started in relay_init):

       reqAddr, err := protocol.ReadTCPRequest(stream)                      XReadReq ok
       if err != nil { _ = stream.Close(); return }
       var putback []byte; var hooked bool
       if h.config.RequestHook != nil {
         hooked = h.config.RequestHook.Check(false, reqAddr)                XCheck hooked   (hook nil: XCheck false)
         if hooked {
           _ = protocol.WriteTCPResponse(stream, true, "RequestHook enabled")     XWriteResp true HookMsg  -- BEFORE the dial
           putback, err = h.config.RequestHook.TCP(stream, &reqAddr)        XHookTCP (Some putback) / XHookTCP None (error)
           if err != nil { _ = stream.Close(); return }
         }
       }
       tConn, err := h.config.Outbound.TCP(reqAddr)                         XDial None / XDial (Some msg)
       if err != nil {
         if !hooked { _ = protocol.WriteTCPResponse(stream, false, err.Error()) }   XWriteResp false msg   (un-hooked only)
         _ = stream.Close()                                                 XCloseStream
         return
       }
       if !hooked { _ = protocol.WriteTCPResponse(stream, true, "Connected") }      XWriteResp true Connected (un-hooked only)
       if len(putback) > 0 { n, _ := tConn.Write(putback); streamStats.Tx.Add(uint64(n)) }    XPutback putback n
       copyTwoWayEx / copyTwoWay ... teardown                               XRelay a

   So a stream carries the response of exactly one of three sites: the hook branch (ok, before the dial), the failure
   branch (only when not hooked), the success branch (only when not hooked).  `always` = the guard of the failure
   branch removed ("always tell the client why"): the variant proof/C06_Hook.v refutes.

   What the hook does with the stream (how many bytes it reads, what it returns as putback, whether it rewrites the
   address) is the environment's choice; the address does not influence any later step of the handler. *)
From Hy Require Import lib.Bytes model.C06_Relay.
From Coq Require Import List NArith ZArith Bool.
Import ListNotations.
Local Open Scope N_scope.

(* "RequestHook enabled" *)
Definition HookMsg : bytes :=
  [x52; x65; x71; x75; x65; x73; x74; x48; x6f; x6f; x6b; x20; x65; x6e; x61; x62; x6c; x65; x64].

Inductive hpc :=
| HReadReq
| HCheck
| HRespHook                          (* at WriteTCPResponse(stream, true, "RequestHook enabled") *)
| HHookTCP                           (* at RequestHook.TCP(stream, &reqAddr) *)
| HDial (hooked : bool) (pb : bytes)
| HRespOk
| HRespErr (msg : bytes)
| HPutback (pb : bytes)              (* at tConn.Write(putback), len(putback) > 0 *)
| HRelay (tx0 : N) (s : st)          (* inside the two-way copy / teardown; tx0 = what the putback added to stats.Tx *)
| HCloseOnly                         (* at stream.Close(); return *)
| HEnd.

Inductive hact :=
| XReadReq (ok : bool)
| XCheck (hooked : bool)
| XWriteResp (ok : bool) (msg : bytes)
| XHookTCP (r : option bytes)
| XDial (r : option bytes)
| XPutback (c : bytes) (nw : Z)
| XRelay (a : act)
| XCloseStream.

Definition after_dial_ok (m : mode) (pb : bytes) : hpc :=
  match pb with [] => HRelay 0 (relay_init m) | _ => HPutback pb end.

(* uint64(n) of an int *)
Definition u64z (z : Z) : N := Z.to_N (z mod 18446744073709551616).

Definition hstep (always : bool) (m : mode) (p : hpc) (a : hact) : option hpc :=
  match p, a with
  | HReadReq, XReadReq ok => Some (if ok then HCheck else HCloseOnly)
  | HCheck, XCheck hooked => Some (if hooked then HRespHook else HDial false [])
  | HRespHook, XWriteResp ok msg => if ok && beqb msg HookMsg then Some HHookTCP else None
  | HHookTCP, XHookTCP (Some pb) => Some (HDial true pb)
  | HHookTCP, XHookTCP None => Some HCloseOnly
  | HDial hooked pb, XDial None => Some (if hooked then after_dial_ok m pb else HRespOk)
  | HDial hooked pb, XDial (Some msg) => Some (if negb hooked || always then HRespErr msg else HCloseOnly)
  | HRespOk, XWriteResp ok msg => if ok && beqb msg Connected then Some (HRelay 0 (relay_init m)) else None
  | HRespErr m0, XWriteResp ok msg => if negb ok && beqb msg m0 then Some HCloseOnly else None
  | HPutback pb, XPutback c nw => if beqb c pb then Some (HRelay (u64z nw) (relay_init m)) else None
  | HRelay tx0 s, XRelay a => match step s a with Some s' => Some (HRelay tx0 s') | None => None end
  | HCloseOnly, XCloseStream => Some HEnd
  | _, _ => None
  end.

Fixpoint hexec (always : bool) (m : mode) (p : hpc) (tr : list hact) : option hpc :=
  match tr with
  | [] => Some p
  | a :: t => match hstep always m p a with Some p' => hexec always m p' t | None => None end
  end.

(* ---- what a run says *)
(* the response frames written on the stream, by any site *)
Definition hresps (tr : list hact) : list (bool * bytes) :=
  flat_map (fun a => match a with
                     | XWriteResp ok msg | XRelay (AWriteResp ok msg) => [(ok, msg)]
                     | _ => []
                     end) tr.
(* the actions of the copy / teardown phase *)
Definition relay_part (tr : list hact) : list act :=
  flat_map (fun a => match a with XRelay x => [x] | _ => [] end) tr.
(* bytes the server put on the stream, in order *)
Definition hstream_out (wr : bool -> bytes -> bytes) (tr : list hact) : bytes :=
  flat_map (fun a => match a with
                     | XWriteResp ok msg => wr ok msg
                     | XRelay x => stream_out wr [x]
                     | _ => []
                     end) tr.
(* bytes the target accepted, in order: the putback, then the Up sink *)
Definition htarget_in (tr : list hact) : bytes :=
  flat_map (fun a => match a with
                     | XPutback c nw => wrote c nw
                     | XRelay (ALoop Up (LWrite c nw _)) => wrote c nw
                     | _ => []
                     end) tr.
(* what the hook returned as putback *)
Definition hputback (tr : list hact) : bytes :=
  flat_map (fun a => match a with XHookTCP (Some pb) => pb | _ => [] end) tr.
(* stats.Tx at the end of a run that reached the relay *)
Definition hstats_tx (p : hpc) : option N :=
  match p with HRelay tx0 s => Some (u64 (tx0 + sTx s)) | _ => None end.

(* the two runs of a failed dial *)
Definition hooked_dial_error_run (pb msg : bytes) : list hact :=
  [XReadReq true; XCheck true; XWriteResp true HookMsg; XHookTCP (Some pb); XDial (Some msg); XCloseStream].
Definition plain_dial_error_run (msg : bytes) : list hact :=
  [XReadReq true; XCheck false; XDial (Some msg); XWriteResp false msg; XCloseStream].
(* ... and the run of the variant that always writes the failure response *)
Definition double_response_run (pb msg : bytes) : list hact :=
  [XReadReq true; XCheck true; XWriteResp true HookMsg; XHookTCP (Some pb); XDial (Some msg); XWriteResp false msg; XCloseStream].
