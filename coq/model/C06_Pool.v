(* C06 - several relays at once: the copy loops of all proxied connections of the server and the one thing
   they share, copyBufPool (core/server/copy.go:12-22).  Definitions only.

   model/C06_Relay.v describes one relay and carries the chunk a loop is forwarding inside its program
   counter (PLog c er, PWrite c er): "what is written is what was read" is built into that LTS.  In the code
   the chunk lives in memory, in the 32 KiB buffer the loop took from the pool:

       func copyBufferLog(dst, src, log) error {
         bufp := copyBufPool.Get()                    WGet i b    a buffer that is in the pool, or a new one
         buf := *bufp
         defer copyBufPool.Put(bufp)                  WPut i      runs when the loop returns, before errChan <- e
         for { nr, er := src.Read(buf)                WLoop i (LRead ..)   stores the chunk in the buffer
               ... log(nr) ...                        WLoop i (LLog ..)
               dst.Write(buf[0:nr]) ... }             WLoop i (LWrite c ..)  c = what the buffer holds NOW
       }

   So here every loop ("slot": any direction of any relay of any user, spawned at any time) owns a buffer
   identity, memory is a map from buffer identities to contents, a Read stores into the loop's buffer and a Write
   hands out the first nr bytes the buffer holds at that moment - whoever stored them.  The pool discipline is
   what makes the one-relay LTS a sound description of each loop: proof/C06_Pool.v shows that a buffer belongs to
   at most one loop that can still touch it, that therefore the projection of a world run on any slot is a run of
   the one-loop LTS `lstep` (so every per-loop theorem holds for it, with the other relays alive), and that it
   stops being true as soon as a buffer can go back to the pool while its loop is still running (`early`).

   The logger-less path (io.Copy) allocates a private buffer per call: a Fast slot always gets a new buffer and
   its Put does not feed the pool. *)
From Hy Require Import lib.Bytes model.C06_Relay gen.ParamsC06.
From Coq Require Import List NArith ZArith Bool.
Import ListNotations.
Local Open Scope N_scope.

Record slot := mkSlot {
  sm : mode; sd : dir;
  spc : pc;                 (* program counter of the loop, as in the one-relay LTS *)
  sbuf : option N;          (* the buffer it took (None: not yet at copyBufPool.Get) *)
  sput : bool               (* its deferred Put has run *)
}.

Record world := mkW {
  slots : list slot;
  wfree : list N;           (* buffers in the pool *)
  wfresh : N;               (* next identity pool.New / io.Copy's make hands out *)
  wmem : N -> bytes         (* contents of every buffer *)
}.

Inductive wact :=
| WSpawn (m : mode) (d : dir)       (* go func() { errChan <- copyBufferLog(...) }() of some relay *)
| WGet (i : nat) (b : N)
| WLoop (i : nat) (a : lact)
| WPut (i : nat).

Fixpoint upd {A} (i : nat) (x : A) (l : list A) : list A :=
  match l, i with
  | [], _ => []
  | _ :: t, O => x :: t
  | h :: t, S k => h :: upd k x t
  end.

Definition mupd (m : N -> bytes) (b : N) (v : bytes) : N -> bytes := fun x => if x =? b then v else m x.
(* Read(buf) returning len c bytes: buf[0:len c] = c, the rest of the buffer keeps what it held *)
Definition stored (old c : bytes) : bytes := c ++ skipn (length c) old.

Definition with_pc (s : slot) (p : pc) : slot := mkSlot (sm s) (sd s) p (sbuf s) (sput s).
Definition set_slot (w : world) (i : nat) (s : slot) : world := mkW (upd i s (slots w)) (wfree w) (wfresh w) (wmem w).
Definition is_pret (p : pc) : bool := match p with PRet _ => true | _ => false end.

(* early = false: the code as it is (the buffer goes back when its loop has decided to return).
   early = true: a buffer may go back to the pool at any moment although its loop keeps using it. *)
Definition wstep (early : bool) (w : world) (a : wact) : option world :=
  match a with
  | WSpawn m d => Some (mkW (slots w ++ [mkSlot m d PRead None false]) (wfree w) (wfresh w) (wmem w))
  | WGet i b =>
      match nth_error (slots w) i with
      | Some s =>
          match sbuf s with
          | Some _ => None
          | None =>
              let s' := mkSlot (sm s) (sd s) (spc s) (Some b) (sput s) in
              if b =? wfresh w then Some (mkW (upd i s' (slots w)) (wfree w) (wfresh w + 1) (wmem w))
              else match sm s with
                   | Logged => if existsb (N.eqb b) (wfree w)
                               then Some (mkW (upd i s' (slots w)) (remove N.eq_dec b (wfree w)) (wfresh w) (wmem w))
                               else None
                   | Fast => None
                   end
          end
      | None => None
      end
  | WLoop i x =>
      match nth_error (slots w) i with
      | Some s =>
          match sbuf s with
          | None => None
          | Some b =>
              match x with
              | LReturn _ =>
                  if sput s
                  then match lstep (sm s) (sd s) (spc s) x with
                       | Some p => Some (set_slot w i (with_pc s p))
                       | None => None
                       end
                  else None
              | LRead bl c er =>
                  if sput s && negb early then None
                  else match lstep (sm s) (sd s) (spc s) x with
                       | Some p => Some (mkW (upd i (with_pc s p) (slots w)) (wfree w) (wfresh w)
                                             (mupd (wmem w) b (stored (wmem w b) c)))
                       | None => None
                       end
              | LLog _ _ _ =>
                  if sput s && negb early then None
                  else match lstep (sm s) (sd s) (spc s) x with
                       | Some p => Some (set_slot w i (with_pc s p))
                       | None => None
                       end
              | LWrite c nw ew =>
                  if sput s && negb early then None
                  else match spc s with
                       | PWrite c0 er =>
                           (* the slice handed to Write is buf[0:nr]: what the memory holds now *)
                           if beqb c (firstn (length c0) (wmem w b))
                           then match lstep (sm s) (sd s) (PWrite c er) x with
                                | Some p => Some (set_slot w i (with_pc s p))
                                | None => None
                                end
                           else None
                       | _ => None
                       end
              end
          end
      | None => None
      end
  | WPut i =>
      match nth_error (slots w) i with
      | Some s =>
          match sbuf s with
          | Some b =>
              if negb (sput s) && (early || is_pret (spc s))
              then Some (mkW (upd i (mkSlot (sm s) (sd s) (spc s) (sbuf s) true) (slots w))
                             (match sm s with Logged => b :: wfree w | Fast => wfree w end)
                             (wfresh w) (wmem w))
              else None
          | None => None
          end
      | None => None
      end
  end.

Fixpoint wexec (early : bool) (w : world) (tr : list wact) : option world :=
  match tr with
  | [] => Some w
  | a :: t => match wstep early w a with Some w' => wexec early w' t | None => None end
  end.

(* a server that has not relayed anything yet: no loop, an empty pool *)
Definition w0 : world := mkW [] [] 0 (fun _ => []).

(* what loop i did, in order; its Writes carry the bytes the memory held when they were made *)
Definition wproj (i : nat) (tr : list wact) : list lact :=
  flat_map (fun a => match a with WLoop j x => if Nat.eqb i j then [x] else [] | _ => [] end) tr.

(* the buffer a loop may still touch *)
Definition live (s : slot) : option N := if sput s then None else sbuf s.
Definition running (p : pc) : bool := match p with PRead | PLog _ _ | PWrite _ _ => true | _ => false end.
