(* C06 - TCP relay: model of core/server/copy.go (copyBufferLog, copyTwoWayEx, copyTwoWay = io.Copy)
   and of the part of core/server/server.go handleTCPRequest a connection goes through when no request
   hook intercepts it (read request, dial, response, two-way copy, teardown), as a labelled transition
   system over the atomic boundary actions, plus the client side of core/client/client.go
   (TCP(), tcpConn.Read with the lazily read response of fast open).  Definitions only.

   One copy loop (copy.go:19-44, and the generic loop of io.Copy for the logger-less path):

       for {
         nr, er := src.Read(buf)                      LRead  len(buf) chunk er
         if nr > 0 {
           if !log(uint64(nr)) { return errDisconnect }     LLog tx rx verdict      (Logged mode only)
           _, ew := dst.Write(buf[0:nr])              LWrite chunk nw ew
           if ew != nil { return ew }                 (io.Copy also: nw out of range, nw <> nr)
         }
         if er != nil { if er == io.EOF { return nil }; return er }
       }                                              LReturn e   (the send on errChan)

   The parent (server.go:271-343): AReadReq, ADial, AWriteResp, then both loops run, AFirstReturn e
   (<-errChan), ACloseTarget, ACloseStream, ACloseConn iff e == errDisconnect.
   Every interleaving of the two loops and the parent is a run; what Read/Write/LogTraffic return is
   chosen by the environment (any chunking, any error, any verdict, at any point). *)
From Hy Require Import lib.Bytes gen.ParamsC06.
From Coq Require Import List NArith ZArith Bool.
Import ListNotations.
Local Open Scope N_scope.

Definition bytes := list byte.
Definition blen (c : bytes) : N := N.of_nat (length c).

Inductive dir := Up     (* client stream -> target *)
               | Down.  (* target -> client stream *)
Inductive mode := Logged   (* copyTwoWayEx: a TrafficLogger is configured *)
                | Fast.    (* copyTwoWay: io.Copy, no logger, no stats *)

(* error value returned by a reader / writer of the environment: nil, io.EOF, anything else *)
Inductive eerr := EN | EEOF | EE (code : N).
(* value a copy loop returns *)
Inductive gerr := GEnv (e : eerr) | GDisconnect | GShortWrite | GInvalidWrite.
Definition GNil := GEnv EN.

Definition eerr_eqb (a b : eerr) : bool :=
  match a, b with EN, EN | EEOF, EEOF => true | EE x, EE y => x =? y | _, _ => false end.
Definition gerr_eqb (a b : gerr) : bool :=
  match a, b with
  | GEnv x, GEnv y => eerr_eqb x y
  | GDisconnect, GDisconnect | GShortWrite, GShortWrite | GInvalidWrite, GInvalidWrite => true
  | _, _ => false
  end.
Definition dir_eqb (a b : dir) : bool := match a, b with Up, Up | Down, Down => true | _, _ => false end.

Fixpoint beqb (a b : bytes) : bool :=
  match a, b with
  | [], [] => true
  | x :: a', y :: b' => Byte.eqb x y && beqb a' b'
  | _, _ => false
  end.

(* program counter of one copy loop *)
Inductive pc :=
| PIdle                              (* goroutine not started *)
| PRead                              (* at src.Read(buf) *)
| PLog (c : bytes) (er : eerr)       (* Read returned (len c > 0, er): at log(nr) *)
| PWrite (c : bytes) (er : eerr)     (* approved: at dst.Write(buf[0:nr]) *)
| PRet (e : gerr)                    (* at errChan <- e *)
| PDone (e : gerr)                   (* sent; goroutine finished *)
| PPanic.                            (* buf[0:nr] with nr > len(buf): slice bounds panic *)

(* actions of one loop *)
Inductive lact :=
| LRead (bl : N) (c : bytes) (er : eerr)   (* Read(buf) with len(buf)=bl returned (len c, er), buf[0:len c] = c *)
| LLog (tx rx : N) (v : bool)              (* LogTraffic(id, tx, rx) returned v *)
| LWrite (c : bytes) (nw : Z) (ew : eerr)  (* Write(c) returned (nw, ew) *)
| LReturn (e : gerr).                      (* errChan <- e *)

(* after the chunk is dealt with: the `if er != nil` tail of the loop body *)
Definition after_rw (er : eerr) : pc :=
  match er with EN => PRead | EEOF => PRet GNil | EE c => PRet (GEnv (EE c)) end.

(* arguments the closures of copyTwoWayEx hand to LogTraffic: Up = (n, 0) and stats.Tx; Down = (0, n) and stats.Rx *)
Definition log_args (d : dir) (n : N) : N * N := match d with Up => (n, 0) | Down => (0, n) end.

Definition lstep (m : mode) (d : dir) (p : pc) (a : lact) : option pc :=
  match p, a with
  | PRead, LRead bl c er =>
      if bl =? CopyBufSize then
        if bl <? blen c then Some PPanic
        else match c with
             | [] => Some (after_rw er)
             | _ => Some (match m with Logged => PLog c er | Fast => PWrite c er end)
             end
      else None
  | PLog c er, LLog tx rx v =>
      let '(etx, erx) := log_args d (blen c) in
      if (tx =? etx) && (rx =? erx) then Some (if v then PWrite c er else PRet GDisconnect) else None
  | PWrite c0 er, LWrite c nw ew =>
      if beqb c c0 then
        match m with
        | Logged =>   (* `_, ew := dst.Write(...)`: the count is ignored *)
            Some (match ew with EN => after_rw er | _ => PRet (GEnv ew) end)
        | Fast =>     (* io.Copy: nw < 0 || nr < nw => nw = 0, errInvalidWrite if ew == nil; ew != nil => ew; nr != nw => ErrShortWrite *)
            let nr := Z.of_N (blen c0) in
            let bad := ((nw <? 0) || (nr <? nw))%Z in
            let nw' := if bad then 0%Z else nw in
            Some (match ew with
                  | EN => if bad then PRet GInvalidWrite
                          else if (nr =? nw')%Z then after_rw er else PRet GShortWrite
                  | _ => PRet (GEnv ew)
                  end)
        end
      else None
  | PRet e0, LReturn e => if gerr_eqb e e0 then Some (PDone e0) else None
  | _, _ => None
  end.

Fixpoint lexec (m : mode) (d : dir) (p : pc) (l : list lact) : option pc :=
  match l with
  | [] => Some p
  | a :: t => match lstep m d p a with Some p' => lexec m d p' t | None => None end
  end.

(* ---- the parent goroutine, handleTCPRequest *)
Inductive ppc :=
| QReadReq                 (* protocol.ReadTCPRequest(stream) *)
| QDial                    (* Outbound.TCP(reqAddr)   (hook nil or Check = false) *)
| QRespOk                  (* WriteTCPResponse(stream, true, "Connected") *)
| QRespErr (msg : bytes)   (* WriteTCPResponse(stream, false, err.Error()) *)
| QCloseOnly               (* stream.Close(); return *)
| QWait                    (* <-errChan *)
| QCloseT (e : gerr)       (* tConn.Close() *)
| QCloseS (e : gerr)       (* stream.Close() *)
| QCloseC                  (* h.conn.CloseWithError(closeErrCodeTrafficLimitReached, "") *)
| QDone.

Inductive act :=
| AReadReq (ok : bool)
| ADial (r : option bytes)            (* None: connected; Some msg: error whose Error() is msg *)
| AWriteResp (ok : bool) (msg : bytes)
| ALoop (d : dir) (a : lact)
| AFirstReturn (e : gerr)
| ACloseTarget
| ACloseStream
| ACloseConn.

Definition Connected : bytes := [x43; x6f; x6e; x6e; x65; x63; x74; x65; x64].

Record st := mkSt { md : mode; par : ppc; pU : pc; pD : pc; chan : list gerr; sTx : N; sRx : N }.

Definition pcof (s : st) (d : dir) : pc := match d with Up => pU s | Down => pD s end.
Definition setpc (s : st) (d : dir) (p : pc) : st :=
  match d with
  | Up => mkSt (md s) (par s) p (pD s) (chan s) (sTx s) (sRx s)
  | Down => mkSt (md s) (par s) (pU s) p (chan s) (sTx s) (sRx s)
  end.
Definition setpar (s : st) (q : ppc) : st := mkSt (md s) q (pU s) (pD s) (chan s) (sTx s) (sRx s).

Definition u64 (x : N) : N := x mod 18446744073709551616.

(* side effects of a loop action outside its own program counter: stats counters (atomic.Uint64.Add,
   executed before LogTraffic is called, so a vetoed chunk is counted in the stats), the channel send *)
Definition effect (s : st) (a : lact) : st :=
  match a with
  | LLog tx rx _ => mkSt (md s) (par s) (pU s) (pD s) (chan s) (u64 (sTx s + tx)) (u64 (sRx s + rx))
  | LReturn e => mkSt (md s) (par s) (pU s) (pD s) (chan s ++ [e]) (sTx s) (sRx s)
  | _ => s
  end.

Definition step (s : st) (a : act) : option st :=
  match a with
  | AReadReq ok =>
      match par s with QReadReq => Some (setpar s (if ok then QDial else QCloseOnly)) | _ => None end
  | ADial r =>
      match par s with
      | QDial => Some (setpar s (match r with None => QRespOk | Some m => QRespErr m end))
      | _ => None
      end
  | AWriteResp ok msg =>
      match par s with
      | QRespOk => if ok && beqb msg Connected
                   then Some (mkSt (md s) QWait PRead PRead (chan s) (sTx s) (sRx s))   (* both `go func()` *)
                   else None
      | QRespErr m => if negb ok && beqb msg m then Some (setpar s QCloseOnly) else None
      | _ => None
      end
  | ALoop d a =>
      match lstep (md s) d (pcof s d) a with
      | Some p' => Some (setpc (effect s a) d p')
      | None => None
      end
  | AFirstReturn e =>
      match par s, chan s with
      | QWait, e0 :: rest => if gerr_eqb e e0
                             then Some (mkSt (md s) (QCloseT e0) (pU s) (pD s) rest (sTx s) (sRx s))
                             else None
      | _, _ => None
      end
  | ACloseTarget => match par s with QCloseT e => Some (setpar s (QCloseS e)) | _ => None end
  | ACloseStream =>
      match par s with
      | QCloseS e => Some (setpar s (match e with GDisconnect => QCloseC | _ => QDone end))
      | QCloseOnly => Some (setpar s QDone)
      | _ => None
      end
  | ACloseConn => match par s with QCloseC => Some (setpar s QDone) | _ => None end
  end.

Fixpoint exec (s : st) (tr : list act) : option st :=
  match tr with
  | [] => Some s
  | a :: t => match step s a with Some s' => exec s' t | None => None end
  end.

Definition init (m : mode) : st := mkSt m QReadReq PIdle PIdle [] 0 0.
(* the state in which copyTwoWayEx / copyTwoWay is entered *)
Definition relay_init (m : mode) : st := mkSt m QWait PRead PRead [] 0 0.

(* ---- what a trace says: bytes a source produced, bytes a sink accepted, totals the logger approved *)
Definition wrote (c : bytes) (nw : Z) : bytes := firstn (Z.to_nat nw) c.

Definition lsrc (l : list lact) : bytes :=
  flat_map (fun a => match a with LRead _ c _ => c | _ => [] end) l.
Definition lsnk (l : list lact) : bytes :=
  flat_map (fun a => match a with LWrite c nw _ => wrote c nw | _ => [] end) l.
Fixpoint llogged (l : list lact) : N :=
  match l with
  | [] => 0
  | LLog tx rx true :: t => tx + rx + llogged t
  | _ :: t => llogged t
  end.
(* approved but not (or not completely) written: set by an approving Log, reduced by the Write *)
Fixpoint inflight_from (x : N) (l : list lact) : N :=
  match l with
  | [] => x
  | LLog tx rx true :: t => inflight_from (tx + rx) t
  | LWrite c nw _ :: t => inflight_from (blen c - blen (wrote c nw)) t
  | _ :: t => inflight_from x t
  end.
Definition inflight (l : list lact) : N := inflight_from 0 l.

Definition proj (d : dir) (tr : list act) : list lact :=
  flat_map (fun a => match a with ALoop d' x => if dir_eqb d d' then [x] else [] | _ => [] end) tr.

Definition srcb d tr := lsrc (proj d tr).
Definition snkb d tr := lsnk (proj d tr).
Definition logged d tr := llogged (proj d tr).

(* io.Writer contract: 0 <= n <= len(p), and n < len(p) only together with a non-nil error *)
Definition wok_act (a : lact) : Prop :=
  match a with
  | LWrite c nw ew => (0 <= nw <= Z.of_N (blen c))%Z /\ ((nw < Z.of_N (blen c))%Z -> ew <> EN)
  | _ => True
  end.
Definition wok (l : list lact) : Prop := Forall wok_act l.
Definition wok_tr (tr : list act) : Prop := forall d, wok (proj d tr).

(* values sent on errChan, in order; values the parent received from it *)
Definition rets (tr : list act) : list gerr :=
  flat_map (fun a => match a with ALoop _ (LReturn e) => [e] | _ => [] end) tr.
Definition recv (tr : list act) : list gerr :=
  flat_map (fun a => match a with AFirstReturn e => [e] | _ => [] end) tr.

(* nothing gets in the way of the loop: no veto, no Write that reports an error *)
Definition quiet_act (a : lact) : Prop :=
  match a with LLog _ _ false => False | LWrite _ _ ew => ew = EN | _ => True end.

Definition is_veto (a : lact) : bool := match a with LLog _ _ false => true | _ => false end.
Definition is_return (a : act) : bool := match a with ALoop _ (LReturn _) => true | _ => false end.

(* ---- client side (client.go:193-231, 271-284) over an abstract TCPResponse codec.
   `incoming` is everything the server wrote to the stream; ReadTCPResponse consumes a frame off its front. *)
Section Client.
  Variable read_resp : bytes -> option (bool * bytes * bytes).    (* (ok, msg, rest of the stream); None: I/O or protocol error *)

  Inductive cerr := CDialError (msg : bytes) | CReadError.
  Record tconn := mkConn { established : bool; pending : bytes }.

  (* Client.TCP after the request was written *)
  Definition client_tcp (fastopen : bool) (incoming : bytes) : cerr + tconn :=
    if fastopen then inr (mkConn false incoming)
    else match read_resp incoming with
         | None => inl CReadError
         | Some (ok, msg, rest) => if ok then inr (mkConn true rest) else inl (CDialError msg)
         end.

  (* tcpConn.Read until the stream is exhausted: either an error, or all payload bytes in order *)
  Definition conn_read_all (c : tconn) : cerr + bytes :=
    if established c then inr (pending c)
    else match read_resp (pending c) with
         | None => inl CReadError
         | Some (ok, msg, rest) => if ok then inr rest else inl (CDialError msg)
         end.

  (* what the application gets: error from TCP(), else what Read delivers *)
  Definition client_view (fastopen : bool) (incoming : bytes) : cerr + bytes :=
    match client_tcp fastopen incoming with inl e => inl e | inr c => conn_read_all c end.
End Client.

(* bytes the server put on the stream, in order: the response frame, then the Down sink *)
Section StreamOut.
  Variable write_resp : bool -> bytes -> bytes.
  Definition stream_out (tr : list act) : bytes :=
    flat_map (fun a => match a with
                       | AWriteResp ok msg => write_resp ok msg
                       | ALoop Down (LWrite c nw _) => wrote c nw
                       | _ => []
                       end) tr.
End StreamOut.
