(* C06 - the request in front of the client stream (server.go:246 and 276, client.go:193-216).
   Definitions only.

   The client writes the request frame on a fresh stream and - with fast open without waiting for the
   response - its payload right behind it; the server takes the request off the front of the same
   stream (quicvarint.Read of the frame type, protocol.ReadTCPRequest) and hands the stream to the Up
   copy loop.  So what the Up loop can ever read is what the request phase left on the stream.
   The request codec is abstract here (a Section variable, as the response codec of the client view):
   `read_req all` = (address, what is left unread) when everything in `all` has already arrived, which
   is the worst case for a parser that reads ahead.  That the real ReadTCPRequest leaves exactly the
   bytes behind the frame is property C04 (reader consumed exactly the frame); it is a hypothesis of
   the theorems of proof/C06_Request.v and observed on every run by the "req" cases of the harness. *)
From Hy Require Import lib.Bytes model.C06_Relay.
From Coq Require Import List NArith.
Import ListNotations.
Local Open Scope N_scope.

Section Request.
  Variable read_req : bytes -> option (bytes * bytes).   (* None: I/O or protocol error, the stream is closed *)

  (* what the client put on the stream *)
  Definition client_stream (write_req : bytes -> bytes) (addr payload : bytes) : bytes := write_req addr ++ payload.

  (* the source of the Up direction: the bytes the request phase left on the stream *)
  Definition up_input (stream : bytes) : option bytes :=
    match read_req stream with Some (_, rest) => Some rest | None => None end.

  (* a run serves this stream: its Up loop read consecutive bytes from the front of what the request
     phase left (a QUIC stream delivers its bytes in order, once); nothing at all when the request failed *)
  Definition serves (stream : bytes) (tr : list act) : Prop :=
    match up_input stream with
    | Some rest => exists later, rest = srcb Up tr ++ later
    | None => srcb Up tr = []
    end.

  (* ... and read it to its end *)
  Definition serves_all (stream : bytes) (tr : list act) : Prop := up_input stream = Some (srcb Up tr).
End Request.

(* a request parser that reports the right address but reads ahead: it leaves nothing of what had
   already arrived behind the frame (bufio.Reader with everything already in the stream buffer) *)
Definition greedy_read_req (frame_len : nat) (all : bytes) : option (bytes * bytes) :=
  Some (firstn frame_len all, []).
