(* C06 - the relay of a connection whose request hook is the sniffer (extras/sniff Sniffer.TCP), end to end.
   Definitions only.

   model/C06_Hook.v models handleTCPRequest with the hook branch and leaves what the hook does to the environment
   ("how many bytes it reads, what it returns as putback"); model/C17_Sniff.v models Sniffer.TCP over a scripted
   stream (sniff_tcp: chunking, EOF / reset / a fired read deadline at any position).  Here the two are put together:
   the client's stream behind the request frame is a script s; the hook of the run is the sniffer run on s; the Up
   loop of the relay then reads what the sniffer left unread.

       putback, err = h.config.RequestHook.TCP(stream, &reqAddr)     XHookTCP r,  r = what sniff_tcp returns on s
       ...
       n, _ := tConn.Write(putback)                                   XPutback putback n
       copyTwoWayEx / copyTwoWay                                      the Up loop reads a prefix of c17_unread (o_rest o)

   `short k` is a sniffer whose early return hands back k bytes fewer than it took off the stream (the slice bound of
   an early return computed from the wrong base): the variant proof/C06_Sniffed.v refutes. *)
From Hy Require Import lib.Bytes lib.Res gen.ParamsC06 model.C06_Relay model.C06_Hook model.C17_Sniff.
From Coq Require Import List NArith ZArith Bool.
Import ListNotations.
Local Open Scope N_scope.

(* what the hook of a run over the script s returns: the sniffer's putback, or an error (the server closes the stream) *)
Definition hook_result (o : tcp_out) : option bytes := if o_err o then None else Some (o_replay o).

(* the run tr is a run of handleTCPRequest whose hook was the sniffer on the client's stream s (as far as the run got):
   if it called the hook, the hook returned what sniff_tcp returns on s, and the bytes its Up loop read are the head of
   what the sniffer left unread; if the request was not hooked, the Up loop reads the head of s itself *)
Definition sniffed_over (o : tcp_out) (s : c17_script) (tr : list hact) : Prop :=
  (forall r, In (XHookTCP r) tr -> r = hook_result o) /\
  exists later,
    srcb Up (relay_part tr) ++ later =
      (if existsb (fun a => match a with XHookTCP _ => true | _ => false end) tr then c17_unread (o_rest o) else c17_unread s).

(* the target accepted the whole putback (handleTCPRequest ignores both results of that Write) *)
Definition putback_accepted (tr : list hact) : Prop :=
  forall c nw, In (XPutback c nw) tr -> (Z.of_N (blen c) <= nw)%Z.

(* ---- the variant: an early return that hands back k bytes fewer than were consumed *)
Definition short_replay (k : nat) (l : bytes) : bytes := firstn (length l - k) l.
Definition short_out (k : nat) (o : tcp_out) : tcp_out := TcpOut (short_replay k (o_replay o)) (o_err o) (o_addr o) (o_rest o).

(* ---- a concrete sniffed run: a TLS record header announcing 300 bytes, 2 of which have arrived when the deadline fires;
   the rest of the record arrives afterwards and is relayed *)
Definition sx_head : bytes := [x16; x03; x01; x01; x2c; x41; x42].
Definition sx_late : bytes := [x43; x44; x45].
Definition sx_script : c17_script := [Ev [x16; x03; x01] None; Ev [x01; x2c; x41; x42] (Some STimeout); Ev sx_late None].
Definition sx_addr : bytes := [x39; x2e; x39; x2e; x39; x2e; x39; x3a; x34; x34; x33].        (* 9.9.9.9:443 *)
Definition sx_consumer : c17_consumer := fun _ => CStop None.
Definition sx_sni : list byte -> option (list byte) := fun _ => None.

Definition sx_run (pb : bytes) : list hact :=
  [XReadReq true; XCheck true; XWriteResp true HookMsg; XHookTCP (Some pb); XDial None; XPutback pb (Z.of_nat (length pb))] ++
  map XRelay [ALoop Up (LRead CopyBufSize sx_late EN); ALoop Up (LLog 3 0 true); ALoop Up (LWrite sx_late 3 EN);
              ALoop Up (LRead CopyBufSize [] EEOF); ALoop Up (LReturn GNil); AFirstReturn GNil; ACloseTarget; ACloseStream].
