(* C07 model, creation / sweep interleavings and the m.mutex discipline (core/server/udp.go).  Definitions only.

   model/C07_UDPSessions.v takes "newUDPSessionEntry + table insert" as ONE action and never looks at m.mutex.
   This file refines exactly that part, at the granularity the code has:

   Module Birth - the life of ONE entry, from the datagram that creates it.  feed() is split where the code
     releases m.mutex: lookup under RLock | newUDPSessionEntry (Last := time.Now(), udp.go:60) | insert under
     Lock (udp.go:344-346) | entry.Feed's first statement e.Last.Set(time.Now()) (udp.go:97) | initConn.
     A sweeper (cleanup(true): scan under RLock, then CloseWithErr in three parts), the entry's reply loop, the
     final cleanup(false) and the clock move between any two of them.  The ghost field b_born remembers the clock
     at creation.  [stamp_at_birth] = true is the code; false is the neighbouring design "Last is stamped by Feed,
     which always follows creation" (kept to show that the theorems really depend on udp.go:60).
     Datagrams handed out after the entry left the table belong to another entry's life (covered by the LTS of
     C07_UDPSessions.v) and are not followed here.

   Module Locks - m.mutex (sync.RWMutex) with Go's semantics (a writer that has called Lock blocks every later
     RLock until it has unlocked; it acquires when the active readers have drained), threads given by the sequence
     of lock operations of the functions of udp.go.  The discipline [flat]: a thread never asks for m.mutex while it
     holds it (in particular a reader never re-acquires the read lock). *)
From Coq Require Import NArith List Bool MSets.MSetPositive.
Import ListNotations.
Local Open Scope N_scope.

Module Birth.

Inductive brl :=
| BWait0            (* in ReceiveMessage; the id has no entry yet *)
| BGot (c : bool)   (* a datagram of the id was handed out (c: complete); before feed's lookup under RLock *)
| BNew (c : bool)   (* lookup missed; before newUDPSessionEntry *)
| BCreated (c : bool) (* entry allocated; before Lock; m.m[id] = entry; Unlock *)
| BFeed (c : bool)  (* before entry.Feed, i.e. before e.Last.Set(time.Now()) *)
| BInit             (* before initConn's critical section *)
| BWrite            (* before conn.WriteTo *)
| BC1 | BC2 | BC3   (* CloseWithErr after a failed hook / dial: part 1 / logger.Close / table delete *)
| BIdle             (* in ReceiveMessage; the id has (had) its entry *)
| BSnap             (* ReceiveMessage failed: before cleanup(false)'s snapshot *)
| BF1 | BF2 | BF3   (* cleanup(false) on the entry: part 1 / logger.Close / table delete *)
| BStop             (* before close(stopCh) *)
| BDone.

Inductive bsw := SIdle | SC1 | SC2 | SC3 | SDone.
Inductive brp := QNone | QRead | QStamp | QSend | QC1 | QC2 | QC3 | QDone.

Record bst := mkB {
  b_now : N;             (* clock *)
  b_born : option N;     (* ghost: the clock when newUDPSessionEntry ran *)
  b_last : N;            (* entry.Last *)
  b_vis : bool;          (* m.m[id] == entry *)
  b_closed : bool;       (* entry.closed *)
  b_sock : bool;         (* entry.conn != nil *)
  b_rl : brl; b_sw : bsw; b_rp : brp;
  b_lost : bool;         (* ReceiveMessage has returned its error *)
  b_stopped : bool;      (* stopCh closed *)
  b_more : nat;          (* further datagrams of the id the client still sends (bounds the exploration only) *)
  (* what the boundary saw *)
  o_hook : bool; o_new : bool; o_dial : bool; o_dialok : bool; o_write : bool;
  o_nil_early : bool;    (* logger.Close(id, nil) before the connection was lost *)
  o_nil_late : bool;     (* ... after *)
  o_err : bool;          (* logger.Close(id, err) *)
  o_closes : N }.        (* Close events *)

Inductive bact :=
| ARecv (c : bool) | ALoss
| ALookup | ACreate | AInsert | AStampF | AInitClosed | AHookFail | ADialFail | ADialOk | AWriteF
| ARlC1 | ARlC2 | ARlC3
| ASnap | AF1 | AF2 | AF3 | AStopCh
| AScan | ASwC1 | ASwC2 | ASwC3 | ASwStop
| ARdOk | ARdErr | ARpStamp | ARpSend (ok : bool) | ARpC1 | ARpC2 | ARpC3
| AAdv (d : N).

(* t0: the clock when the connection starts (time.Time's zero is long before: Last = 0 is "year 1") *)
Definition binit (t0 : N) (more : nat) : bst :=
  mkB t0 None 0 false false false BWait0 SIdle QNone false false more false false false false false false false false 0.

Definition set_rl (s : bst) (p : brl) : bst :=
  mkB (b_now s) (b_born s) (b_last s) (b_vis s) (b_closed s) (b_sock s) p (b_sw s) (b_rp s) (b_lost s) (b_stopped s) (b_more s)
      (o_hook s) (o_new s) (o_dial s) (o_dialok s) (o_write s) (o_nil_early s) (o_nil_late s) (o_err s) (o_closes s).
Definition set_sw (s : bst) (p : bsw) : bst :=
  mkB (b_now s) (b_born s) (b_last s) (b_vis s) (b_closed s) (b_sock s) (b_rl s) p (b_rp s) (b_lost s) (b_stopped s) (b_more s)
      (o_hook s) (o_new s) (o_dial s) (o_dialok s) (o_write s) (o_nil_early s) (o_nil_late s) (o_err s) (o_closes s).
Definition set_rp (s : bst) (p : brp) : bst :=
  mkB (b_now s) (b_born s) (b_last s) (b_vis s) (b_closed s) (b_sock s) (b_rl s) (b_sw s) p (b_lost s) (b_stopped s) (b_more s)
      (o_hook s) (o_new s) (o_dial s) (o_dialok s) (o_write s) (o_nil_early s) (o_nil_late s) (o_err s) (o_closes s).
Definition set_now (s : bst) (t : N) : bst :=
  mkB t (b_born s) (b_last s) (b_vis s) (b_closed s) (b_sock s) (b_rl s) (b_sw s) (b_rp s) (b_lost s) (b_stopped s) (b_more s)
      (o_hook s) (o_new s) (o_dial s) (o_dialok s) (o_write s) (o_nil_early s) (o_nil_late s) (o_err s) (o_closes s).
Definition set_last (s : bst) (t : N) : bst :=
  mkB (b_now s) (b_born s) t (b_vis s) (b_closed s) (b_sock s) (b_rl s) (b_sw s) (b_rp s) (b_lost s) (b_stopped s) (b_more s)
      (o_hook s) (o_new s) (o_dial s) (o_dialok s) (o_write s) (o_nil_early s) (o_nil_late s) (o_err s) (o_closes s).
Definition set_born (s : bst) (t : N) : bst :=
  mkB (b_now s) (Some t) (b_last s) (b_vis s) (b_closed s) (b_sock s) (b_rl s) (b_sw s) (b_rp s) (b_lost s) (b_stopped s) (b_more s)
      (o_hook s) (o_new s) (o_dial s) (o_dialok s) (o_write s) (o_nil_early s) (o_nil_late s) (o_err s) (o_closes s).
Definition set_vis (s : bst) (v : bool) : bst :=
  mkB (b_now s) (b_born s) (b_last s) v (b_closed s) (b_sock s) (b_rl s) (b_sw s) (b_rp s) (b_lost s) (b_stopped s) (b_more s)
      (o_hook s) (o_new s) (o_dial s) (o_dialok s) (o_write s) (o_nil_early s) (o_nil_late s) (o_err s) (o_closes s).
Definition set_closed (s : bst) : bst :=
  mkB (b_now s) (b_born s) (b_last s) (b_vis s) true (b_sock s) (b_rl s) (b_sw s) (b_rp s) (b_lost s) (b_stopped s) (b_more s)
      (o_hook s) (o_new s) (o_dial s) (o_dialok s) (o_write s) (o_nil_early s) (o_nil_late s) (o_err s) (o_closes s).
Definition set_sock (s : bst) : bst :=
  mkB (b_now s) (b_born s) (b_last s) (b_vis s) (b_closed s) true (b_rl s) (b_sw s) (b_rp s) (b_lost s) (b_stopped s) (b_more s)
      (o_hook s) (o_new s) (o_dial s) (o_dialok s) (o_write s) (o_nil_early s) (o_nil_late s) (o_err s) (o_closes s).
Definition set_lost (s : bst) : bst :=
  mkB (b_now s) (b_born s) (b_last s) (b_vis s) (b_closed s) (b_sock s) (b_rl s) (b_sw s) (b_rp s) true (b_stopped s) (b_more s)
      (o_hook s) (o_new s) (o_dial s) (o_dialok s) (o_write s) (o_nil_early s) (o_nil_late s) (o_err s) (o_closes s).
Definition set_stopped (s : bst) : bst :=
  mkB (b_now s) (b_born s) (b_last s) (b_vis s) (b_closed s) (b_sock s) (b_rl s) (b_sw s) (b_rp s) (b_lost s) true (b_more s)
      (o_hook s) (o_new s) (o_dial s) (o_dialok s) (o_write s) (o_nil_early s) (o_nil_late s) (o_err s) (o_closes s).
Definition set_more (s : bst) (k : nat) : bst :=
  mkB (b_now s) (b_born s) (b_last s) (b_vis s) (b_closed s) (b_sock s) (b_rl s) (b_sw s) (b_rp s) (b_lost s) (b_stopped s) k
      (o_hook s) (o_new s) (o_dial s) (o_dialok s) (o_write s) (o_nil_early s) (o_nil_late s) (o_err s) (o_closes s).
(* the calls DialFunc makes: Hook, logger.New, io.UDP and its result *)
Definition obs_dial (s : bst) (nw dl ok : bool) : bst :=
  mkB (b_now s) (b_born s) (b_last s) (b_vis s) (b_closed s) (b_sock s) (b_rl s) (b_sw s) (b_rp s) (b_lost s) (b_stopped s) (b_more s)
      true (o_new s || nw) (o_dial s || dl) (o_dialok s || ok) (o_write s) (o_nil_early s) (o_nil_late s) (o_err s) (o_closes s).
Definition obs_write (s : bst) : bst :=
  mkB (b_now s) (b_born s) (b_last s) (b_vis s) (b_closed s) (b_sock s) (b_rl s) (b_sw s) (b_rp s) (b_lost s) (b_stopped s) (b_more s)
      (o_hook s) (o_new s) (o_dial s) (o_dialok s) true (o_nil_early s) (o_nil_late s) (o_err s) (o_closes s).
(* logger.Close(id, nil): early iff the connection has not been lost yet *)
Definition obs_nil (s : bst) : bst :=
  mkB (b_now s) (b_born s) (b_last s) (b_vis s) (b_closed s) (b_sock s) (b_rl s) (b_sw s) (b_rp s) (b_lost s) (b_stopped s) (b_more s)
      (o_hook s) (o_new s) (o_dial s) (o_dialok s) (o_write s)
      (o_nil_early s || negb (b_lost s)) (o_nil_late s || b_lost s) (o_err s) (o_closes s + 1).
Definition obs_err (s : bst) : bst :=
  mkB (b_now s) (b_born s) (b_last s) (b_vis s) (b_closed s) (b_sock s) (b_rl s) (b_sw s) (b_rp s) (b_lost s) (b_stopped s) (b_more s)
      (o_hook s) (o_new s) (o_dial s) (o_dialok s) (o_write s) (o_nil_early s) (o_nil_late s) true (o_closes s + 1).

Section Step.
Variable timeout : N.          (* idleTimeout *)
Variable stamp_at_birth : bool. (* udp.go:60: Last: utils.NewAtomicTime(time.Now())  = true *)

(* now.Sub(entry.Last.Get()) > m.idleTimeout *)
Definition idle (s : bst) : bool := timeout <? b_now s - b_last s.

Definition bstep (s : bst) (a : bact) : option bst :=
  match a with
  (* ---------------- receive loop ---------------- *)
  | ARecv c =>
      match b_rl s with
      | BWait0 => Some (set_rl s (BGot c))
      | BIdle => if b_vis s then match b_more s with S k => Some (set_more (set_rl s (BGot c)) k) | O => None end else None
      | _ => None
      end
  | ALoss => match b_rl s with BWait0 | BIdle => Some (set_lost (set_rl s BSnap)) | _ => None end
  | ALookup =>      (* udp.go:312-314 *)
      match b_rl s with
      | BGot c => Some (set_rl s (if b_vis s then BFeed c else match b_born s with None => BNew c | Some _ => BIdle end))
      | _ => None
      end
  | ACreate =>      (* udp.go:341, 57-65 *)
      match b_rl s with
      | BNew c => Some (set_rl (set_last (set_born s (b_now s)) (if stamp_at_birth then b_now s else 0)) (BCreated c))
      | _ => None
      end
  | AInsert =>      (* udp.go:344-346 *)
      match b_rl s with BCreated c => Some (set_rl (set_vis s true) (BFeed c)) | _ => None end
  | AStampF =>      (* udp.go:97-103 *)
      match b_rl s with
      | BFeed c => Some (set_rl (set_last s (b_now s)) (if c then (if b_sock s then BWrite else BInit) else BIdle))
      | _ => None
      end
  | AInitClosed =>  (* udp.go:151-154: "session is closed", the datagram is dropped *)
      match b_rl s with BInit => if b_closed s then Some (set_rl s BIdle) else None | _ => None end
  | AHookFail =>
      match b_rl s with BInit => if b_closed s then None else Some (set_rl (obs_dial s false false false) BC1) | _ => None end
  | ADialFail =>
      match b_rl s with BInit => if b_closed s then None else Some (set_rl (obs_dial s true true false) BC1) | _ => None end
  | ADialOk =>      (* udp.go:156-175: socket installed, reply loop spawned, all under connLock *)
      match b_rl s with
      | BInit => if b_closed s then None else Some (set_rl (set_rp (set_sock (obs_dial s true true true)) QRead) BWrite)
      | _ => None
      end
  | AWriteF =>      (* udp.go:122: a closed socket returns an error *)
      match b_rl s with BWrite => Some (set_rl (if b_closed s then s else obs_write s) BIdle) | _ => None end
  | ARlC1 => match b_rl s with BC1 => Some (if b_closed s then set_rl s BIdle else set_rl (set_closed s) BC2) | _ => None end
  | ARlC2 => match b_rl s with BC2 => Some (set_rl (obs_err s) BC3) | _ => None end
  | ARlC3 => match b_rl s with BC3 => Some (set_rl (set_vis s false) BIdle) | _ => None end
  (* ---------------- final cleanup ---------------- *)
  | ASnap => match b_rl s with BSnap => Some (set_rl s (if b_vis s then BF1 else BStop)) | _ => None end
  | AF1 => match b_rl s with BF1 => Some (if b_closed s then set_rl s BStop else set_rl (set_closed s) BF2) | _ => None end
  | AF2 => match b_rl s with BF2 => Some (set_rl (obs_nil s) BF3) | _ => None end
  | AF3 => match b_rl s with BF3 => Some (set_rl (set_vis s false) BStop) | _ => None end
  | AStopCh => match b_rl s with BStop => Some (set_rl (set_stopped s) BDone) | _ => None end
  (* ---------------- sweeper: cleanup(true) ---------------- *)
  | AScan =>        (* udp.go:294-302 *)
      match b_sw s with SIdle => Some (set_sw s (if b_vis s && idle s then SC1 else SIdle)) | _ => None end
  | ASwC1 => match b_sw s with SC1 => Some (if b_closed s then set_sw s SIdle else set_sw (set_closed s) SC2) | _ => None end
  | ASwC2 => match b_sw s with SC2 => Some (set_sw (obs_nil s) SC3) | _ => None end
  | ASwC3 => match b_sw s with SC3 => Some (set_sw (set_vis s false) SIdle) | _ => None end
  | ASwStop => match b_sw s with SIdle => if b_stopped s then Some (set_sw s SDone) else None | _ => None end
  (* ---------------- reply loop ---------------- *)
  | ARdOk => match b_rp s with QRead => if b_closed s then None else Some (set_rp s QStamp) | _ => None end
  | ARdErr => match b_rp s with QRead => Some (set_rp s QC1) | _ => None end
  | ARpStamp => match b_rp s with QStamp => Some (set_rp (set_last s (b_now s)) QSend) | _ => None end
  | ARpSend ok => match b_rp s with QSend => Some (set_rp s (if ok then QRead else QC1)) | _ => None end
  | ARpC1 => match b_rp s with QC1 => Some (if b_closed s then set_rp s QDone else set_rp (set_closed s) QC2) | _ => None end
  | ARpC2 => match b_rp s with QC2 => Some (set_rp (obs_err s) QC3) | _ => None end
  | ARpC3 => match b_rp s with QC3 => Some (set_rp (set_vis s false) QDone) | _ => None end
  (* ---------------- clock ---------------- *)
  | AAdv d => Some (set_now s (b_now s + d))
  end.

Fixpoint brun (s : bst) (acts : list bact) : option bst :=
  match acts with
  | [] => Some s
  | a :: t => match bstep s a with Some s1 => brun s1 t | None => None end
  end.

Definition terminal (s : bst) : bool :=
  (match b_rl s with BDone => true | _ => false end) && (match b_sw s with SDone => true | _ => false end) &&
  (match b_rp s with QNone | QDone => true | _ => false end).

(* the sweeper is inside CloseWithErr on the entry *)
Definition sw_selected (s : bst) : bool := match b_sw s with SC1 | SC2 | SC3 => true | _ => false end.

(* ---- what the harness sees of one id: bit 0 hook, 1 New, 2 dial, 3 dial ok, 4 written, 5 Close(nil) before the loss,
   6 Close(nil) only after it, 7 Close(err), bits 8-9 number of Close events (3 = three or more) ---- *)
Definition bit (b : bool) (k : N) : N := if b then N.shiftl 1 k else 0.
Definition code (s : bst) : N :=
  bit (o_hook s) 0 + bit (o_new s) 1 + bit (o_dial s) 2 + bit (o_dialok s) 3 + bit (o_write s) 4 +
  bit (o_nil_early s) 5 + bit (o_nil_late s && negb (o_nil_early s)) 6 + bit (o_err s) 7 + N.shiftl (N.min (o_closes s) 3) 8.

(* ---- bounded exhaustive exploration (used by the correspondence check and by Examples; not by theorems) ---- *)
Definition rl_num (p : brl) : N :=
  match p with
  | BWait0 => 0 | BGot c => if c then 1 else 2 | BNew c => if c then 3 else 4 | BCreated c => if c then 5 else 6
  | BFeed c => if c then 7 else 8 | BInit => 9 | BWrite => 10 | BC1 => 11 | BC2 => 12 | BC3 => 13 | BIdle => 14
  | BSnap => 15 | BF1 => 16 | BF2 => 17 | BF3 => 18 | BStop => 19 | BDone => 20
  end.
Definition sw_num (p : bsw) : N := match p with SIdle => 0 | SC1 => 1 | SC2 => 2 | SC3 => 3 | SDone => 4 end.
Definition rp_num (p : brp) : N :=
  match p with QNone => 0 | QRead => 1 | QStamp => 2 | QSend => 3 | QC1 => 4 | QC2 => 5 | QC3 => 6 | QDone => 7 end.
Definition b2 (b : bool) : N := if b then 1 else 0.

(* clock values stay below 2^20 in the explorations *)
Definition benc (s : bst) : positive :=
  N.succ_pos
    (fold_left (fun acc p => acc * fst p + snd p)
       [(1048576, b_now s); (1048577, match b_born s with None => 0 | Some t => t + 1 end); (1048576, b_last s);
        (2, b2 (b_vis s)); (2, b2 (b_closed s)); (2, b2 (b_sock s)); (32, rl_num (b_rl s)); (8, sw_num (b_sw s)); (8, rp_num (b_rp s));
        (2, b2 (b_lost s)); (2, b2 (b_stopped s)); (8, N.of_nat (b_more s)); (1024, code s); (2, b2 (o_nil_late s))] 0).

(* the environment of one exploration: which actions it may take *)
Definition all_acts (env : list bact) (advs : list N) (max_now : N) (s : bst) : list bact :=
  [ALookup; ACreate; AInsert; AStampF; AInitClosed; AWriteF; ARlC1; ARlC2; ARlC3; ASnap; AF1; AF2; AF3; AStopCh;
   AScan; ASwC1; ASwC2; ASwC3; ASwStop; ARpStamp; ARpC1; ARpC2; ARpC3]
  ++ env ++ flat_map (fun d => if b_now s + d <=? max_now then [AAdv d] else []) advs.

Definition succs (env : list bact) (advs : list N) (max_now : N) (s : bst) : list bst :=
  flat_map (fun a => match bstep s a with Some s' => [s'] | None => [] end) (all_acts env advs max_now s).

Fixpoint bfs (env : list bact) (advs : list N) (max_now : N) (fuel : nat)
             (seen : PositiveSet.t) (frontier acc : list bst) : list bst * bool :=
  match fuel with
  | O => (acc, match frontier with [] => true | _ => false end)
  | S f =>
      match frontier with
      | [] => (acc, true)
      | _ =>
          let r := fold_left (fun (st : PositiveSet.t * list bst) s' =>
                                let k := benc s' in
                                if PositiveSet.mem k (fst st) then st else (PositiveSet.add k (fst st), s' :: snd st))
                             (flat_map (succs env advs max_now) frontier) (seen, []) in
          bfs env advs max_now f (fst r) (snd r) (snd r ++ acc)
      end
  end.

Fixpoint dedup (l : list N) : list N :=
  match l with [] => [] | x :: t => if existsb (N.eqb x) t then dedup t else x :: dedup t end.

(* codes of the terminal states reachable from binit; the flag says the exploration was exhaustive *)
Definition outcomes (env : list bact) (t0 : N) (advs : list N) (max_now : N) (more : nat) (fuel : nat) : list N * bool :=
  let s0 := binit t0 more in
  let r := bfs env advs max_now fuel (PositiveSet.add (benc s0) PositiveSet.empty) [s0] [s0] in
  (dedup (map code (filter terminal (fst r))), snd r).

End Step.

(* environments of the stress histories, by session kind *)
Definition env_refuse : list bact := [ARecv true; ALoss; ADialOk; ARdErr; ARdOk; ARpSend true; ARpSend false].
Definition env_stay : list bact := [ARecv true; ALoss; ADialOk; ARdErr].   (* its reads fail only once the socket is closed; over-approximated *)
Definition env_dialfail : list bact := [ARecv true; ALoss; ADialFail].
Definition env_hookfail : list bact := [ARecv true; ALoss; AHookFail].
Definition env_frag : list bact := [ARecv true; ARecv false; ALoss; ADialOk; ARdErr].

End Birth.

(* ====================================================================================================== *)

Module Locks.

Inductive lop :=
| LR      (* m.mutex.RLock() *)
| Lr      (* m.mutex.RUnlock() *)
| LW      (* m.mutex.Lock() *)
| Lw      (* m.mutex.Unlock() *)
| Lt.     (* anything else *)

Inductive wphase := WNo | WAnn (* Lock called: later RLocks block; waiting for the active readers to drain *) | WHeld.

Record thread := mkT { t_prog : list lop; t_r : nat (* read locks held *); t_w : wphase }.

Definition readers (ths : list thread) : nat := fold_right (fun th n => (t_r th + n)%nat) O ths.
Definition wbusy (ths : list thread) : bool := existsb (fun th => match t_w th with WNo => false | _ => true end) ths.

Fixpoint upd {A} (i : nat) (x : A) (l : list A) : list A :=
  match l, i with
  | [], _ => []
  | _ :: t, O => x :: t
  | h :: t, S j => h :: upd j x t
  end.

(* one operation of thread i; None: blocked (or nothing left / unlock of a lock not held: a Go fatal error) *)
Definition lstep (ths : list thread) (i : nat) : option (list thread) :=
  match nth_error ths i with
  | None => None
  | Some th =>
      match t_prog th with
      | [] => None
      | Lt :: p => Some (upd i (mkT p (t_r th) (t_w th)) ths)
      | LR :: p => if wbusy ths then None else Some (upd i (mkT p (S (t_r th)) (t_w th)) ths)
      | Lr :: p => match t_r th with S k => Some (upd i (mkT p k (t_w th)) ths) | O => None end
      | LW :: p =>
          match t_w th with
          | WNo => if wbusy ths then None else Some (upd i (mkT (LW :: p) (t_r th) WAnn) ths)
          | WAnn => match readers ths with O => Some (upd i (mkT p (t_r th) WHeld) ths) | _ => None end
          | WHeld => None
          end
      | Lw :: p => match t_w th with WHeld => Some (upd i (mkT p (t_r th) WNo) ths) | _ => None end
      end
  end.

Fixpoint lrun (ths : list thread) (sched : list nat) : option (list thread) :=
  match sched with
  | [] => Some ths
  | i :: t => match lstep ths i with Some ths' => lrun ths' t | None => None end
  end.

Definition start (progs : list (list lop)) : list thread := map (fun p => mkT p O WNo) progs.
Definition all_done (ths : list thread) : bool := forallb (fun th => match t_prog th with [] => true | _ => false end) ths.
Definition enabled (ths : list thread) : bool := existsb (fun i => match lstep ths i with Some _ => true | None => false end) (seq 0 (length ths)).
(* somebody still has work, nobody can move *)
Definition deadlocked (ths : list thread) : bool := negb (all_done ths) && negb (enabled ths).

(* the discipline: mode 0 = holds nothing, 1 = holds the read lock once, 2 = holds the write lock.
   A lock is only requested in mode 0 and everything is released at the end. *)
Inductive mode := MOut | MRead | MWrite.
Fixpoint flat_from (m : mode) (p : list lop) : bool :=
  match p with
  | [] => match m with MOut => true | _ => false end
  | Lt :: r => flat_from m r
  | LR :: r => match m with MOut => flat_from MRead r | _ => false end
  | Lr :: r => match m with MRead => flat_from MOut r | _ => false end
  | LW :: r => match m with MOut => flat_from MWrite r | _ => false end
  | Lw :: r => match m with MWrite => flat_from MOut r | _ => false end
  end.
Definition flat (p : list lop) : bool := flat_from MOut p.

(* work left: every step decreases it *)
Definition weight (th : thread) : nat :=
  (2 * length (t_prog th) - match t_w th with WAnn => 1 | _ => 0 end)%nat.
Definition measure (ths : list thread) : nat := fold_right (fun th n => (weight th + n)%nat) O ths.

(* ---- the functions of udp.go as sequences of m.mutex operations ---- *)
(* exitFunc (udp.go:331-339): logger.Close, then Lock; delete; Unlock *)
Definition exit_prog : list lop := [Lt; LW; Lt; Lw].
(* feed (udp.go:311-353): RLock; lookup; RUnlock; on a miss create, Lock; insert; Unlock; then entry.Feed, which on a failed
   hook / dial runs CloseWithErr and with it exitFunc *)
Definition feed_hit : list lop := [LR; Lt; Lr; Lt].
Definition feed_miss : list lop := [LR; Lt; Lr; Lt; LW; Lt; Lw; Lt].
Definition feed_miss_fail : list lop := feed_miss ++ exit_prog.
(* cleanup (udp.go:292-309): RLock; scan; RUnlock; then CloseWithErr on k entries, each ending in exitFunc (or returning at once) *)
Fixpoint closes (k : nat) : list lop := match k with O => [] | S j => Lt :: exit_prog ++ closes j end.
Definition cleanup_prog (k : nat) : list lop := [LR; Lt; Lt; Lr] ++ closes k.
(* Count (udp.go:355-359) *)
Definition count_prog : list lop := [LR; Lt; Lr].
(* a reply loop that ends its session: CloseWithErr -> exitFunc *)
Definition reply_exit_prog : list lop := Lt :: exit_prog.

Inductive code_prog : list lop -> Prop :=
| CP_hit : code_prog feed_hit
| CP_miss : code_prog feed_miss
| CP_miss_fail : code_prog feed_miss_fail
| CP_cleanup k : code_prog (cleanup_prog k)
| CP_count : code_prog count_prog
| CP_reply : code_prog reply_exit_prog
| CP_seq p q : code_prog p -> code_prog q -> code_prog (p ++ q).   (* Run's loop: one feed after the other, then cleanup(false) *)

(* the neighbouring design: cleanup sizing its slice with m.Count() while it holds the read lock *)
Definition cleanup_nested (k : nat) : list lop := [LR] ++ count_prog ++ [Lt; Lt; Lr] ++ closes k.

End Locks.
