(* C07 model: core/server/udp.go as a labelled transition system over the code's atomic sections.
   Definitions only.

   Threads: the receive loop RL (udpSessionManager.Run/feed/Feed/initConn), the idle sweeper SW
   (idleCleanupLoop/cleanup(true)), one reply loop RP e per entry whose socket was dialed
   (udpSessionEntry.receiveLoop).  One action = one critical section of m.mutex or e.connLock, one
   atomic store of e.Last, or one call on an external object (udpIO, UDPConn, logger).
   CloseWithErr is split exactly where the code releases connLock:
     part 1  {closed? return : closed = true; conn.Close()}        AClose1
     part 2a logger.Close                                            ACloseLog
     part 2b {Lock; delete(m.m, e.ID); Unlock}                       ACloseDel
   Time is the explicit action AAdvance; the ticker fires when the clock reaches next_tick and the
   clock cannot pass a tick the sweeper has not consumed.  Fragments are abstracted to
   "complete message / ignored fragment" (C05 covers reassembly); addresses, hook rewrites and the
   decision cache are C08's (a policy drop is the environment choice ADrop).
   Environment choices carried by the actions: the message received, ReceiveMessage failing
   (connection loss), Hook failing, UDP() failing, WriteTo/ReadFrom/SendMessage results, time.
   Socket numbers are allocation indices (the k-th successful UDP() call returns socket k). *)
From Hy Require Export gen.ParamsC07.
From Coq Require Import NArith List Bool.
Import ListNotations.
Local Open Scope N_scope.

(* reply loop of an entry *)
Inductive ppc := PNone   (* not spawned: no socket *)
               | PRead   (* in conn.ReadFrom *)
               | PGot (n : N)    (* ReadFrom returned a datagram of n bytes (n = 0: an empty datagram) with a nil error, before e.Last.Set *)
               | PSend (n : N)   (* before io.SendMessage of that datagram *)
               | PC1 | PC2 | PC3   (* CloseWithErr: before part 1 / before logger.Close / before delete *)
               | PDone.

Record entry := mkE {
  e_sid : N;              (* ID *)
  e_sock : option N;      (* conn *)
  e_closed : bool;        (* closed *)
  e_last : N;             (* Last (ms) *)
  e_closes : nat;         (* number of Close() calls its socket has seen *)
  e_pc : ppc }.

(* a thread executing CloseWithErr on each entry of a set: entries still to do, and the entry whose
   part 2 is pending (false: before logger.Close, true: before the table delete) *)
Definition closer := (list nat * option (nat * bool))%type.

Inductive rpc :=
| RWait                                   (* in io.ReceiveMessage *)
| RGot (sid : N) (c : bool)               (* feed: before the lookup under RLock; c = complete message *)
| RNew (sid : N) (c : bool)               (* lookup missed: before create + insert under Lock *)
| RFeed (e : nat) (sid : N) (c : bool)    (* before entry.Feed *)
| RInit (e : nat) (sid : N)               (* before initConn's critical section *)
| RWrite (e : nat) (sid : N)              (* before the policy check + conn.WriteTo *)
| RClose (cl : closer) (exiting : bool)   (* CloseWithErr after a failed dial / cleanup(false) at exit *)
| RSnap                                   (* ReceiveMessage failed: before cleanup(false)'s snapshot *)
| RDone.

Inductive spc := SWait | SClose (cl : closer) | SDone.

Record state := mkS {
  table : list (N * nat);   (* m.m : session id -> entry *)
  heap : list entry;        (* every entry ever allocated, by allocation index *)
  rl : rpc;
  sw : spc;
  now : N;
  next_tick : N;
  stopped : bool;           (* stopCh closed *)
  nsock : N }.

Inductive thread := TRL | TSW | TRP (e : nat).

Inductive action :=
| ARecv (sid : N) (c : bool) | ARecvErr
| ALookup | AInsert | AFeed | AInitClosed | AHookErr | ADial (ok : bool) | AWrite (ok : bool) | ADrop
| ARead (e : nat) (ok : bool) (n : N)   (* ReadFrom returns (n, addr, nil) for ANY n >= 0, or an error (ok = false) *)
| AStamp (e : nat) | ASend (e : nat) (ok : bool)
| AClose1 (t : thread) (e : nat) | ACloseLog (t : thread) | ACloseDel (t : thread)
| ASnapAll | ATick | AStop | AAdvance (d : N).

Inductive event :=
| ERecv (sid : N) (c : bool) | ERecvErr
| EHookErr (sid : N)
| EDial (sid : N) (sock : option N)
| EWrite (sock : N) (sid : N) (ok : bool)    (* sid: session id of the datagram being written *)
| ERead (sock : N) (ok : bool) (n : N)          (* n: length of the datagram read (0 is a datagram) *)
| ESend (sock : N) (sid : N) (ok : bool) (n : N)   (* sock: the socket the payload was read from; sid: its stamp; n: payload length *)
| EClose (sock : N)
| ELogClose (sid : N)
| EAdvance (d : N).

Section C07.
Variable timeout : N.    (* idleTimeout, ms *)

Definition init : state := mkS [] [] RWait SWait 0 idleCleanupIntervalMs false 0.

Fixpoint find (sid : N) (t : list (N * nat)) : option nat :=
  match t with
  | [] => None
  | (k, e) :: r => if k =? sid then Some e else find sid r
  end.

Fixpoint remove_sid (sid : N) (t : list (N * nat)) : list (N * nat) :=
  match t with
  | [] => []
  | (k, e) :: r => if k =? sid then remove_sid sid r else (k, e) :: remove_sid sid r
  end.

Fixpoint upd {A} (i : nat) (x : A) (l : list A) : list A :=
  match l, i with
  | [], _ => []
  | _ :: t, O => x :: t
  | h :: t, S j => h :: upd j x t
  end.

Definition get (s : state) (e : nat) : option entry := nth_error (heap s) e.

Definition set_heap (s : state) (h : list entry) : state :=
  mkS (table s) h (rl s) (sw s) (now s) (next_tick s) (stopped s) (nsock s).
Definition set_entry (s : state) (e : nat) (en : entry) : state := set_heap s (upd e en (heap s)).
Definition set_table (s : state) (t : list (N * nat)) : state :=
  mkS t (heap s) (rl s) (sw s) (now s) (next_tick s) (stopped s) (nsock s).
Definition set_rl (s : state) (p : rpc) : state :=
  mkS (table s) (heap s) p (sw s) (now s) (next_tick s) (stopped s) (nsock s).
Definition set_sw (s : state) (p : spc) : state :=
  mkS (table s) (heap s) (rl s) p (now s) (next_tick s) (stopped s) (nsock s).
Definition set_pc (en : entry) (p : ppc) : entry :=
  mkE (e_sid en) (e_sock en) (e_closed en) (e_last en) (e_closes en) p.
Definition set_last (en : entry) (t : N) : entry :=
  mkE (e_sid en) (e_sock en) (e_closed en) t (e_closes en) (e_pc en).

(* CloseWithErr part 1 (udp.go:72-86): returns the new state, whether this caller goes on to part 2, the event *)
Definition close1 (s : state) (e : nat) : option (state * bool * list event) :=
  match get s e with
  | None => None
  | Some en =>
      if e_closed en then Some (s, false, [])
      else
        let en' := mkE (e_sid en) (e_sock en) true (e_last en)
                       (match e_sock en with Some _ => S (e_closes en) | None => e_closes en end) (e_pc en) in
        Some (set_entry s e en', true, match e_sock en with Some k => [EClose k] | None => [] end)
  end.

Fixpoint remove_nat (x : nat) (l : list nat) : list nat :=
  match l with
  | [] => []
  | h :: t => if Nat.eqb h x then t else h :: remove_nat x t
  end.

Fixpoint mem_nat (x : nat) (l : list nat) : bool :=
  match l with [] => false | h :: t => Nat.eqb h x || mem_nat x t end.

(* the three steps of a closer thread *)
Definition closer_c1 (s : state) (cl : closer) (e : nat) : option (state * closer * list event) :=
  match cl with
  | (todo, None) =>
      if mem_nat e todo then
        match close1 s e with
        | Some (s', won, ev) => Some (s', (remove_nat e todo, if won then Some (e, false) else None), ev)
        | None => None
        end
      else None
  | _ => None
  end.

Definition closer_log (s : state) (cl : closer) : option (closer * list event) :=
  match cl with
  | (todo, Some (e, false)) =>
      match get s e with
      | Some en => Some ((todo, Some (e, true)), [ELogClose (e_sid en)])
      | None => None
      end
  | _ => None
  end.

(* exitFunc: delete(m.m, entry.ID) - by id *)
Definition closer_del (s : state) (cl : closer) : option (state * closer) :=
  match cl with
  | (todo, Some (e, true)) =>
      match get s e with
      | Some en => Some (set_table s (remove_sid (e_sid en) (table s)), (todo, None))
      | None => None
      end
  | _ => None
  end.

(* what a thread does when its closer has nothing left *)
Definition rl_after (s : state) (cl : closer) (exiting : bool) : state :=
  match cl with
  | ([], None) =>
      if exiting
      then mkS (table s) (heap s) RDone (sw s) (now s) (next_tick s) true (nsock s)   (* close(stopCh) *)
      else set_rl s RWait
  | _ => set_rl s (RClose cl exiting)
  end.

Definition sw_after (s : state) (cl : closer) : state :=
  match cl with
  | ([], None) => set_sw s SWait
  | _ => set_sw s (SClose cl)
  end.

Definition idle (s : state) (e : nat) : bool :=
  match get s e with
  | Some en => timeout <? now s - e_last en     (* now.Sub(entry.Last.Get()) > m.idleTimeout *)
  | None => false
  end.

Definition step (s : state) (a : action) : option (state * list event) :=
  match a with
  (* ---------------- receive loop ---------------- *)
  | ARecv sid c =>
      match rl s with RWait => Some (set_rl s (RGot sid c), [ERecv sid c]) | _ => None end
  | ARecvErr =>
      match rl s with RWait => Some (set_rl s RSnap, [ERecvErr]) | _ => None end
  | ASnapAll =>       (* cleanup(false): every entry of the table *)
      match rl s with RSnap => Some (rl_after s (map snd (table s), None) true, []) | _ => None end
  | ALookup =>        (* udp.go:310-312 *)
      match rl s with
      | RGot sid c =>
          Some (set_rl s (match find sid (table s) with Some e => RFeed e sid c | None => RNew sid c end), [])
      | _ => None
      end
  | AInsert =>        (* udp.go:339-344: newUDPSessionEntry (Last = now) and m.m[id] = entry *)
      match rl s with
      | RNew sid c =>
          let e := length (heap s) in
          Some (mkS ((sid, e) :: remove_sid sid (table s)) (heap s ++ [mkE sid None false (now s) 0 PNone])
                    (RFeed e sid c) (sw s) (now s) (next_tick s) (stopped s) (nsock s), [])
      | _ => None
      end
  | AFeed =>          (* udp.go:97-103: Last.Set, defragment, conn == nil ? *)
      match rl s with
      | RFeed e sid c =>
          match get s e with
          | Some en =>
              let s1 := set_entry s e (set_last en (now s)) in
              Some (set_rl s1 (if c then match e_sock en with Some _ => RWrite e sid | None => RInit e sid end
                               else RWait), [])
          | None => None
          end
      | _ => None
      end
  | AInitClosed =>    (* udp.go:149-152 *)
      match rl s with
      | RInit e sid =>
          match get s e with
          | Some en => if e_closed en then Some (set_rl s RWait, []) else None
          | None => None
          end
      | _ => None
      end
  | AHookErr =>       (* udp.go:154-161 with Hook failing inside DialFunc *)
      match rl s with
      | RInit e sid =>
          match get s e with
          | Some en => if e_closed en then None
                       else Some (set_rl s (RClose ([e], None) false), [EHookErr (e_sid en)])
          | None => None
          end
      | _ => None
      end
  | ADial ok =>       (* udp.go:154-174: Hook ok, logger.New, io.UDP *)
      match rl s with
      | RInit e sid =>
          match get s e with
          | Some en =>
              if e_closed en then None
              else if ok then
                let en' := mkE (e_sid en) (Some (nsock s)) false (e_last en) (e_closes en) PRead in
                let s1 := set_entry s e en' in
                Some (mkS (table s1) (heap s1) (RWrite e sid) (sw s1) (now s1) (next_tick s1) (stopped s1) (nsock s + 1),
                      [EDial (e_sid en) (Some (nsock s))])
              else Some (set_rl s (RClose ([e], None) false), [EDial (e_sid en) None])
          | None => None
          end
      | _ => None
      end
  | AWrite ok =>      (* udp.go:120; a closed socket only returns errors *)
      match rl s with
      | RWrite e sid =>
          match get s e with
          | Some en =>
              match e_sock en with
              | Some k => if ok && negb (Nat.eqb (e_closes en) 0) then None
                          else Some (set_rl s RWait, [EWrite k sid ok])
              | None => None
              end
          | None => None
          end
      | _ => None
      end
  | ADrop =>          (* udp.go:116-118: the policy rejects the destination *)
      match rl s with RWrite e sid => Some (set_rl s RWait, []) | _ => None end
  (* ---------------- reply loops ---------------- *)
  | ARead e ok n =>   (* udp.go:185-189: only err != nil leaves the loop; udpN is not looked at (an empty datagram is relayed) *)
      match get s e with
      | Some en =>
          match e_pc en, e_sock en with
          | PRead, Some k =>
              if ok then
                if Nat.eqb (e_closes en) 0 then Some (set_entry s e (set_pc en (PGot n)), [ERead k true n]) else None
              else Some (set_entry s e (set_pc en PC1), [ERead k false n])
          | _, _ => None
          end
      | None => None
      end
  | AStamp e =>       (* udp.go:190 *)
      match get s e with
      | Some en =>
          match e_pc en with
          | PGot n => Some (set_entry s e (set_pc (set_last en (now s)) (PSend n)), [])
          | _ => None
          end
      | None => None
      end
  | ASend e ok =>     (* udp.go:199-211: the message is stamped with e.ID *)
      match get s e with
      | Some en =>
          match e_pc en, e_sock en with
          | PSend n, Some k => Some (set_entry s e (set_pc en (if ok then PRead else PC1)), [ESend k (e_sid en) ok n])
          | _, _ => None
          end
      | None => None
      end
  (* ---------------- CloseWithErr, by any thread ---------------- *)
  | AClose1 TRL e =>
      match rl s with
      | RClose cl x =>
          match closer_c1 s cl e with Some (s', cl', ev) => Some (rl_after s' cl' x, ev) | None => None end
      | _ => None
      end
  | AClose1 TSW e =>
      match sw s with
      | SClose cl =>
          match closer_c1 s cl e with Some (s', cl', ev) => Some (sw_after s' cl', ev) | None => None end
      | _ => None
      end
  | AClose1 (TRP p) e =>
      if Nat.eqb p e then
        match get s e with
        | Some en =>
            match e_pc en with
            | PC1 =>
                match close1 s e with
                | Some (s', won, ev) =>
                    match get s' e with
                    | Some en' => Some (set_entry s' e (set_pc en' (if won then PC2 else PDone)), ev)
                    | None => None
                    end
                | None => None
                end
            | _ => None
            end
        | None => None
        end
      else None
  | ACloseLog TRL =>
      match rl s with
      | RClose cl x => match closer_log s cl with Some (cl', ev) => Some (set_rl s (RClose cl' x), ev) | None => None end
      | _ => None
      end
  | ACloseLog TSW =>
      match sw s with
      | SClose cl => match closer_log s cl with Some (cl', ev) => Some (set_sw s (SClose cl'), ev) | None => None end
      | _ => None
      end
  | ACloseLog (TRP e) =>
      match get s e with
      | Some en => match e_pc en with
                   | PC2 => Some (set_entry s e (set_pc en PC3), [ELogClose (e_sid en)])
                   | _ => None
                   end
      | None => None
      end
  | ACloseDel TRL =>
      match rl s with
      | RClose cl x => match closer_del s cl with Some (s', cl') => Some (rl_after s' cl' x, []) | None => None end
      | _ => None
      end
  | ACloseDel TSW =>
      match sw s with
      | SClose cl => match closer_del s cl with Some (s', cl') => Some (sw_after s' cl', []) | None => None end
      | _ => None
      end
  | ACloseDel (TRP e) =>
      match get s e with
      | Some en => match e_pc en with
                   | PC3 => Some (set_table (set_entry s e (set_pc en PDone)) (remove_sid (e_sid en) (table s)), [])
                   | _ => None
                   end
      | None => None
      end
  (* ---------------- sweeper and clock ---------------- *)
  | ATick =>          (* udp.go:282-283 + cleanup(true)'s snapshot under RLock *)
      match sw s with
      | SWait =>
          if next_tick s <=? now s then
            let todo := filter (idle s) (map snd (table s)) in
            let s1 := mkS (table s) (heap s) (rl s) (sw s) (now s) (next_tick s + idleCleanupIntervalMs) (stopped s) (nsock s) in
            Some (sw_after s1 (todo, None), [])
          else None
      | _ => None
      end
  | AStop =>          (* udp.go:284-285 *)
      match sw s with
      | SWait => if stopped s then Some (set_sw s SDone, []) else None
      | _ => None
      end
  | AAdvance d =>
      if (match sw s with SDone => true | _ => false end) || (now s + d <=? next_tick s)
      then Some (mkS (table s) (heap s) (rl s) (sw s) (now s + d) (next_tick s) (stopped s) (nsock s), [EAdvance d])
      else None
  end.

Fixpoint run (s : state) (acts : list action) : option (state * list event) :=
  match acts with
  | [] => Some (s, [])
  | a :: t =>
      match step s a with
      | Some (s1, ev) =>
          match run s1 t with
          | Some (s2, tr) => Some (s2, ev ++ tr)
          | None => None
          end
      | None => None
      end
  end.

(* ---- observers used by the theorem statements ---- *)

(* the session id that owns socket k: the id of the entry whose conn is socket k *)
Definition owner (s : state) (k : N) : option N :=
  match filter (fun en => match e_sock en with Some k' => k' =? k | None => false end) (heap s) with
  | en :: _ => Some (e_sid en)
  | [] => None
  end.

Definition reply_running (en : entry) : bool :=
  match e_pc en with PNone | PDone => false | _ => true end.

(* nothing left to run except reply loops genuinely blocked in ReadFrom on an open socket *)
Definition terminal (s : state) : bool :=
  (match rl s with RDone => true | _ => false end) &&
  (match sw s with SDone => true | _ => false end) &&
  forallb (fun en => match e_pc en with
                     | PNone | PDone => true
                     | PRead => Nat.eqb (e_closes en) 0
                     | _ => false
                     end) (heap s).

End C07.
