(* C08, policy adapter: the UDP entry points of the outbound pipeline
     PluggableOutboundAdapter -> resolver stage -> aclEngine -> outbound
   (extras/outbounds/interface.go, dns_system.go / dns_standard.go / dns_https.go, acl.go).
   Definitions only.  The rule evaluation itself (aclEngine.handle) is the C09 model's engine_handle;
   this file transcribes who calls it with which AddrEx.  A request is the C09 reqaddr: Host, Port and
   the ResolveInfo slot (None = nil pointer, Some (v4, v6) = filled by a resolver stage). *)
From Hy Require Import model.C09_ACL.
From Coq Require Import NArith List.
Import ListNotations.
Local Open Scope N_scope.

Section Pipeline.
  Variable ip_str : ip -> str.                  (* net.IP.String *)
  Variable rs : list rule.                      (* the compiled rule set *)
  Variable dflt : N.                            (* aclEngine.Default *)
  Variable resolve : str -> option (ip * ip).   (* what the resolver stage stores into AddrEx.ResolveInfo for a host *)

  (* the effect of handle's hijack branch on the AddrEx it was given (it rewrites in place) *)
  Definition apply_rw (a : reqaddr) (rw : rewrite) : reqaddr :=
    match rw with
    | RwNone => a
    | RwHijack hip v4 v6 => mkReq (ip_str hip) (ra_port a) (Some (v4, v6))
    end.

  (* aclEngine.UDP:      ob := a.handle(reqAddr, acl.ProtocolUDP); return ob.UDP(reqAddr)
     result: the outbound whose UDP() is called and the AddrEx it is called with *)
  Definition acl_udp (a : reqaddr) : N * reqaddr :=
    let (ob, rw) := engine_handle rs dflt a ProtocolUDP in (ob, apply_rw a rw).

  (* aclEngine.CheckUDP: ob := a.handle(reqAddr, acl.ProtocolUDP); return ob.CheckUDP(reqAddr) *)
  Definition acl_check_udp (a : reqaddr) : N * reqaddr :=
    let (ob, rw) := engine_handle rs dflt a ProtocolUDP in (ob, apply_rw a rw).

  (* xxxResolver.UDP / CheckUDP: r.resolve(reqAddr); return r.Next.UDP / CheckUDP (reqAddr) *)
  Definition resolver_stage (a : reqaddr) : reqaddr :=
    mkReq (ra_host a) (ra_port a) (resolve (ra_host a)).

  (* PluggableOutboundAdapter.UDP / CheckUDP after net.SplitHostPort: &AddrEx{Host: host, Port: port} *)
  Definition adapter_udp (h : str) (p : N) : N * reqaddr := acl_udp (resolver_stage (mkReq h p None)).
  Definition adapter_check_udp (h : str) (p : N) : N * reqaddr := acl_check_udp (resolver_stage (mkReq h p None)).

  (* a CheckUDP that evaluated the rules on Host and Port only (not the code: kept for the refutation) *)
  Definition adapter_check_udp_hostport (h : str) (p : N) : N * reqaddr := acl_check_udp (mkReq h p None).

  (* the policy predicate of the C08 session theorems for this pipeline: [accepts ob a] = outbound ob takes
     UDP traffic for the request a (an outbound answers alike in UDP() and CheckUDP()) *)
  Variable accepts : N -> reqaddr -> bool.
  Definition dial_allows (h : str) (p : N) : bool := let (ob, a) := adapter_udp h p in accepts ob a.
  Definition check_allows (h : str) (p : N) : bool := let (ob, a) := adapter_check_udp h p in accepts ob a.
End Pipeline.
