(* C08, third layer: outbound policies that FAIL instead of answering, and a dial-time policy that is not
   the same function as the per-datagram one.  Definitions only.

   The first layer (model/C08_UDPPolicy.v) has ONE boolean predicate P behind both Outbound.UDP (the dial
   of a session's first destination) and Outbound.CheckUDP (every later destination).  Here
     Qd a : what Outbound.UDP(a) does for a fresh session  - hands out a socket / returns an error / panics
     Qc a : what Outbound.CheckUDP(a) does                 - returns nil       / returns an error / panics
   are two three-valued functions, the request hook may panic too, and the code between the session entry
   and the outbound - core/server/server.go udpIOImpl.CheckUDP, `return io.Outbound.CheckUDP(reqAddr)` -
   is an explicit wrapper [iow]: io_result is the code (the callee's answer is passed on, its panic
   propagates).  Everything else is the first layer's code: same cache, same eviction, same override
   bookkeeping (the definitions are reused, not copied). *)
From Hy Require Export lib.Res gen.ParamsC08 model.C08_UDPPolicy.
From Coq Require Import NArith List Bool.
Import ListNotations.

Inductive pres := PAllow | PDeny | PFail.

Definition allows (r : pres) : bool := match r with PAllow => true | _ => false end.
Definition pres_of_bool (b : bool) : pres := if b then PAllow else PDeny.

(* server.go:416-418  func (io *udpIOImpl) CheckUDP(reqAddr string) error { return io.Outbound.CheckUDP(reqAddr) }
   Ok true = nil, Ok false = a non-nil error, Panic 1 = the outbound's panic unwinds through the caller *)
Definition io_result (r : pres) : Res bool :=
  match r with PAllow => Ok true | PDeny => Ok false | PFail => Panic 1 end.

(* NOT the code (kept for the refutation): a deferred recover that stores the panic into a LOCAL error variable of
   a function whose result is unnamed - the function then returns the zero value of its result, nil *)
Definition io_recover_into_local (r : pres) : Res bool :=
  match r with PAllow => Ok true | PDeny => Ok false | PFail => Ok true end.

(* a recover into a NAMED result turns the failure into an ordinary rejection (also not the code; it is safe) *)
Definition io_recover_into_result (r : pres) : Res bool :=
  match r with PAllow => Ok true | PDeny => Ok false | PFail => Ok false end.

Section C08Fail.
Variable addr : Type.
Variable aeqb : addr -> addr -> bool.
Variable empty : addr.
Variable Qd : addr -> pres.
Variable Qc : addr -> pres.
Variable hook : addr -> option (hookres addr).   (* None: RequestHook.Check / RequestHook.UDP panics *)
Variable iow : pres -> Res bool.

(* udp.go:125-141 checkAddr with e.IO.CheckUDP(addr) = iow (Qc addr): when the call does not return, the
   statements after it - eviction, the map write - are not executed *)
Definition checkAddr3 (c : cache addr) (a ev : addr) : Res (chk addr) :=
  match lookup addr aeqb c a with
  | Some v => Ok (mkChk addr v c false None)
  | None =>
      v <- iow (Qc a) ;;
      let full := (maxSessionACLCache <=? N.of_nat (length c))%N in
      let c1 := if full then evict addr aeqb c ev else c in
      Ok (mkChk addr v ((a, v) :: c1) true (if full then evicted_key addr aeqb c ev else None))
  end.

(* SDead: a panic left DialFunc.  udp.go:145-158 initConn holds e.connLock across DialFunc and the entry is in
   the manager's table already: the entry is wedged for good (when nothing above recovers, the process is gone) *)
Inductive state3 := S3 (st : state addr) | SDead.

Inductive out3 := O3 (o : out addr) | OPanic | ODead.

Record obs3 := mkObs3 { o3_out : out3; o3_dialed : option addr; o3_consulted : bool; o3_evicted : option addr }.

(* udp.go:145-175 initConn + the manager's dialFunc (udp.go:316-328) through udpIOImpl.Hook / udpIOImpl.UDP
   (server.go:405-414: both pass the callee's panic on) *)
Definition dial3 (a : addr) (fault : bool) : Res (option (sess addr) * option addr) :=
  match hook a with
  | None => Panic 2
  | Some HFail => Ok (None, None)
  | Some hr =>
      let actual := match hr with HRewrite a' => a' | _ => a end in
      match Qd actual with
      | PFail => Panic 3
      | r =>
          if allows r && negb fault
          then
            let ov := if aeqb a actual then empty else actual in
            let orig := if aeqb a actual then empty else a in
            Ok (Some (mkSess addr ov orig (if aeqb orig empty then [(a, true)] else [])), Some actual)
          else Ok (None, Some actual)
      end
  end.

(* udp.go:113-120: a failing policy query aborts the Feed between checkAddr and WriteTo: nothing is written,
   the entry is as it was (the defragmenter is not part of this layer) *)
Definition feed_tail3 (s : sess addr) (a ev : addr) (dialed : option addr) : state3 * obs3 :=
  if negb (aeqb (s_orig addr s) empty)
  then (S3 (Some s), mkObs3 (O3 (OFwd addr (s_ov addr s))) dialed false None)
  else
    match checkAddr3 (s_cache addr s) a ev with
    | Ok r =>
        (S3 (Some (mkSess addr (s_ov addr s) (s_orig addr s) (c_cache addr r))),
         mkObs3 (O3 (if c_verdict addr r then OFwd addr a else ODrop addr)) dialed (c_consulted addr r) (c_evicted addr r))
    | _ => (S3 (Some s), mkObs3 OPanic dialed true None)
    end.

Definition step3 (st : state3) (i : input addr) : state3 * obs3 :=
  match st with
  | SDead => (SDead, mkObs3 ODead None false None)
  | S3 st0 =>
      match i with
      | IDgram _ a fault ev =>
          match st0 with
          | Some s => feed_tail3 s a ev None
          | None =>
              match dial3 a fault with
              | Ok (Some s, d) => feed_tail3 s a ev d
              | Ok (None, d) => (S3 None, mkObs3 (O3 (ODialFail addr)) d false None)
              | _ => (SDead, mkObs3 OPanic None false None)
              end
          end
      | IReply _ r =>
          match st0 with
          | Some s => (st, mkObs3 (O3 (OReply addr (if aeqb (s_orig addr s) empty then r else s_orig addr s))) None false None)
          | None => (S3 None, mkObs3 (O3 (ONone addr)) None false None)
          end
      | IClose _ => (S3 None, mkObs3 (O3 (ONone addr)) None false None)
      end
  end.

Fixpoint run3 (st : state3) (ins : list (input addr)) : state3 * list obs3 :=
  match ins with
  | [] => (st, [])
  | i :: t => let (st1, o) := step3 st i in let (st2, os) := run3 st1 t in (st2, o :: os)
  end.

(* the first layer's observation as one of this layer *)
Definition lift_obs (o : obs addr) : obs3 :=
  mkObs3 (O3 (o_out addr o)) (o_dialed addr o) (o_consulted addr o) (o_evicted addr o).

End C08Fail.

(* ---- the leaf outbounds of extras/outbounds, as far as UDP goes: what UDP() answers for a fresh session and what
   CheckUDP() answers, for ANY destination (none of them looks at it).
     ob_direct.go:405-407 CheckUDP nil ; :409-424 UDP (no bind address): net.ListenUDP
     ob_socks5.go:174-176 CheckUDP nil ; :178-190 UDP: succeeds when the proxy grants UDP ASSOCIATE (up)
     ob_http.go:169-175   UDP and CheckUDP: errHTTPUDPNotSupported
     acl.go:120-130       aclRejectOutbound: errRejected for both
     LFake b: the harnesses' recording fake ---- *)
Inductive leaf := LDirect | LSocks5 (up : bool) | LHttp | LReject | LFake (allow : bool).

Definition leaf_udp (l : leaf) : bool :=
  match l with LDirect => true | LSocks5 up => up | LHttp => false | LReject => false | LFake b => b end.

Definition leaf_check (l : leaf) : bool :=
  match l with LDirect => true | LSocks5 _ => true | LHttp => false | LReject => false | LFake b => b end.

(* NOT the code (kept for the refutation): an HTTP-proxy leaf whose CheckUDP says nil "because the lack of UDP support
   is reported by UDP() when a session is dialed" *)
Definition leaf_check_http_nil (l : leaf) : bool :=
  match l with LHttp => true | _ => leaf_check l end.

(* the per-datagram query never allows what the dial refuses *)
Definition leaf_consistent (chk udp : leaf -> bool) (l : leaf) : Prop := chk l = true -> udp l = true.
