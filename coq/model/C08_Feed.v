(* C08 model, second layer: the WHOLE of udpSessionEntry.Feed (core/server/udp.go:96-123) as driven by
   udpSessionManager.feed for one session id, on top of model/C08_UDPPolicy.v:

     dfMsg := e.D.Feed(msg)                      -- the Defragger of core/internal/frag/frag.go (dfeed below;
                                                    proof/C08_Feed.v shows it is the C05 model of Defragger.Feed
                                                    with the payload forgotten)
     if dfMsg == nil { return 0, nil }
     if e.conn == nil { initConn(dfMsg) ... }    -- dial of C08_UDPPolicy, with dfMsg.Addr
     addr := dfMsg.Addr
     if e.OriginalAddr != "" { addr = e.OverrideAddr } else if err := e.checkAddr(addr); err != nil { return 0, err }
     return e.conn.WriteTo(dfMsg.Data, addr)     -- ONE WriteTo; its error is returned, nothing else is sent

   What the first layer abstracted away and this layer makes explicit:
   * fragments: a client message is (PacketID, FragID, FragCount, Addr); the fragments of one datagram
     may DISAGREE about Addr.  Both the address handed to checkAddr and the address handed to WriteTo
     are read from the one message the Defragger returns (dfMsg), never from the message just received
     (msg) - in the current code dfMsg is the LAST ARRIVED fragment with FragID 0 / FragCount 1 and the
     reassembled payload, so its Addr is the last arrived fragment's.
   * the result of conn.WriteTo: an injected write error is an outcome of its own (FWrite _ x false):
     the error is returned and there is no second WriteTo, in hooked sessions as in plain ones.
   * the third state of a session: an entry exists (it holds a Defragger with fragments) but has no socket.

   Definitions only. *)
From Hy Require Export model.C08_UDPPolicy.
From Coq Require Import NArith List Bool.
Import ListNotations.
Local Open Scope N_scope.

Section C08Feed.
Variable addr : Type.
Variable aeqb : addr -> addr -> bool.
Variable empty : addr.
Variable P : addr -> bool.
Variable hook : addr -> hookres addr.

(* protocol.UDPMessage as far as the destination policy is concerned (SessionID is fixed, Data is irrelevant) *)
Record umsg := mkU { u_pid : N; u_fid : N; u_cnt : N; u_addr : addr }.

(* frag.Defragger: pktID, frags ([]*UDPMessage, nil = None), count (uint8); size is irrelevant here *)
Record dfs := mkDf { df_pid : N; df_frags : list (option umsg); df_count : N }.
Definition df_init : dfs := mkDf 0 [] 0.

Fixpoint updo {A} (i : nat) (x : A) (l : list A) : list A :=
  match l, i with
  | [], _ => []
  | _ :: t, O => x :: t
  | h :: t, S j => h :: updo j x t
  end.

(* the message Defragger.Feed returns when m completes a datagram: `m.Data = data; m.FragID = 0;
   m.FragCount = 1; return m` - the fragment that arrived LAST, so its Addr *)
Definition assembled (m : umsg) (frags : list (option umsg)) : umsg := mkU (u_pid m) 0 1 (u_addr m).

(* Defragger.Feed: new state and the returned message (None = nil) *)
Definition dfeed (d : dfs) (m : umsg) : dfs * option umsg :=
  if u_cnt m <=? 1 then (d, Some m)
  else if u_cnt m <=? u_fid m then (d, None)
  else if negb (u_pid m =? df_pid d) || negb (u_cnt m =? N.of_nat (length (df_frags d)) mod 256) then
    (mkDf (u_pid m) (updo (N.to_nat (u_fid m)) (Some m) (repeat None (N.to_nat (u_cnt m)))) 1, None)
  else
    match nth_error (df_frags d) (N.to_nat (u_fid m)) with
    | Some None =>
        let fr := updo (N.to_nat (u_fid m)) (Some m) (df_frags d) in
        let c := (df_count d + 1) mod 256 in
        if c =? N.of_nat (length fr)
        then (mkDf (df_pid d) fr c, Some (assembled m fr))
        else (mkDf (df_pid d) fr c, None)
    | _ => (d, None)      (* slot taken: duplicate fragment ignored (index in range: FragID < FragCount = len) *)
    end.

(* what one call of Feed did at the boundary *)
Inductive fout :=
| FNone                                       (* nothing called: fragment stored or ignored / no socket to read from *)
| FDialFail                                   (* initConn failed: error returned, entry closed and removed *)
| FDrop (chk : addr)                          (* checkAddr(chk) said no: its error returned, nothing written *)
| FWrite (chk : option addr) (x : addr) (ok : bool)
                                              (* exactly one conn.WriteTo(_, x); chk = the address given to checkAddr
                                                 (None in an overridden session, where checkAddr is not called);
                                                 ok = false: WriteTo failed, its error is returned, nothing else is sent *)
| FRep (x : addr).                            (* a packet read from the socket is sent to the client as coming from x *)

Record fobs := mkFObs { fo_out : fout; fo_dialed : option addr; fo_consulted : bool; fo_evicted : option addr }.

(* udp.go:113-122 with the result of WriteTo explicit.  chk_addr and wr_addr are the two reads of dfMsg.Addr. *)
Definition feed_tail_w (s : sess addr) (dfm : umsg) (ev : addr) (werr : bool) (dialed : option addr)
  : sess addr * fobs :=
  let chk_addr := u_addr dfm in      (* e.checkAddr(addr), addr := dfMsg.Addr *)
  let wr_addr := u_addr dfm in       (* e.conn.WriteTo(dfMsg.Data, addr) *)
  if negb (aeqb (s_orig addr s) empty)
  then (s, mkFObs (FWrite None (s_ov addr s) (negb werr)) dialed false None)
  else
    let r := checkAddr addr aeqb P (s_cache addr s) chk_addr ev in
    (mkSess addr (s_ov addr s) (s_orig addr s) (c_cache addr r),
     mkFObs (if c_verdict addr r then FWrite (Some chk_addr) wr_addr (negb werr) else FDrop chk_addr)
            dialed (c_consulted addr r) (c_evicted addr r)).

(* None: no entry for the id in the manager's table.  Some (d, None): an entry with Defragger d and conn == nil.
   Some (d, Some s): an entry with its socket. *)
Definition fstate := option (dfs * option (sess addr)).

Inductive finput :=
| FMsg (m : umsg) (fault : bool) (ev : addr) (werr : bool)   (* client message; dial fault / eviction oracle /
                                                                 "the WriteTo of this Feed fails" *)
| FReply (r : addr)
| FClose.

Definition fstep (fs : fstate) (i : finput) : fstate * fobs :=
  match i with
  | FMsg m fault ev werr =>
      let '(d, so) := match fs with Some p => p | None => (df_init, None) end in
      let '(d1, o) := dfeed d m in
      match o with
      | None => (Some (d1, so), mkFObs FNone None false None)
      | Some dfm =>
          match so with
          | Some s => let '(s1, ob) := feed_tail_w s dfm ev werr None in (Some (d1, Some s1), ob)
          | None =>
              match dial addr aeqb empty P hook (u_addr dfm) fault with
              | (Some s, dl) => let '(s1, ob) := feed_tail_w s dfm ev werr dl in (Some (d1, Some s1), ob)
              | (None, dl) => (None, mkFObs FDialFail dl false None)
              end
          end
      end
  | FReply r =>
      match fs with
      | Some (_, Some s) => (fs, mkFObs (FRep (if aeqb (s_orig addr s) empty then r else s_orig addr s)) None false None)
      | _ => (fs, mkFObs FNone None false None)
      end
  | FClose => (None, mkFObs FNone None false None)
  end.

Fixpoint frun (fs : fstate) (ins : list finput) : fstate * list fobs :=
  match ins with
  | [] => (fs, [])
  | i :: t => let (fs1, o) := fstep fs i in let (fs2, os) := frun fs1 t in (fs2, o :: os)
  end.

(* ---- the first layer as a restriction of this one: complete messages, no write errors ---- *)
Definition embed (i : input addr) : finput :=
  match i with
  | IDgram _ a fault ev => FMsg (mkU 0 0 1 a) fault ev false
  | IReply _ r => FReply r
  | IClose _ => FClose
  end.

Definition proj_out (o : fout) : out addr :=
  match o with
  | FNone => ONone _
  | FDialFail => ODialFail _
  | FDrop _ => ODrop _
  | FWrite _ x _ => OFwd _ x
  | FRep x => OReply _ x
  end.

Definition proj_obs (o : fobs) : obs addr :=
  mkObs addr (proj_out (fo_out o)) (fo_dialed o) (fo_consulted o) (fo_evicted o).

Definition proj_state (fs : fstate) : state addr :=
  match fs with Some (_, so) => so | None => None end.

(* ---- vocabulary of the theorem statements ---- *)
(* a client message never carries the empty address (ParseUDPMessage rejects a zero-length address) *)
Definition fwf (i : finput) : Prop :=
  match i with FMsg m _ _ _ => u_addr m <> empty | _ => True end.

Definition is_fclose (i : finput) : bool := match i with FClose => true | _ => false end.

(* the addresses handed to conn.WriteTo by one Feed, successful or not *)
Definition written (o : fobs) : list addr :=
  match fo_out o with FWrite _ x _ => [x] | _ => [] end.

End C08Feed.
