(* C05 o C08: the session model of C08 (model/C08_Feed.v) driven by RAW client datagrams.  Definitions only.

   core/server/server.go, udpIOImpl.ReceiveMessage:
       msg, err := io.Conn.ReceiveDatagram(ctx)
       udpMsg, err := protocol.ParseUDPMessage(msg)
       if err != nil { continue }                  // invalid message: wait for the next
       ... return udpMsg, nil
   and udpSessionManager.run hands every returned message to feed(msg) -> udpSessionEntry.Feed.
   ParseUDPMessage is C05's `parse` (model/C05_Frag.v); a datagram it rejects never reaches Feed.
   The address type of the session model is instantiated with Go strings (list byte), the empty address with "". *)
From Hy Require Export model.C05_Frag model.C08_Feed.
From Coq Require Import NArith List Bool.
Import ListNotations.

(* what reaches one session, before parsing: the bytes of a client datagram (with the oracles of the session model: dial
   fault, eviction choice, "this Feed's WriteTo fails"), a packet read from the session's socket, a close *)
Inductive raw_input :=
| RDgram (b : list byte) (fault : bool) (ev : list byte) (werr : bool)
| RReply (r : list byte)
| RClose.

(* the part of a parsed UDPMessage the destination policy looks at (payload and session id forgotten) *)
Definition umsg_of (m : msg) : umsg (list byte) := mkU _ (pid m) (fid m) (fcount m) (C05_Frag.addr m).

(* ReceiveMessage's loop: a datagram that does not parse is skipped *)
Definition feed_input (r : raw_input) : list (finput (list byte)) :=
  match r with
  | RDgram b fault ev werr =>
      match parse b with
      | Ok m => [FMsg _ (umsg_of m) fault ev werr]
      | _ => []
      end
  | RReply a => [FReply _ a]
  | RClose => [FClose _]
  end.

Definition feed_inputs (rs : list raw_input) : list (finput (list byte)) := flat_map feed_input rs.

(* Go string equality *)
Fixpoint str_eqb (a b : list byte) : bool :=
  match a, b with
  | [], [] => true
  | x :: a', y :: b' => Byte.eqb x y && str_eqb a' b'
  | _, _ => false
  end.
