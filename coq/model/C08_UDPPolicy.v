(* C08 model: the tail of udpSessionEntry.Feed (core/server/udp.go:96-175,192-197) for ONE session id,
   driven sequentially through udpSessionManager.feed: first-datagram dial (Hook, then UDP), address
   override bookkeeping, the per-session decision cache (checkAddr) with its size cap and Go's
   unspecified-order eviction, the per-datagram forward/drop decision and the address stamped on
   replies.  Definitions only.

   addr      : destination strings (any type with a boolean equality); `empty` is the Go string "".
   P         : the outbound policy.  CheckUDP(a) returns nil iff P a; UDP(a) succeeds iff P a and no
               dial fault is injected (the dial vets the first destination).
   hook      : udpIO.Hook(data, &addr): leaves the address, rewrites it, or returns an error.
   verdicts  : Go `error` values are modelled by their nil-ness (true = nil = allowed). *)
From Hy Require Export lib.Res gen.ParamsC08.
From Coq Require Import NArith List Bool.
Import ListNotations.

Inductive hookres (addr : Type) := HKeep | HRewrite (a' : addr) | HFail.
Arguments HKeep {addr}.
Arguments HRewrite {addr} a'.
Arguments HFail {addr}.

Section C08.
Variable addr : Type.
Variable aeqb : addr -> addr -> bool.
Variable empty : addr.
Variable P : addr -> bool.
Variable hook : addr -> hookres addr.

(* e.aclCache : map[string]error as an association list without duplicate keys ([] also stands for nil) *)
Definition cache := list (addr * bool).

Fixpoint lookup (c : cache) (a : addr) : option bool :=
  match c with
  | [] => None
  | (k, v) :: t => if aeqb k a then Some v else lookup t a
  end.

Fixpoint remove_key (c : cache) (k : addr) : cache :=
  match c with
  | [] => []
  | (k0, v) :: t => if aeqb k0 k then remove_key t k else (k0, v) :: remove_key t k
  end.

Definition has_key (c : cache) (k : addr) : bool :=
  match lookup c k with Some _ => true | None => false end.

(* `for k := range e.aclCache { delete(e.aclCache, k); break }`: Go picks an unspecified existing key.
   The choice is the oracle argument ev; an oracle naming a key that is not in the map falls back to the
   first entry, so the function is total and every real choice is covered. *)
Definition evicted_key (c : cache) (ev : addr) : option addr :=
  match c with
  | [] => None
  | (k0, _) :: _ => Some (if has_key c ev then ev else k0)
  end.

Definition evict (c : cache) (ev : addr) : cache :=
  match evicted_key c ev with
  | None => c
  | Some k => remove_key c k
  end.

Record chk := mkChk { c_verdict : bool; c_cache : cache; c_consulted : bool; c_evicted : option addr }.

(* udp.go:125-141 checkAddr *)
Definition checkAddr (c : cache) (a ev : addr) : chk :=
  match lookup c a with
  | Some v => mkChk v c false None
  | None =>
      let v := P a in                                               (* e.IO.CheckUDP(addr) *)
      let full := (maxSessionACLCache <=? N.of_nat (length c))%N in (* len(e.aclCache) >= maxSessionACLCache *)
      let c1 := if full then evict c ev else c in
      mkChk v ((a, v) :: c1) true (if full then evicted_key c ev else None)
  end.

(* the fields of udpSessionEntry this property depends on, for an entry whose conn is set *)
Record sess := mkSess { s_ov : addr; s_orig : addr; s_cache : cache }.

(* None: no entry for the id in the manager's table (the next datagram creates one with conn == nil) *)
Definition state := option sess.

Inductive input :=
| IDgram (a : addr) (fault : bool) (ev : addr)   (* complete client datagram for destination a *)
| IReply (r : addr)                              (* the session's socket reads a packet from r *)
| IClose.                                        (* the entry is closed and removed (idle expiry) *)

Inductive out := OFwd (x : addr) | ODrop | ODialFail | OReply (x : addr) | ONone.

Record obs := mkObs { o_out : out; o_dialed : option addr; o_consulted : bool; o_evicted : option addr }.

(* udp.go:145-175 initConn with the manager's dialFunc (udp.go:316-328): Hook, then UDP(actual);
   on success the override bookkeeping of lines 166-170 and the cache seed of lines 108-110
   (`e.OriginalAddr == ""` is the "no override" test since the fix bbf8060).
   Second component: the address UDP() was called with, if it was called. *)
Definition dial (a : addr) (fault : bool) : option sess * option addr :=
  match hook a with
  | HFail => (None, None)
  | hr =>
      let actual := match hr with HRewrite a' => a' | _ => a end in
      if P actual && negb fault
      then
        let ov := if aeqb a actual then empty else actual in
        let orig := if aeqb a actual then empty else a in
        (Some (mkSess ov orig (if aeqb orig empty then [(a, true)] else [])), Some actual)
      else (None, Some actual)
  end.

(* udp.go:113-120 *)
Definition feed_tail (s : sess) (a ev : addr) (dialed : option addr) : state * obs :=
  if negb (aeqb (s_orig s) empty)
  then (Some s, mkObs (OFwd (s_ov s)) dialed false None)
  else
    let r := checkAddr (s_cache s) a ev in
    (Some (mkSess (s_ov s) (s_orig s) (c_cache r)),
     mkObs (if c_verdict r then OFwd a else ODrop) dialed (c_consulted r) (c_evicted r)).

Definition step (st : state) (i : input) : state * obs :=
  match i with
  | IDgram a fault ev =>
      match st with
      | Some s => feed_tail s a ev None
      | None =>
          match dial a fault with
          | (Some s, d) => feed_tail s a ev d
          | (None, d) => (None, mkObs ODialFail d false None)   (* CloseWithErr: entry removed *)
          end
      end
  | IReply r =>
      match st with
      | Some s => (st, mkObs (OReply (if aeqb (s_orig s) empty then r else s_orig s)) None false None)
      | None => (None, mkObs ONone None false None)
      end
  | IClose => (None, mkObs ONone None false None)
  end.

Fixpoint run (st : state) (ins : list input) : state * list obs :=
  match ins with
  | [] => (st, [])
  | i :: t => let (st1, o) := step st i in let (st2, os) := run st1 t in (st2, o :: os)
  end.

(* ---- the cache-less reference: the policy is asked for every datagram ---- *)
Definition ref_step (st : state) (i : input) : state * out :=
  match i with
  | IDgram a fault _ =>
      let fwd (s : sess) := if negb (aeqb (s_orig s) empty) then OFwd (s_ov s)
                            else if P a then OFwd a else ODrop in
      match st with
      | Some s => (Some s, fwd s)
      | None =>
          match dial a fault with
          | (Some s, _) => (Some (mkSess (s_ov s) (s_orig s) []), fwd s)
          | (None, _) => (None, ODialFail)
          end
      end
  | IReply r =>
      match st with
      | Some s => (st, OReply (if aeqb (s_orig s) empty then r else s_orig s))
      | None => (None, ONone)
      end
  | IClose => (None, ONone)
  end.

Fixpoint ref_run (st : state) (ins : list input) : list out :=
  match ins with
  | [] => []
  | i :: t => let (st1, o) := ref_step st i in o :: ref_run st1 t
  end.

End C08.

(* ---- specification functions used by the theorem statements (no cache, no hook) ---- *)
Section C08Spec.
Variable addr : Type.
Variable P : addr -> bool.

(* a session without hook: live = an entry with a socket exists *)
Fixpoint spec_nohook (live : bool) (ins : list (input addr)) : list (out addr) :=
  match ins with
  | [] => []
  | IDgram _ a fault _ :: t =>
      if live then (if P a then OFwd _ a else ODrop _) :: spec_nohook true t
      else if P a && negb fault then OFwd _ a :: spec_nohook true t
      else ODialFail _ :: spec_nohook false t
  | IReply _ r :: t => (if live then OReply _ r else ONone _) :: spec_nohook live t
  | IClose _ :: t => ONone _ :: spec_nohook false t
  end.

(* a hooked session whose first destination a was rewritten to a', until it is closed *)
Definition spec_override (a a' : addr) (i : input addr) : out addr :=
  match i with
  | IDgram _ _ _ _ => OFwd _ a'
  | IReply _ _ => OReply _ a
  | IClose _ => ONone _
  end.

Definition is_close (i : input addr) : bool := match i with IClose _ => true | _ => false end.

(* the address of a client datagram is never the empty string: ParseUDPMessage rejects a zero-length address *)
Definition wf_input (empty : addr) (i : input addr) : Prop :=
  match i with IDgram _ a _ _ => a <> empty | _ => True end.
End C08Spec.

(* ---- the code before /repo commit bbf8060 (kept as documentation of the finding): the override test
   was `e.OverrideAddr != ""` in Feed, so a hook rewriting to the empty string switched the override off
   while the original, unchecked destination was seeded into the cache as allowed ---- *)
Section C08Old.
Variable addr : Type.
Variable aeqb : addr -> addr -> bool.
Variable empty : addr.
Variable P : addr -> bool.
Variable hook : addr -> hookres addr.

Definition dial_old (a : addr) (fault : bool) : option (sess addr) * option addr :=
  match hook a with
  | HFail => (None, None)
  | hr =>
      let actual := match hr with HRewrite a' => a' | _ => a end in
      if P actual && negb fault
      then
        let ov := if aeqb a actual then empty else actual in
        let orig := if aeqb a actual then empty else a in
        (Some (mkSess addr ov orig (if aeqb ov empty then [(a, true)] else [])), Some actual)
      else (None, Some actual)
  end.

Definition feed_tail_old (s : sess addr) (a ev : addr) (dialed : option addr) : state addr * obs addr :=
  if negb (aeqb (s_ov addr s) empty)
  then (Some s, mkObs addr (OFwd addr (s_ov addr s)) dialed false None)
  else
    let r := checkAddr addr aeqb P (s_cache addr s) a ev in
    (Some (mkSess addr (s_ov addr s) (s_orig addr s) (c_cache addr r)),
     mkObs addr (if c_verdict addr r then OFwd addr a else ODrop addr) dialed (c_consulted addr r) (c_evicted addr r)).

Definition step_old (st : state addr) (i : input addr) : state addr * obs addr :=
  match i with
  | IDgram _ a fault ev =>
      match st with
      | Some s => feed_tail_old s a ev None
      | None =>
          match dial_old a fault with
          | (Some s, d) => feed_tail_old s a ev d
          | (None, d) => (None, mkObs addr (ODialFail addr) d false None)
          end
      end
  | _ => step addr aeqb empty P hook st i
  end.

Fixpoint run_old (st : state addr) (ins : list (input addr)) : state addr * list (obs addr) :=
  match ins with
  | [] => (st, [])
  | i :: t => let (st1, o) := step_old st i in let (st2, os) := run_old st1 t in (st2, o :: os)
  end.
End C08Old.
