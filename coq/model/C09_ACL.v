(* C09 model: extras/outbounds/acl/compile.go (compiledRule.Match, compiledRuleSetImpl.Match, Compile,
   parseProtoPort, compileHostMatcher), matchers.go (ipMatcher, cidrMatcher, domainMatcher,
   deepMatchRune, allMatcher), the parts of Go's net / net/netip packages those call on text and
   on net.IP values (ParseAddr, ParseIP, ParseCIDR, CIDRMask, IP.Mask, IP.To4, IP.Equal,
   IPNet.Contains) and the hijack / default logic of extras/outbounds/acl.go (outboundsToMap,
   aclEngine.handle).  Definitions only.

   Conventions.  Go strings and net.IP values are [list byte]; a nil (or empty) net.IP is [].
   Host names are ASCII (the property's grammar clause), so []rune(name) is the byte list and
   strings.ToLower is the ASCII map.  idna.ToUnicode is the identity on names none of whose labels
   starts with "xn--" (x/net/idna Punycode profile: labelIter.set is only called for such labels;
   on error the code falls back to the unchanged name) - the generator stays inside that set.
   geoip: / geosite: patterns need a database: compile returns [Err EOther] for them ("outside the model").
   Outbounds are numbers; [None] is the zero value of the type parameter O ("no rule matched").
   The decision cache (hashicorp/golang-lru) is a finite map with an arbitrary eviction oracle.
   The rule-file parser (parse.go) is model/C09_Text.v, net.IP.String is model/C09_IPString.v. *)
From Hy Require Export lib.Bytes lib.Res gen.ParamsC09.
From Coq Require Import ZArith.
Local Open Scope N_scope.

Definition str := list byte.
Definition ip := list byte.

(* ---------- byte / string helpers (ASCII) ---------- *)

Fixpoint beqb (a b : list byte) : bool :=
  match a, b with
  | [], [] => true
  | x :: a', y :: b' => Byte.eqb x y && beqb a' b'
  | _, _ => false
  end.

Definition is_digit (c : byte) : bool := (48 <=? b2n c) && (b2n c <=? 57).
Definition digit_val (c : byte) : N := b2n c - 48.

(* strings.ToLower on ASCII *)
Definition lower (c : byte) : byte :=
  if (65 <=? b2n c) && (b2n c <=? 90) then n2b (b2n c + 32) else c.
Definition to_lower (s : str) : str := map lower s.

(* strings.TrimRight(s, ".") *)
Fixpoint trim_right_dots (s : str) : str :=
  match s with
  | [] => []
  | c :: t =>
      match trim_right_dots t with
      | [] => if Byte.eqb c "."%byte then [] else [c]
      | t' => c :: t'
      end
  end.

(* the normalisation applied to rule patterns and to query names *)
Definition norm_name (s : str) : str := trim_right_dots (to_lower s).

(* strings.TrimSpace on ASCII: \t \n \v \f \r and space *)
Definition is_space (c : byte) : bool := ((9 <=? b2n c) && (b2n c <=? 13)) || (b2n c =? 32).
Fixpoint trim_left_space (s : str) : str :=
  match s with
  | c :: t => if is_space c then trim_left_space t else s
  | [] => []
  end.
Fixpoint trim_right_space (s : str) : str :=
  match s with
  | [] => []
  | c :: t =>
      match trim_right_space t with
      | [] => if is_space c then [] else [c]
      | t' => c :: t'
      end
  end.
Definition trim_space (s : str) : str := trim_right_space (trim_left_space s).

(* strings.SplitN(s, sep, 2) / strings.Cut for a one-byte separator: None = separator absent *)
Fixpoint cut (sep : byte) (s : str) : option (str * str) :=
  match s with
  | [] => None
  | c :: t =>
      if Byte.eqb c sep then Some ([], t)
      else match cut sep t with Some (a, b) => Some (c :: a, b) | None => None end
  end.

Fixpoint has_byte (c : byte) (s : str) : bool :=
  match s with [] => false | d :: t => Byte.eqb d c || has_byte c t end.

Fixpoint has_prefix (p s : str) : bool :=
  match p, s with
  | [], _ => true
  | x :: p', y :: s' => Byte.eqb x y && has_prefix p' s'
  | _ :: _, [] => false
  end.

(* strings.HasSuffix *)
Definition has_suffix (s suf : str) : bool :=
  Nat.leb (length suf) (length s) && beqb (skipn (length s - length suf) s) suf.

(* ---------- net.IP ---------- *)

Definition v4in6_prefix : list byte := [x00;x00;x00;x00;x00;x00;x00;x00;x00;x00;xff;xff].

Definition band (a b : byte) : byte := n2b (N.land (b2n a) (b2n b)).
Fixpoint map2_band (a m : list byte) : list byte :=
  match a, m with
  | x :: a', y :: m' => band x y :: map2_band a' m'
  | _, _ => []
  end.

(* IP.To4: None is the nil result *)
Definition to4 (a : ip) : option ip :=
  if Nat.eqb (length a) 4 then Some a
  else if Nat.eqb (length a) 16 && beqb (firstn 12 a) v4in6_prefix then Some (skipn 12 a)
  else None.

(* IP.Equal *)
Definition ip_equal (a x : ip) : bool :=
  if Nat.eqb (length a) (length x) then beqb a x
  else if Nat.eqb (length a) 4 && Nat.eqb (length x) 16
       then beqb (firstn 12 x) v4in6_prefix && beqb a (skipn 12 x)
  else if Nat.eqb (length a) 16 && Nat.eqb (length x) 4
       then beqb (firstn 12 a) v4in6_prefix && beqb (skipn 12 a) x
  else false.

(* net.CIDRMask(ones, bits), bits is 32 or 128, 0 <= ones <= bits *)
Fixpoint cidr_mask_bytes (l : nat) (n : N) : list byte :=
  match l with
  | O => []
  | S k =>
      if 8 <=? n then xff :: cidr_mask_bytes k (n - 8)
      else n2b (255 - (255 / 2 ^ n)) :: cidr_mask_bytes k 0   (* ^byte(0xff >> n) *)
  end.
Definition cidr_mask (ones bits : N) : list byte := cidr_mask_bytes (N.to_nat (bits / 8)) ones.

Definition all_ff (m : list byte) : bool := forallb (fun c => Byte.eqb c xff) m.

(* IP.Mask: [] is the nil result *)
Definition ip_mask (a : ip) (m : list byte) : ip :=
  let m1 := if Nat.eqb (length m) 16 && Nat.eqb (length a) 4 && all_ff (firstn 12 m) then skipn 12 m else m in
  let a1 := if Nat.eqb (length m1) 4 && Nat.eqb (length a) 16 && beqb (firstn 12 a) v4in6_prefix then skipn 12 a else a in
  if Nat.eqb (length a1) (length m1) then map2_band a1 m1 else [].

(* networkNumberAndMask *)
Definition net_num_mask (nip : ip) (m : list byte) : ip * list byte :=
  match (match to4 nip with
         | Some x => Some x
         | None => if Nat.eqb (length nip) 16 then Some nip else None
         end) with
  | None => ([], [])
  | Some a =>
      if Nat.eqb (length m) 4 then (if Nat.eqb (length a) 4 then (a, m) else ([], []))
      else if Nat.eqb (length m) 16 then (if Nat.eqb (length a) 4 then (a, skipn 12 m) else (a, m))
      else ([], [])
  end.

(* IPNet.Contains; the loop indexes nn, m and ip up to len(ip) = len(nn); a mask shorter than that
   would be an index panic in Go - it cannot arise from net_num_mask, the model then answers false *)
Fixpoint contains_loop (nn m x : list byte) : bool :=
  match nn, m, x with
  | [], _, [] => true
  | a :: nn', c :: m', b :: x' => Byte.eqb (band a c) (band b c) && contains_loop nn' m' x'
  | _, _, _ => false
  end.
Definition ipnet_contains (nip : ip) (mask : list byte) (x : ip) : bool :=
  let '(nn, m) := net_num_mask nip mask in
  let x1 := match to4 x with Some y => y | None => x end in
  if Nat.eqb (length x1) (length nn) then contains_loop nn m x1 else false.

(* ---------- netip.ParseAddr (as used by net.ParseIP and net.ParseCIDR) ---------- *)

(* parseIPv4Fields: [first] = at index 0, [prevdot] = previous byte was '.', fields = finished octets *)
Fixpoint v4_loop (s : str) (first prevdot : bool) (val diglen : N) (fields : list byte)
  : option (list byte) :=
  match s with
  | [] => if Nat.ltb (length fields) 3 then None else Some (fields ++ [n2b val])
  | c :: t =>
      if is_digit c then
        if (diglen =? 1) && (val =? 0) then None
        else let v := val * 10 + digit_val c in
             if 255 <? v then None else v4_loop t false false v (diglen + 1) fields
      else if Byte.eqb c "."%byte then
        if first || (match t with [] => true | _ => false end) || prevdot then None
        else if Nat.eqb (length fields) 3 then None
        else v4_loop t false true 0 0 (fields ++ [n2b val])
      else None
  end.
Definition parse_ipv4_fields (s : str) : option (list byte) := v4_loop s true false 0 0 [].

Definition hex_val (c : byte) : option N :=
  let n := b2n c in
  if (48 <=? n) && (n <=? 57) then Some (n - 48)
  else if (97 <=? n) && (n <=? 102) then Some (n - 87)
  else if (65 <=? n) && (n <=? 70) then Some (n - 55)
  else None.

(* the inner hex-number loop: Some (off, acc, rest) or None = failure *)
Fixpoint hex_group (s : str) (off : nat) (acc : N) : option (nat * N * str) :=
  match s with
  | c :: t =>
      match hex_val c with
      | Some v =>
          let acc' := acc * 16 + v in
          if Nat.ltb 3 off then None
          else if 65535 <? acc' then None
          else hex_group t (S off) acc'
      | None => Some (off, acc, s)
      end
  | [] => Some (off, acc, s)
  end.

(* the for i < 16 loop of parseIPv6; result = state at loop exit (s, i, ip[0:i], ellipsis) *)
Fixpoint v6_loop (fuel : nat) (s : str) (i : nat) (ipb : list byte) (ell : option nat)
  : option (str * nat * list byte * option nat) :=
  match fuel with
  | O => None
  | S f =>
      if Nat.leb 16 i then Some (s, i, ipb, ell) else
      match hex_group s 0 0 with
      | None => None
      | Some (off, acc, rest) =>
          if Nat.eqb off 0 then None else
          if (match rest with c :: _ => Byte.eqb c "."%byte | [] => false end) then
            if (match ell with None => true | Some _ => false end) && negb (Nat.eqb i 12) then None
            else if Nat.ltb 16 (i + 4) then None
            else match parse_ipv4_fields s with
                 | None => None
                 | Some fl => Some ([], (i + 4)%nat, ipb ++ fl, ell)
                 end
          else
            let ipb' := ipb ++ [n2b (acc / 256); n2b acc] in
            let i' := (i + 2)%nat in
            match rest with
            | [] => Some ([], i', ipb', ell)
            | c :: r1 =>
                if negb (Byte.eqb c ":"%byte) then None else
                match r1 with
                | [] => None
                | c2 :: r2 =>
                    if Byte.eqb c2 ":"%byte then
                      match ell with
                      | Some _ => None
                      | None =>
                          match r2 with
                          | [] => Some ([], i', ipb', Some i')
                          | _ => v6_loop f r2 i' ipb' (Some i')
                          end
                      end
                    else v6_loop f r1 i' ipb' ell
                end
            end
      end
  end.

Definition zeros (n : nat) : list byte := repeat x00 n.

(* parseIPv6 on a string without '%' *)
Definition parse_ipv6 (s0 : str) : option (list byte) :=
  let lead := match s0 with
              | c1 :: c2 :: t => Byte.eqb c1 ":"%byte && Byte.eqb c2 ":"%byte
              | _ => false
              end in
  let s := if lead then skipn 2 s0 else s0 in
  let ell0 := if lead then Some O else None in
  if lead && Nat.eqb (length s) 0 then Some (zeros 16) else
  match v6_loop 10 s 0 [] ell0 with
  | None => None
  | Some (rest, i, ipb, ell) =>
      if negb (Nat.eqb (length rest) 0) then None
      else if Nat.ltb i 16 then
        match ell with
        | None => None
        | Some e => Some (firstn e ipb ++ zeros (16 - i) ++ skipn e ipb)
        end
      else match ell with Some _ => None | None => Some ipb end
  end.

Fixpoint first_sep (s : str) : option byte :=
  match s with
  | [] => None
  | c :: t =>
      if Byte.eqb c "."%byte || Byte.eqb c ":"%byte || Byte.eqb c "%"%byte then Some c else first_sep t
  end.

(* netip.ParseAddr followed by the callers' "Zone() != \"\" is an error": (is4, bytes).
   Any '%' makes the result unusable: before a '.' or ':' it is "missing IPv6 address", inside a
   dotted quad an unexpected character, in an IPv6 text an (empty = error, non-empty = rejected) zone. *)
Definition parse_addr (s : str) : option (bool * list byte) :=
  match first_sep s with
  | Some c =>
      if Byte.eqb c "."%byte then
        match parse_ipv4_fields s with Some f => Some (true, f) | None => None end
      else if Byte.eqb c ":"%byte then
        if has_byte "%"%byte s then None
        else match parse_ipv6 s with Some a => Some (false, a) | None => None end
      else None
  | None => None
  end.

Definition as16 (r : bool * list byte) : ip := if fst r then v4in6_prefix ++ snd r else snd r.

(* net.ParseIP: 16 bytes or None (nil) *)
Definition parse_ip (s : str) : option ip := option_map as16 (parse_addr s).

(* decimal value of a non-empty all-digit string *)
Fixpoint dec_val (s : str) (acc : N) : option N :=
  match s with
  | [] => Some acc
  | c :: t => if is_digit c then dec_val t (acc * 10 + digit_val c) else None
  end.
Definition parse_dec (s : str) : option N := match s with [] => None | _ => dec_val s 0 end.

(* net.ParseCIDR: Some (IPNet.IP, IPNet.Mask).  dtoi's early exit at 0xFFFFFF is subsumed by n <= bits *)
Definition parse_cidr (s : str) : option (ip * list byte) :=
  match cut "/"%byte s with
  | None => None
  | Some (a, m) =>
      match parse_addr a with
      | None => None
      | Some r =>
          let bits := if fst r then 32 else 128 in
          match parse_dec m with
          | None => None
          | Some n =>
              if bits <? n then None
              else let mk := cidr_mask n bits in Some (ip_mask (as16 r) mk, mk)
          end
      end
  end.

(* strconv.ParseUint(s, 10, 16) *)
Definition parse_uint16 (s : str) : option N :=
  match parse_dec s with
  | Some n => if n <=? 65535 then Some n else None
  | None => None
  end.

(* ---------- rules ---------- *)

Inductive matcher :=
| MAll
| MExact (p : str)
| MSuffix (p : str)
| MWild (p : str)
| MIP (a : ip)
| MCIDR (nip : ip) (mask : list byte).

Record rule := mkRule {
  r_ob : N;            (* the outbound (a value of the type parameter O) *)
  r_m : matcher;
  r_proto : N;         (* Protocol *)
  r_sp : N;            (* StartPort uint16 *)
  r_ep : N;            (* EndPort uint16 *)
  r_hijack : ip }.     (* HijackAddress; [] = nil *)

Record host := mkHost { h_name : str; h_v4 : ip; h_v6 : ip }.

(* deepMatchRune(str, pattern): recursion on the pattern, inner recursion on the string for '*' *)
Fixpoint deep_match (pat : str) : str -> bool :=
  match pat with
  | [] => fun s => match s with [] => true | _ => false end
  | c :: pat' =>
      if Byte.eqb c "*"%byte then
        fix star (s : str) : bool :=
          deep_match pat' s || match s with [] => false | _ :: s' => star s' end
      else
        fun s => match s with [] => false | d :: s' => Byte.eqb d c && deep_match pat' s' end
  end.

Definition suffix_match (pat name : str) : bool :=
  beqb name pat || has_suffix name ("."%byte :: pat).

Definition matcher_match (m : matcher) (h : host) : bool :=
  match m with
  | MAll => true
  | MExact p => beqb (h_name h) p
  | MSuffix p => suffix_match p (h_name h)
  | MWild p => deep_match p (h_name h)
  | MIP a => ip_equal a (h_v4 h) || ip_equal a (h_v6 h)
  | MCIDR n m => ipnet_contains n m (h_v4 h) || ipnet_contains n m (h_v6 h)
  end.

(* compiledRule.Match *)
Definition rule_match (r : rule) (h : host) (proto port : N) : bool :=
  if negb (r_proto r =? ProtocolBoth) && negb (r_proto r =? proto) then false
  else if (port <? r_sp r) || (r_ep r <? port) then false
  else matcher_match (r_m r) h.

(* the predicate the code had before commit 8f1e451 (kept for the refutation lemma only) *)
Definition rule_match_old (r : rule) (h : host) (proto port : N) : bool :=
  if negb (r_proto r =? ProtocolBoth) && negb (r_proto r =? proto) then false
  else if negb (r_sp r =? 0) && ((port <? r_sp r) || (r_ep r <? port)) then false
  else matcher_match (r_m r) h.

Definition result := (option N * ip)%type.   (* (outbound or zero value, hijack address or nil) *)

(* the for-loop of compiledRuleSetImpl.Match on the normalised host *)
Fixpoint first_match (rs : list rule) (h : host) (proto port : N) : result :=
  match rs with
  | [] => (None, [])
  | r :: t => if rule_match r h proto port then (Some (r_ob r), r_hijack r) else first_match t h proto port
  end.

Definition norm_host (h : host) : host := mkHost (norm_name (h_name h)) (h_v4 h) (h_v6 h).

Record query := mkQuery { q_host : host; q_proto : N; q_port : N }.

(* what a lookup returns when nothing is cached *)
Definition fresh (rs : list rule) (q : query) : result :=
  first_match rs (norm_host (q_host q)) (q_proto q) (q_port q).

(* ---------- the decision cache ---------- *)

Definition key := (str * N * N)%type.          (* matchResultCacheKey{Host, Proto, Port} *)

Definition key_eqb (a b : key) : bool :=
  beqb (fst (fst a)) (fst (fst b)) && (snd (fst a) =? snd (fst b)) && (snd a =? snd b).

Definition cache := list (key * result).

Fixpoint cache_get (c : cache) (k : key) : option result :=
  match c with
  | [] => None
  | (k', r) :: t => if key_eqb k' k then Some r else cache_get t k
  end.

Definition cache_remove (c : cache) (k : key) : cache := filter (fun e => negb (key_eqb (fst e) k)) c.

Fixpoint key_mem (k : key) (l : list key) : bool :=
  match l with [] => false | x :: t => key_eqb x k || key_mem k t end.

Section Cached.
  (* net.IP.String(): a parameter of this section, the theorems of proof/C09_ACL.v state what they need of it;
     model/C09_IPString.v is the rendering Go performs and proof/C09_IPString.v proves those needs of it, so
     props/C09.v instantiates the cache theorems without hypotheses *)
  Variable ip_str : ip -> str.
  (* the eviction oracle: at step n, with the cache holding c, the keys in [pol n c] are dropped.
     Every behaviour of an LRU of any capacity (and of any other replacement policy, a purge, ...) is
     one such oracle. *)
  Variable pol : nat -> cache -> list key.

  (* HostInfo.String() *)
  Definition host_string (h : host) : str :=
    h_name h ++ "|"%byte :: ip_str (h_v4 h) ++ "|"%byte :: ip_str (h_v6 h).

  Definition mk_key (q : query) : key := (host_string (norm_host (q_host q)), q_proto q, q_port q).

  Definition evict (n : nat) (c : cache) : cache :=
    filter (fun e => negb (key_mem (fst e) (pol n c))) c.

  (* compiledRuleSetImpl.Match: Get; on a miss scan and Add (a miss result is cached too);
     the oracle may evict after every step *)
  Definition match_step (rs : list rule) (n : nat) (c : cache) (q : query) : cache * result :=
    let k := mk_key q in
    match cache_get c k with
    | Some r => (evict n c, r)
    | None =>
        let r := fresh rs q in
        (evict n ((k, r) :: cache_remove c k), r)
    end.

  Fixpoint run_from (rs : list rule) (n : nat) (c : cache) (qs : list query) : list result :=
    match qs with
    | [] => []
    | q :: t => let '(c', r) := match_step rs n c q in r :: run_from rs (S n) c' t
    end.

  (* the answers of one compiled rule set to a whole history of lookups, starting from an empty cache *)
  Definition run (rs : list rule) (qs : list query) : list result := run_from rs 0 [] qs.

  (* Concurrent callers: Match is not one atomic section but Cache.Get, then (on a miss) the scan of
     the immutable rule slice, then Cache.Add, each cache call atomic under the library's mutex.  An
     interleaving of any number of Match calls plus evictions is a sequence of these cache operations;
     a call answers either the value its Get returned or the fresh evaluation it then Adds. *)
  Inductive cop :=
  | OGet (q : query)            (* Cache.Get(key q): the observation is the hit value, if any *)
  | OAdd (q : query)            (* Cache.Add(key q, scan result) by a caller whose Get missed *)
  | OEvict (ks : list key).     (* the library drops entries *)

  Definition cop_step (rs : list rule) (c : cache) (o : cop) : cache * option (query * result) :=
    match o with
    | OGet q => (c, match cache_get c (mk_key q) with Some r => Some (q, r) | None => None end)
    | OAdd q => ((mk_key q, fresh rs q) :: cache_remove c (mk_key q), None)
    | OEvict ks => (filter (fun e => negb (key_mem (fst e) ks)) c, None)
    end.

  (* all hit values observed along a sequence of cache operations *)
  Fixpoint cop_hits (rs : list rule) (c : cache) (os : list cop) : list (query * result) :=
    match os with
    | [] => []
    | o :: t =>
        let '(c', obs) := cop_step rs c o in
        match obs with Some x => x :: cop_hits rs c' t | None => cop_hits rs c' t end
    end.
End Cached.

(* ---------- the text front end ---------- *)

Record trule := mkTRule { t_ob : str; t_addr : str; t_pp : str; t_hijack : str }.

Definition s_all : str := ["a"%byte;"l"%byte;"l"%byte].
Definition s_star : str := ["*"%byte].
Definition s_starstar : str := ["*"%byte;"/"%byte;"*"%byte].
Definition s_tcp : str := ["t"%byte;"c"%byte;"p"%byte].
Definition s_udp : str := ["u"%byte;"d"%byte;"p"%byte].
Definition s_geoip : str := ["g"%byte;"e"%byte;"o"%byte;"i"%byte;"p"%byte;":"%byte].
Definition s_geosite : str := ["g"%byte;"e"%byte;"o"%byte;"s"%byte;"i"%byte;"t"%byte;"e"%byte;":"%byte].
Definition s_suffix : str := ["s"%byte;"u"%byte;"f"%byte;"f"%byte;"i"%byte;"x"%byte;":"%byte].

(* parseProtoPort: Some (proto, start, end) or None (= !ok) *)
Definition parse_proto_port (pp0 : str) : option (N * N * N) :=
  let pp := to_lower pp0 in
  if beqb pp [] || beqb pp s_star || beqb pp s_starstar then Some (ProtocolBoth, 0, 65535)
  else
    match cut "/"%byte pp with
    | None =>
        if beqb pp s_tcp then Some (ProtocolTCP, 0, 65535)
        else if beqb pp s_udp then Some (ProtocolUDP, 0, 65535)
        else None
    | Some (p0, p1) =>
        match (if beqb p0 s_tcp then Some ProtocolTCP
               else if beqb p0 s_udp then Some ProtocolUDP
               else if beqb p0 s_star then Some ProtocolBoth else None) with
        | None => None
        | Some proto =>
            if beqb p1 s_star then Some (proto, 0, 65535)
            else
              match cut "-"%byte (trim_space p1) with
              | None =>
                  (* a single port: the code parses parts[1] itself, not the trimmed copy *)
                  match parse_uint16 p1 with
                  | Some p => Some (proto, p, p)
                  | None => None
                  end
              | Some (a, b) =>
                  match parse_uint16 a, parse_uint16 b with
                  | Some s, Some e => if e <? s then None else Some (proto, s, e)
                  | _, _ => None
                  end
              end
        end
    end.

(* compileHostMatcher: Ok matcher | Err EInvalid (error string) | Err EOther (geoip/geosite: not modelled) *)
Definition compile_host_matcher (addr0 : str) : Res matcher :=
  let addr := norm_name addr0 in
  if beqb addr s_star || beqb addr s_all then Ok MAll
  else if has_prefix s_geoip addr then Err EOther
  else if has_prefix s_geosite addr then Err EOther
  else if has_prefix s_suffix addr then
    let suf := skipn 7 addr in
    if Nat.eqb (length suf) 0 then Err EInvalid else Ok (MSuffix suf)
  else if has_byte "/"%byte addr then
    match parse_cidr addr with
    | Some (nip, mk) => Ok (MCIDR nip mk)
    | None => Err EInvalid
    end
  else match parse_ip addr with
       | Some a => Ok (MIP a)
       | None => if has_byte "*"%byte addr then Ok (MWild addr) else Ok (MExact addr)
       end.

(* the outbounds map: keys are used as given (Compile's contract: lower case); later entries of the
   association list do not shadow earlier ones - build it with [map_set] to get Go's m[k] = v *)
Definition obmap := list (str * N).
Fixpoint map_get (m : obmap) (k : str) : option N :=
  match m with
  | [] => None
  | (k', v) :: t => if beqb k' k then Some v else map_get t k
  end.
Definition map_set (m : obmap) (k : str) (v : N) : obmap :=
  (k, v) :: filter (fun e => negb (beqb (fst e) k)) m.

Definition compile_rule (obs : obmap) (t : trule) : Res rule :=
  match map_get obs (to_lower (t_ob t)) with
  | None => Err EInvalid
  | Some ob =>
      m <- compile_host_matcher (t_addr t) ;;
      match parse_proto_port (t_pp t) with
      | None => Err EInvalid
      | Some (proto, sp, ep) =>
          if Nat.eqb (length (t_hijack t)) 0 then Ok (mkRule ob m proto sp ep [])
          else match parse_ip (t_hijack t) with
               | None => Err EInvalid
               | Some hj => Ok (mkRule ob m proto sp ep hj)
               end
      end
  end.

Fixpoint compile_rules (obs : obmap) (ts : list trule) : Res (list rule) :=
  match ts with
  | [] => Ok []
  | t :: rest =>
      r <- compile_rule obs t ;;
      rs <- compile_rules obs rest ;;
      Ok (r :: rs)
  end.

(* Compile: rules in order, then lru.New(cacheSize), which fails for a size <= 0 *)
Definition compile (obs : obmap) (ts : list trule) (cache_size : Z) : Res (list rule) :=
  rs <- compile_rules obs ts ;;
  if (cache_size <=? 0)%Z then Err EInvalid else Ok rs.

(* ---------- extras/outbounds/acl.go ---------- *)

Definition s_direct : str := ["d"%byte;"i"%byte;"r"%byte;"e"%byte;"c"%byte;"t"%byte].
Definition s_reject : str := ["r"%byte;"e"%byte;"j"%byte;"e"%byte;"c"%byte;"t"%byte].
Definition s_default : str := ["d"%byte;"e"%byte;"f"%byte;"a"%byte;"u"%byte;"l"%byte;"t"%byte].

(* outboundsToMap: entries (name, outbound) in list order; [direct] and [reject] are the built-in
   outbound objects *)
Definition outbounds_to_map (entries : list (str * N)) (direct reject : N) : obmap :=
  let m0 := fold_left (fun m e => map_set m (to_lower (fst e)) (snd e)) entries [] in
  let m1 := match map_get m0 s_direct with Some _ => m0 | None => map_set m0 s_direct direct end in
  let m2 := match map_get m1 s_reject with Some _ => m1 | None => map_set m1 s_reject reject end in
  match map_get m2 s_default with
  | Some _ => m2
  | None =>
      match entries with
      | e :: _ => map_set m2 s_default (snd e)
      | [] => map_set m2 s_default (match map_get m2 s_direct with Some d => d | None => direct end)
      end
  end.

Record reqaddr := mkReq { ra_host : str; ra_port : N; ra_res : option (ip * ip) }.

(* what handle does to the request: left alone, or Host := hijackIP.String() and a new ResolveInfo *)
Inductive rewrite := RwNone | RwHijack (hostip : ip) (v4 v6 : ip).

Definition req_host (a : reqaddr) : host :=
  match ra_res a with
  | Some (v4, v6) => mkHost (ra_host a) v4 v6
  | None => mkHost (ra_host a) [] []
  end.

(* aclEngine.handle given the answer of RuleSet.Match *)
Definition handle_result (dflt : N) (res : result) : N * rewrite :=
  match res with
  | (None, _) => (dflt, RwNone)
  | (Some ob, hj) =>
      if Nat.eqb (length hj) 0 then (ob, RwNone)
      else match to4 hj with
           | Some x => (ob, RwHijack hj x [])
           | None => (ob, RwHijack hj [] hj)
           end
  end.

Definition engine_handle (rs : list rule) (dflt : N) (a : reqaddr) (proto : N) : N * rewrite :=
  handle_result dflt (fresh rs (mkQuery (req_host a) proto (ra_port a))).
