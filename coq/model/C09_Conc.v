(* C09 model, concurrent callers of compiledRuleSetImpl.Match as a labelled transition system.
   Definitions only.

   One call of Match is, in program order:
     (1) Cache.Get(key)                 - atomic under the library's mutex; a hit returns at once;
     (2) the scan of s.Rules            - the slice is never written after Compile, so the scan reads
                                          no shared mutable state and its result is [fresh rs q];
     (3) Cache.Add(key, scan result)    - atomic under the library's mutex; the value handed to Add is
                                          the FINAL result (a value, copied into the cache), nothing
                                          writes to it afterwards;
     (4) return the scan result.
   So a call has exactly two atomic sections that touch shared state, (1) and (3), and the state of a
   call between them is just "Get missed, Add pending".  A global state is the cache plus the states of
   all calls in flight; a schedule is any sequence of: a new call enters, call i performs its next
   atomic section, the library drops entries.

   A change of the code that publishes an entry before it is final (Add of a placeholder that is
   filled in later, a pointer shared between the cache and the scanning call, ...) is NOT an
   instance of this step relation: [thread_step] only ever adds [fresh rs q].  The correspondence
   check therefore rejects it: the harness parks a call inside step (2) (a gate around a rule's
   matcher), runs other calls to completion meanwhile, and every observed answer is compared with
   the answer of this LTS run on the observed schedule. *)
From Hy Require Import model.C09_ACL.
From Coq Require Import ZArith.
Local Open Scope N_scope.

Inductive tstate :=
| TStart (q : query)               (* entered Match, Cache.Get not yet done *)
| TScan (q : query)                (* Get missed: scanning, Cache.Add(key, fresh) pending *)
| TDone (q : query) (r : result).  (* returned r *)

Inductive cev :=
| ESpawn (q : query)               (* a new caller enters Match(q) *)
| EStep (i : nat)                  (* caller i performs its next atomic section *)
| EEvict (ks : list key).          (* the library drops entries (any replacement policy, a purge) *)

Fixpoint set_nth {A} (i : nat) (x : A) (l : list A) : list A :=
  match l, i with
  | [], _ => []
  | _ :: t, O => x :: t
  | y :: t, S j => y :: set_nth j x t
  end.

Section Conc.
  Variable ip_str : ip -> str.
  (* eviction applied by the library inside Add (capacity); any function is allowed *)
  Variable pol : cache -> list key.

  Definition thread_step (rs : list rule) (c : cache) (t : tstate) : cache * tstate :=
    match t with
    | TStart q =>
        match cache_get c (mk_key ip_str q) with
        | Some r => (c, TDone q r)
        | None => (c, TScan q)
        end
    | TScan q =>
        let c1 := (mk_key ip_str q, fresh rs q) :: cache_remove c (mk_key ip_str q) in
        (filter (fun e => negb (key_mem (fst e) (pol c1))) c1, TDone q (fresh rs q))
    | TDone q r => (c, TDone q r)
    end.

  Definition conc_step (rs : list rule) (st : cache * list tstate) (e : cev) : cache * list tstate :=
    let '(c, ts) := st in
    match e with
    | ESpawn q => (c, ts ++ [TStart q])
    | EStep i =>
        match nth_error ts i with
        | Some t => let '(c', t') := thread_step rs c t in (c', set_nth i t' ts)
        | None => (c, ts)
        end
    | EEvict ks => (filter (fun e => negb (key_mem (fst e) ks)) c, ts)
    end.

  Definition conc_run (rs : list rule) (es : list cev) : cache * list tstate :=
    fold_left (conc_step rs) es ([], []).

  (* the answer of every caller that has returned *)
  Definition answers (ts : list tstate) : list (option (query * result)) :=
    map (fun t => match t with TDone q r => Some (q, r) | _ => None end) ts.
End Conc.
