(* C09 model, engine adapter: extras/outbounds/acl.go aclEngine.handle / TCP / UDP / CheckUDP as the callers
   of the engine use them, i.e. on an AddrEx whose ResolveInfo is the record {IPv4, IPv6, Err} handed over by a
   resolver.  ResolveInfo documents that "there could be an error but also some resolved IP addresses" (the
   resolvers query A and AAAA independently): the error is carried along, it is NOT consulted by handle -

       hostInfo := acl.HostInfo{Name: reqAddr.Host}
       if reqAddr.ResolveInfo != nil { hostInfo.IPv4 = ...IPv4; hostInfo.IPv6 = ...IPv6 }

   so the lookup is made on exactly (Host, ResolveInfo.IPv4, ResolveInfo.IPv6).  Definitions only.

   Err is abstracted to "nil or not" (a bool); outbounds are numbers as in model/C09_ACL.v; the three entry
   points differ in the protocol they look up (TCP: ProtocolTCP; UDP and CheckUDP: ProtocolUDP) and in the method
   of the chosen outbound they call with the (possibly rewritten) request. *)
From Hy Require Import model.C09_ACL.
From Coq Require Import ZArith.
Local Open Scope N_scope.

Record rinfo := mkRI { ri_v4 : ip; ri_v6 : ip; ri_err : bool }.

(* AddrEx{Host, Port, ResolveInfo}; ResolveInfo may be nil *)
Record reqx := mkReqX { rx_host : str; rx_port : N; rx_ri : option rinfo }.

(* the HostInfo handle builds: the two address slots are copied whatever Err is *)
Definition reqx_host (a : reqx) : host :=
  match rx_ri a with
  | Some ri => mkHost (rx_host a) (ri_v4 ri) (ri_v6 ri)
  | None => mkHost (rx_host a) [] []
  end.

(* the request of model/C09_ACL.v (no error field) that handle reads *)
Definition reqx_forget (a : reqx) : reqaddr :=
  mkReq (rx_host a) (rx_port a) (match rx_ri a with Some ri => Some (ri_v4 ri, ri_v6 ri) | None => None end).

Inductive eop := OpTCP | OpUDP | OpCheckUDP.

Definition op_proto (o : eop) : N :=
  match o with OpTCP => ProtocolTCP | OpUDP => ProtocolUDP | OpCheckUDP => ProtocolUDP end.

Section WithIPString.
  Variable ip_str : ip -> str.     (* net.IP.String, model/C09_IPString.v *)

  (* the request as the chosen outbound receives it: untouched (same ResolveInfo, error included), or
     Host := hijackIP.String() and a NEW ResolveInfo with the one slot of the hijack address and no error *)
  Definition reqx_after (a : reqx) (rw : rewrite) : reqx :=
    match rw with
    | RwNone => a
    | RwHijack hj v4 v6 => mkReqX (ip_str hj) (rx_port a) (Some (mkRI v4 v6 false))
    end.

  (* aclEngine.TCP / UDP / CheckUDP: (outbound chosen, method called on it, request it is called with) *)
  Definition engine_call (rs : list rule) (dflt : N) (a : reqx) (op : eop) : N * eop * reqx :=
    let d := engine_handle rs dflt (reqx_forget a) (op_proto op) in
    (fst d, op, reqx_after a (snd d)).
End WithIPString.

(* what an observer outside sees of the call: the built-in reject outbound does nothing but return errRejected
   (no method of any other outbound runs); every other outbound is entered through the method of the entry point *)
Definition dispatched (reject : N) (ob : N) (op : eop) : option eop :=
  if ob =? reject then None else Some op.
