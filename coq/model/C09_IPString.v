(* C09 model, net.IP.String() as Go 1.25 implements it (net/ip.go: IP.String, IP.appendTo, hexString;
   net/netip/netip.go: Addr.AppendTo, appendTo4, appendDecimal, appendTo6, appendHex).  It is what
   HostInfo.String() = fmt.Sprintf("%s|%s|%s", Name, IPv4, IPv6) prints for the two address slots, so it
   is a component of the decision-cache key.  Definitions only.

     len(ip) == 0                 "<nil>"
     len(ip) not 4 and not 16     "?" + lower-case hex of every byte
     ip.To4() != nil              dotted decimal, no leading zeros (4-byte and v4-mapped 16-byte forms alike)
     otherwise (16 bytes)         RFC 5952 text: eight 16-bit groups in lower-case hex without leading
                                  zeros, the LEFTMOST LONGEST run of at least two zero groups replaced by "::"
                                  (a v4-mapped address never reaches this branch: To4 succeeded).

   appendTo6's second loop (for i < 8: at i = zeroStart append "::" and jump to zeroEnd, else a ':' before
   every group but the first) is written in closed form: groups before the run joined by ':', then "::",
   then the groups after the run joined by ':'. *)
From Hy Require Import model.C09_ACL.
Local Open Scope N_scope.

(* "0123456789abcdef"[n] *)
Definition hexd (n : N) : byte := if n <? 10 then n2b (48 + n) else n2b (87 + n).

(* hexString *)
Fixpoint hex_string (l : list byte) : str :=
  match l with
  | [] => []
  | b :: t => hexd (b2n b / 16) :: hexd (b2n b mod 16) :: hex_string t
  end.

(* appendDecimal(b, x uint8) *)
Definition dec8 (x : N) : str :=
  (if 100 <=? x then [hexd (x / 100)] else []) ++
  (if 10 <=? x then [hexd (x / 10 mod 10)] else []) ++
  [hexd (x mod 10)].

(* appendHex(b, x uint16) *)
Definition hex16 (x : N) : str :=
  (if 4096 <=? x then [hexd (x / 4096)] else []) ++
  (if 256 <=? x then [hexd (x / 256 mod 16)] else []) ++
  (if 16 <=? x then [hexd (x / 16 mod 16)] else []) ++
  [hexd (x mod 16)].

(* strings.Join(l, string(sep)) *)
Fixpoint join (sep : byte) (l : list str) : str :=
  match l with
  | [] => []
  | x :: t => match t with [] => x | _ => x ++ sep :: join sep t end
  end.

(* appendTo4 *)
Definition string4 (a : ip) : str := join "."%byte (map (fun b => dec8 (b2n b)) a).

(* v6u16(0..7) *)
Fixpoint groups (a : list byte) : list N :=
  match a with
  | hi :: lo :: t => (b2n hi * 256 + b2n lo) :: groups t
  | _ => []
  end.

(* the inner loop: j := i; for j < 8 && v6u16(j) == 0 { j++ }; the value is j - i *)
Fixpoint zero_run (gs : list N) : nat :=
  match gs with
  | g :: t => if g =? 0 then S (zero_run t) else O
  | [] => O
  end.

(* the first loop of appendTo6 from index i on; best = (zeroStart, zeroEnd), None = (255, 255), whose
   uint8 difference is 0 *)
Fixpoint best_run (gs : list N) (i : nat) (best : option (nat * nat)) : option (nat * nat) :=
  match gs with
  | [] => best
  | _ :: t =>
      let l := zero_run gs in
      let cur := match best with Some (s, e) => (e - s)%nat | None => O end in
      best_run t (S i) (if Nat.leb 2 l && Nat.ltb cur l then Some (i, (i + l)%nat) else best)
  end.

Definition colon : byte := ":"%byte.

(* appendTo6 *)
Definition string6 (a : ip) : str :=
  let g := groups a in
  match best_run g 0 None with
  | None => join colon (map hex16 g)
  | Some (zs, ze) => join colon (map hex16 (firstn zs g)) ++ colon :: colon :: join colon (map hex16 (skipn ze g))
  end.

Definition s_nil : str := ["<"%byte; "n"%byte; "i"%byte; "l"%byte; ">"%byte].

(* net.IP.String *)
Definition ip_string (a : ip) : str :=
  if Nat.eqb (length a) 0 then s_nil
  else if negb (Nat.eqb (length a) 4) && negb (Nat.eqb (length a) 16) then "?"%byte :: hex_string a
  else match to4 a with
       | Some p4 => string4 p4
       | None => string6 a
       end.

(* ---------- a decoder of the rendering (used by the proofs only: it shows the rendering determines the
   address up to To4 normalisation; it is not a model of any Go function) ---------- *)

Definition hv (c : byte) : N := match hex_val c with Some v => v | None => 0 end.
Definition unhex (s : str) : N := fold_left (fun acc c => acc * 16 + hv c) s 0.
Definition undec (s : str) : N := fold_left (fun acc c => acc * 10 + hv c) s 0.

Fixpoint unhex_pairs (s : str) : list byte :=
  match s with
  | c1 :: c2 :: t => n2b (hv c1 * 16 + hv c2) :: unhex_pairs t
  | _ => []
  end.

(* strings.Split(s, string(sep)) *)
Fixpoint split_on (sep : byte) (s : str) : list str :=
  match s with
  | [] => [[]]
  | c :: t =>
      if Byte.eqb c sep then [] :: split_on sep t
      else match split_on sep t with
           | x :: r => (c :: x) :: r
           | [] => [[c]]
           end
  end.

Definition nonempty (s : str) : bool := match s with [] => false | _ => true end.

Fixpoint take_ne (l : list str) : list str :=
  match l with
  | x :: t => if nonempty x then x :: take_ne t else []
  | [] => []
  end.
Fixpoint drop_ne (l : list str) : list str :=
  match l with
  | x :: t => if nonempty x then drop_ne t else l
  | [] => []
  end.

Definition dec6_groups (s : str) : list N :=
  let fs := split_on colon s in
  let L := take_ne fs in
  let R := filter nonempty (drop_ne fs) in
  map unhex L ++ repeat 0 (8 - length L - length R) ++ map unhex R.

Fixpoint ungroups (g : list N) : list byte :=
  match g with
  | [] => []
  | x :: t => n2b (x / 256) :: n2b (x mod 256) :: ungroups t
  end.

Definition dec4 (s : str) : list byte := map (fun f => n2b (undec f)) (split_on "."%byte s).

Definition ip_unstring (s : str) : ip :=
  if has_byte "<"%byte s then []
  else if has_byte "?"%byte s then unhex_pairs (tl s)
  else if has_byte "."%byte s then dec4 s
  else ungroups (dec6_groups s).
