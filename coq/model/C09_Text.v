(* C09 model: extras/outbounds/acl/parse.go (ParseTextRules, parseLine) on byte strings, and the composition
   ParseTextRules ; Compile that NewACLEngineFromString / NewACLEngineFromFile perform.  Definitions only.

   linePattern = ^(\w+)\s*\(([^,]+)(?:,([^,]+))?(?:,([^,]+))?\)$   (regexp.MustCompile: Perl syntax, RE2 semantics)

   The regular expression's language is transcribed by hand.  Features it uses and how they are covered:
     ^ and $        no (?m) flag: beginning and end of the text.  [parse_line] consumes the whole line.
     \w             Perl class, ASCII only in RE2: [0-9A-Za-z_]  ([is_word]).
     \s             Perl class, ASCII only in RE2: [\t\n\f\r ] - NOT \v ([is_re_space]).
     [^,]           negated class: any code point but ',', newline included (regexp/syntax ClassNL is part of the
                    Perl flags).  Go's regexp decodes UTF-8 and reads every byte of an invalid sequence as U+FFFD (one
                    byte wide); ',' '(' ')' and the \w \s bytes are ASCII and never occur inside a multi-byte
                    sequence, so on bytes [^,]+ is "a non-empty run of bytes other than 0x2c", and every submatch
                    boundary falls where the byte-level reading puts it.
     x+ x* x?       greedy, leftmost-first.  \w+ and \s* are followed by something outside their class, so they
                    are maximal; [^,]+ is bounded by ',' or by the final ')' of the line; (?:,([^,]+))? prefers to
                    match, so a second field is always group 3 (ProtoPort) and never group 4 alone.
     groups         1 = Outbound, 2 = Address, 3 = ProtoPort, 4 = HijackAddress; an unset group reads "".
                    (?: ) is non-capturing.
   Not used by the pattern (hence not covered): alternation, back references (not in RE2), lazy quantifiers,
   counted repetition, Unicode classes, case folding, (?s)/(?m)/(?U) flags.

   strings.TrimSpace trims Unicode white space (unicode.IsSpace) given as VALID UTF-8 at either end; an invalid
   sequence decodes to U+FFFD, which is not white space.  [space_runes] lists the encodings.
   Line numbers count from 1 and count blank and comment lines too. *)
From Hy Require Import model.C09_ACL model.C09_IPString.
From Coq Require Import ZArith.
Local Open Scope N_scope.

(* ---------- strings.TrimSpace on arbitrary bytes ---------- *)

(* the UTF-8 encodings of the code points with unicode.IsSpace:
   U+0009..U+000D, U+0020, U+0085, U+00A0, U+1680, U+2000..U+200A, U+2028, U+2029, U+202F, U+205F, U+3000 *)
Definition space_runes : list str :=
  [[x09]; [x0a]; [x0b]; [x0c]; [x0d]; [x20]; [xc2; x85]; [xc2; xa0]; [xe1; x9a; x80];
   [xe2; x80; x80]; [xe2; x80; x81]; [xe2; x80; x82]; [xe2; x80; x83]; [xe2; x80; x84]; [xe2; x80; x85];
   [xe2; x80; x86]; [xe2; x80; x87]; [xe2; x80; x88]; [xe2; x80; x89]; [xe2; x80; x8a];
   [xe2; x80; xa8]; [xe2; x80; xa9]; [xe2; x80; xaf]; [xe2; x81; x9f]; [xe3; x80; x80]].

(* s without the first of the byte strings ps that is a prefix of it *)
Fixpoint strip1 (ps : list str) (s : str) : option str :=
  match ps with
  | [] => None
  | p :: t => if has_prefix p s then Some (skipn (length p) s) else strip1 t s
  end.

(* strings.TrimLeftFunc(s, unicode.IsSpace) when ps = space_runes; fuel = len(s) *)
Fixpoint trim_left_gen (ps : list str) (fuel : nat) (s : str) : str :=
  match fuel with
  | O => s
  | S f => match strip1 ps s with Some s' => trim_left_gen ps f s' | None => s end
  end.

Definition trim_left_u (s : str) : str := trim_left_gen space_runes (length s) s.

(* strings.TrimRightFunc: utf8.DecodeLastRuneInString yields a white-space rune exactly when the string ends
   with one of the encodings (no encoding is a suffix of another) *)
Definition trim_right_u (s : str) : str :=
  rev (trim_left_gen (map (@rev byte) space_runes) (length s) (rev s)).

Definition trim_space_u (s : str) : str := trim_right_u (trim_left_u s).

(* ---------- parseLine ---------- *)

Definition is_word (c : byte) : bool :=
  let n := b2n c in
  ((48 <=? n) && (n <=? 57)) || ((65 <=? n) && (n <=? 90)) || ((97 <=? n) && (n <=? 122)) || (n =? 95).

Definition is_re_space (c : byte) : bool :=
  let n := b2n c in (n =? 9) || (n =? 10) || (n =? 12) || (n =? 13) || (n =? 32).

(* ^(\w+) : the longest prefix of word bytes and what follows it *)
Fixpoint span_word (s : str) : str * str :=
  match s with
  | c :: t => if is_word c then let (w, r) := span_word t in (c :: w, r) else ([], s)
  | [] => ([], [])
  end.

(* \s* *)
Fixpoint drop_re_space (s : str) : str :=
  match s with
  | c :: t => if is_re_space c then drop_re_space t else s
  | [] => []
  end.

(* the string without its last byte, and that byte *)
Definition unsnoc (s : str) : option (str * byte) :=
  match rev s with
  | [] => None
  | c :: r => Some (rev r, c)
  end.

Definition comma : byte := ","%byte.

(* ([^,]+)(?:,([^,]+))?(?:,([^,]+))? against the whole body: one to three non-empty comma-free fields *)
Definition parse_fields (w : str) (fs : list str) : option trule :=
  match fs with
  | [] => None
  | f1 :: r1 =>
      if nonempty f1 then
        match r1 with
        | [] => Some (mkTRule w (trim_space_u f1) [] [])
        | f2 :: r2 =>
            if nonempty f2 then
              match r2 with
              | [] => Some (mkTRule w (trim_space_u f1) (trim_space_u f2) [])
              | f3 :: r3 =>
                  if nonempty f3 then
                    match r3 with
                    | [] => Some (mkTRule w (trim_space_u f1) (trim_space_u f2) (trim_space_u f3))
                    | _ :: _ => None
                    end
                  else None
              end
            else None
        end
      else None
  end.

Definition parse_line (line : str) : option trule :=
  let (w, r1) := span_word line in
  if nonempty w then
    match drop_re_space r1 with
    | c :: r3 =>
        if Byte.eqb c "("%byte then
          match unsnoc r3 with
          | Some (body, last) =>
              if Byte.eqb last ")"%byte then parse_fields w (split_on comma body) else None
          | None => None
          end
        else None
    | [] => None
    end
  else None.

(* ---------- ParseTextRules ---------- *)

Definition newline : byte := x0a.
Definition hash : byte := "#"%byte.

(* if i := strings.Index(line, "#"); i >= 0 { line = line[:i] } *)
Fixpoint strip_comment (s : str) : str :=
  match s with
  | [] => []
  | c :: t => if Byte.eqb c hash then [] else c :: strip_comment t
  end.

Definition clean_line (l : str) : str := trim_space_u (strip_comment l).

(* the rules with their line numbers, or InvalidSyntaxError{Line, LineNum} of the first line that is neither
   blank / comment-only nor matched by the pattern (Line is the trimmed, comment-free text) *)
Inductive presult :=
| PRules (l : list (nat * trule))
| PSyntax (num : nat) (line : str).

Fixpoint parse_lines (ls : list str) (num : nat) : presult :=
  match ls with
  | [] => PRules []
  | l :: t =>
      let c := clean_line l in
      if nonempty c then
        match parse_line c with
        | None => PSyntax num c
        | Some r =>
            match parse_lines t (S num) with
            | PRules rs => PRules ((num, r) :: rs)
            | e => e
            end
        end
      else parse_lines t (S num)
  end.

Definition parse_text (text : str) : presult := parse_lines (split_on newline text) 1.

(* NewACLEngineFromString: ParseTextRules, then Compile *)
Definition compile_text (obs : obmap) (text : str) (cache_size : Z) : Res (list rule) :=
  match parse_text text with
  | PRules lrs => compile obs (map snd lrs) cache_size
  | PSyntax _ _ => Err EInvalid
  end.

(* ---------- a canonical printer (not a model of Go code: the inverse used by the round-trip theorems) ---------- *)

(* a field that would be empty is written as one space (the pattern wants [^,]+; TrimSpace removes it) *)
Definition fld (f : str) : str := match f with [] => [x20] | _ => f end.

Definition print_rule (t : trule) : str :=
  t_ob t ++ "("%byte :: fld (t_addr t) ++
  (match t_hijack t with
   | [] => match t_pp t with [] => [] | pp => comma :: pp end
   | hj => comma :: fld (t_pp t) ++ comma :: hj
   end) ++ [")"%byte].

Definition print_file (ts : list trule) : str := join newline (map print_rule ts).
