(* C10 model: bandwidth negotiation of the Hysteria handshake.  Definitions only.

   Transcribed, branch by branch, from
     core/internal/protocol/http.go   AuthRequestFromHeader / AuthRequestToHeader /
                                      AuthResponseFromHeader / AuthResponseToHeader (Hysteria-CC-RX only)
     strconv.ParseUint(s, 10, 64)     as used there, WITH THE ERROR DISCARDED (`rx, _ := ...`): the
                                      value the code goes on with is the first return value
     strconv.FormatUint(x, 10)
     core/server/server.go            h3sHandler.ServeHTTP, authentication branch
     core/client/client.go            clientImpl.connect, after the 233 response
     core/internal/congestion/utils.go  UseBrutal / UseConfigured
     core/internal/congestion/brutal/brutal.go  NewBrutalSender: bps = congestion.ByteCount(bps)
                                      (uint64 -> int64 conversion)
     core/server/config.go            Config.fill(): the bandwidth floor

   uint64 values are N (always < 2^64 in reachable states; the parser saturates explicitly),
   congestion.ByteCount (int64) is Z.  Header values are Go strings = list byte. *)
From Hy Require Export lib.Bytes gen.ParamsC10.
From Coq Require Import ZArith.
Local Open Scope N_scope.

Definition MaxU64 : N := 18446744073709551615.   (* 1<<64 - 1 *)

(* ------------------------------------------------------------------ strconv.ParseUint(s, 10, 64) *)

Inductive perr := PNone | PSyntax | PRange.

Definition is_digit (c : byte) : bool := (48 <=? b2n c) && (b2n c <=? 57).

(* cutoff = maxUint64/10 + 1 *)
Definition cutoff10 : N := MaxU64 / 10 + 1.

(* the for-loop over the bytes of s; n is the accumulator.
   case '0'..'9': d = c - '0'.
   case letter: d = lower(c)-'a'+10 >= 10 = base  -> return 0, syntaxError
   default:                                        -> return 0, syntaxError
   (both non-digit exits return the same pair in base 10, so they are one branch here)
   if n >= cutoff -> return maxVal, rangeError      (returns at once: the rest of s is not looked at)
   n *= 10; n1 := n + d; if n1 < n (uint64 wrap) || n1 > maxVal -> return maxVal, rangeError *)
Fixpoint parse_loop (n : N) (s : list byte) : N * perr :=
  match s with
  | [] => (n, PNone)
  | c :: t =>
      if is_digit c then
        let d := b2n c - 48 in
        if cutoff10 <=? n then (MaxU64, PRange)
        else
          let n10 := n * 10 in
          let n1 := n10 + d in
          if MaxU64 <? n1 then (MaxU64, PRange)      (* n1 < n after wrap-around, or n1 > maxVal *)
          else parse_loop n1 t
      else (0, PSyntax)
  end.

Definition parse_uint (s : list byte) : N * perr :=
  match s with
  | [] => (0, PSyntax)                                (* if s == "" *)
  | _ => parse_loop 0 s
  end.

(* `rx, _ := strconv.ParseUint(...)`: the error is dropped, the value is used as it is *)
Definition parse_rx (s : list byte) : N := fst (parse_uint s).

(* ------------------------------------------------------------------ strconv.FormatUint(x, 10) *)

Definition digit_byte (d : N) : byte := n2b (48 + d).

Fixpoint fmt_aux (fuel : nat) (n : N) (acc : list byte) : list byte :=
  match fuel with
  | O => acc
  | S f =>
      let acc' := digit_byte (n mod 10) :: acc in
      if n / 10 =? 0 then acc' else fmt_aux f (n / 10) acc'
  end.

(* 20 decimal digits are enough for every uint64 *)
Definition format_uint (n : N) : list byte := fmt_aux 20 n [].

(* ------------------------------------------------------------------ http.Header.Get *)

(* the values stored under the canonical key Hysteria-Cc-Rx; Get returns the first one or "" *)
Definition hget (vals : list (list byte)) : list byte :=
  match vals with [] => [] | v :: _ => v end.

Definition str_auto : list byte := [x61; x75; x74; x6f].   (* "auto" *)

Fixpoint bytes_eq (a b : list byte) : bool :=
  match a, b with
  | [], [] => true
  | x :: a', y :: b' => Byte.eqb x y && bytes_eq a' b'
  | _, _ => false
  end.

(* AuthRequestFromHeader: rx, _ := strconv.ParseUint(h.Get(CommonHeaderCCRX), 10, 64) *)
Definition req_from_header (vals : list (list byte)) : N := parse_rx (hget vals).

(* AuthRequestToHeader: h.Set(CommonHeaderCCRX, strconv.FormatUint(req.Rx, 10)) *)
Definition req_to_header (rx : N) : list (list byte) := [format_uint rx].

Record auth_resp := mkResp { r_rx : N; r_auto : bool }.

(* AuthResponseFromHeader *)
Definition resp_from_header (vals : list (list byte)) : auth_resp :=
  let rxStr := hget vals in
  if bytes_eq rxStr str_auto then mkResp 0 true
  else mkResp (parse_rx rxStr) false.

(* AuthResponseToHeader *)
Definition resp_to_header (r : auth_resp) : list (list byte) :=
  if r_auto r then [str_auto] else [format_uint (r_rx r)].

(* ------------------------------------------------------------------ congestion controller installation *)

Inductive cctype := TBbr | TReno.         (* CongestionConfig.Type after NormalizeType *)

(* what SetCongestionControl was (or was not) called with *)
Inductive installed :=
| IBrutal (bps : Z)     (* brutal.NewBrutalSender: the rate as the int64 ByteCount it is stored in *)
| IBbr
| IDefault.             (* nothing installed: quic-go's own controller stays *)

(* congestion.ByteCount(bps) with bps uint64: two's complement reinterpretation *)
Definition to_i64 (x : N) : Z :=
  if x <? 9223372036854775808 then Z.of_N x else (Z.of_N x - 18446744073709551616)%Z.

(* UseBrutal *)
Definition use_brutal (tx : N) : installed := IBrutal (to_i64 tx).

(* UseConfigured: case TypeReno: return; default: UseBBR *)
Definition use_configured (t : cctype) : installed :=
  match t with TReno => IDefault | TBbr => IBbr end.

(* the decision as the handshake code takes it *)
Inductive decision := Brutal (rate : N) | Configured.

Definition install (d : decision) (t : cctype) : installed :=
  match d with Brutal r => use_brutal r | Configured => use_configured t end.

(* ------------------------------------------------------------------ server: ServeHTTP, auth branch *)

Record server_cfg := mkSrv { s_ignore : bool; s_max_tx : N; s_max_rx : N; s_type : cctype }.

(* Config.fill(): MaxTx != 0 && MaxTx < 65536 -> error; same for MaxRx.  The floor itself is
   measured on the real fill() by the harness (ParamsC10.ServerMinBandwidth). *)
Definition server_cfg_ok (c : server_cfg) : bool :=
  negb (negb (s_max_tx c =? 0) && (s_max_tx c <? ServerMinBandwidth)) &&
  negb (negb (s_max_rx c =? 0) && (s_max_rx c <? ServerMinBandwidth)).

Record server_out := mkSOut {
  so_auth_tx : N;            (* tx argument of Authenticator.Authenticate *)
  so_decision : decision;
  so_installed : installed;
  so_connect_tx : N;         (* tx argument of EventLogger.Connect *)
  so_resp : auth_resp }.     (* what AuthResponseToHeader is given (Rx, RxAuto) *)

(* authReq := AuthRequestFromHeader(r.Header); actualTx := authReq.Rx; Authenticate(..., actualTx);
   then the if/else on IgnoreClientBandwidth. *)
Definition server_decide (c : server_cfg) (clientRx : N) : decision * N :=
  let actualTx := clientRx in
  if s_ignore c then
    (* UseConfigured; actualTx = 0 *)
    (Configured, 0)
  else
    let actualTx :=
      if (0 <? s_max_tx c) && (s_max_tx c <? actualTx) then s_max_tx c else actualTx in
    if 0 <? actualTx then (Brutal actualTx, actualTx)
    else (Configured, actualTx).

Definition server_auth (c : server_cfg) (req_vals : list (list byte)) : server_out :=
  let rx := req_from_header req_vals in
  let '(d, tx) := server_decide c rx in
  mkSOut rx d (install d (s_type c)) tx (mkResp (s_max_rx c) (s_ignore c)).

(* ------------------------------------------------------------------ client: connect(), after 233 *)

Record client_cfg := mkCli { c_max_tx : N; c_max_rx : N; c_type : cctype }.

Record client_out := mkCOut {
  co_decision : decision;
  co_installed : installed;
  co_info_tx : N }.          (* HandshakeInfo.Tx *)

Definition client_decide (c : client_cfg) (r : auth_resp) : decision * N :=
  if r_auto r then
    (* var actualTx uint64 stays 0; UseConfigured *)
    (Configured, 0)
  else
    let actualTx := r_rx r in
    let actualTx :=
      if (actualTx =? 0) || (c_max_tx c <? actualTx) then c_max_tx c else actualTx in
    if 0 <? actualTx then (Brutal actualTx, actualTx)
    else (Configured, actualTx).

Definition client_connect (c : client_cfg) (resp_vals : list (list byte)) : client_out :=
  let '(d, tx) := client_decide c (resp_from_header resp_vals) in
  mkCOut d (install d (c_type c)) tx.

(* ------------------------------------------------------------------ the whole handshake *)

(* client.connect sends AuthRequestToHeader(Rx = MaxRx); the server answers
   AuthResponseToHeader(Rx = MaxRx, RxAuto = IgnoreClientBandwidth) *)
Definition handshake (s : server_cfg) (c : client_cfg) : server_out * client_out :=
  let so := server_auth s (req_to_header (c_max_rx c)) in
  (so, client_connect c (resp_to_header (so_resp so))).

(* ------------------------------------------------------------------ specification (PROTOCOL.md,
   section Congestion Control, and the property statement): limits live in a lattice *)

Inductive limit := Unknown | Fin (n : N) | Unlimited | Auto.

(* how a configured / declared number reads *)
Definition client_value (x : N) : limit := if x =? 0 then Unknown else Fin x.   (* 0 = unknown *)
Definition server_value (x : N) : limit := if x =? 0 then Unlimited else Fin x. (* 0 = unlimited *)
Definition server_declared (auto : bool) (x : N) : limit := if auto then Auto else server_value x.

(* fixed send rate = the smaller of the own send limit and the peer's declared receive limit;
   no fixed rate when the peer says Unknown / Auto or when no finite limit is known *)
Definition spec_rate (own peer : limit) : decision :=
  match own, peer with
  | _, Unknown | _, Auto | Unknown, _ | Auto, _ => Configured
  | Fin a, Fin b => Brutal (N.min a b)
  | Fin a, Unlimited => Brutal a
  | Unlimited, Fin b => Brutal b
  | Unlimited, Unlimited => Configured
  end.

Definition spec_server (c : server_cfg) (clientRx : N) : decision :=
  if s_ignore c then Configured
  else spec_rate (server_value (s_max_tx c)) (client_value clientRx).

Definition spec_client (c : client_cfg) (r : auth_resp) : decision :=
  spec_rate (client_value (c_max_tx c)) (server_declared (r_auto r) (r_rx r)).

(* the rate a decision reports to the application *)
Definition reported (d : decision) : N := match d with Brutal r => r | Configured => 0 end.

(* "reported = enforced": what the application is told (rep) is the decided rate, and the installed
   controller i is a Brutal sender constructed with exactly that rate / the configured controller *)
Definition enforced_as_reported (d : decision) (t : cctype) (i : installed) (rep : N) : Prop :=
  match d with
  | Brutal r => rep = r /\ i = IBrutal (Z.of_N r)
  | Configured => rep = 0 /\ i = use_configured t
  end.

(* the mathematical value of a string of decimal digits, left to right (specification of the decoder) *)
Definition dstep (x : N) (c : byte) : N := x * 10 + (b2n c - 48).
Definition dval_acc (a : N) (s : list byte) : N := fold_left dstep s a.
Definition dval (s : list byte) : N := dval_acc 0 s.

(* "18446744073709551615" *)
Definition str_max : list byte :=
  [x31;x38;x34;x34;x36;x37;x34;x34;x30;x37;x33;x37;x30;x39;x35;x35;x31;x36;x31;x35].

(* ------------------------------------------------------------------ server: ServeHTTP over the life of ONE connection

   h3sHandler is per QUIC connection; every POST /auth on it runs the auth branch under authMutex, so the requests
   of a connection are served one after the other.  The state that matters: h.authenticated, the controller that
   sits on the quic.Conn, and what the application was told so far.

     if h.authenticated.Load() {            // Already authenticated
         AuthResponseToHeader(... MaxRx, IgnoreClientBandwidth); w.WriteHeader(StatusAuthOK); return }
     authReq := AuthRequestFromHeader(r.Header); ok, id := Authenticate(..., authReq.Rx)
     if ok { authenticated = true; <negotiate, install>; <response>; EventLogger.Connect(actualTx) }
     else  { masqHandler }                                                                            *)

Record conn_state := mkConn {
  cs_auth : bool;                (* h.authenticated *)
  cs_installed : installed;      (* the controller on the connection; IDefault = quic-go's own *)
  cs_connects : list N;          (* tx of every EventLogger.Connect so far, oldest first *)
  cs_authcalls : list N }.       (* tx of every Authenticator.Authenticate so far, oldest first *)

Definition conn_init : conn_state := mkConn false IDefault [] [].

(* one POST /auth: the Hysteria-CC-RX values it carries and what the Authenticator says to its credentials *)
Definition auth_req := (list (list byte) * bool)%type.

Inductive reply := R233 (r : auth_resp) | RMasq.

(* SetCongestionControl replaces the controller; UseConfigured(reno) installs nothing (IDefault): the old one stays *)
Definition set_cc (prev i : installed) : installed :=
  match i with IDefault => prev | _ => i end.

Definition serve_auth (c : server_cfg) (st : conn_state) (rq : auth_req) : conn_state * reply :=
  if cs_auth st then
    (st, R233 (mkResp (s_max_rx c) (s_ignore c)))
  else
    let so := server_auth c (fst rq) in
    if snd rq then
      (mkConn true (set_cc (cs_installed st) (so_installed so)) (cs_connects st ++ [so_connect_tx so])
              (cs_authcalls st ++ [so_auth_tx so]),
       R233 (so_resp so))
    else
      (mkConn false (cs_installed st) (cs_connects st) (cs_authcalls st ++ [so_auth_tx so]), RMasq).

(* the requests of a connection in the order the handler serves them; the state after each is recorded *)
Fixpoint serve_run (c : server_cfg) (st : conn_state) (rqs : list auth_req) : conn_state * list (reply * installed) :=
  match rqs with
  | [] => (st, [])
  | rq :: t =>
      let (st1, rp) := serve_auth c st rq in
      let (st2, rps) := serve_run c st1 t in
      (st2, (rp, cs_installed st1) :: rps)
  end.
