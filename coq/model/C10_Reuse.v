(* C10 - several handshakes made from ONE client Config object.

   client.NewClient(config *Config) keeps the POINTER (clientImpl.config = config) and connect() reads
   config.BandwidthConfig.MaxTx / MaxRx from it; a reconnecting client (reconnect.go: rc.configFunc() may hand out
   the same *Config every time; Config carries the `filled` flag because it is meant to be passed again) makes one
   handshake after the other from the same object, and the caller may change its limits in between.

   Model: the Config object is a value that is threaded through the sequence; new_client returns the Config as
   connect() leaves it.  The code that exists only READS the bandwidth fields (client.go connect(): the request
   header takes MaxRx, the branch on the response takes MaxTx), so new_client returns it unchanged - and the
   correspondence check compares the bandwidth fields of the real object after every real NewClient with it.

   A step of a sequence: what the caller does to the limits before the handshake (None: nothing), and the
   Hysteria-CC-RX values of the 233 response this handshake gets. *)
From Hy Require Import model.C10_Negotiate.
Local Open Scope N_scope.

Definition seq_step := (option (N * N) * list (list byte))%type.

(* the caller writes config.BandwidthConfig.MaxTx / MaxRx *)
Definition set_bw (c : client_cfg) (u : option (N * N)) : client_cfg :=
  match u with None => c | Some (tx, rx) => mkCli tx rx (c_type c) end.

(* NewClient(config) answered by resp_vals: (the Config object afterwards, what connect() did) *)
Definition new_client (c : client_cfg) (resp_vals : list (list byte)) : client_cfg * client_out :=
  (c, client_connect c resp_vals).

(* per handshake: the Config object after it, the outcome, and the request header the client sent *)
Fixpoint client_seq (c : client_cfg) (steps : list seq_step) : list (client_cfg * client_out * list (list byte)) :=
  match steps with
  | [] => []
  | (u, vals) :: t =>
      let c1 := set_bw c u in
      let '(c2, o) := new_client c1 vals in
      (c2, o, req_to_header (c_max_rx c1)) :: client_seq c2 t
  end.

(* the limits the CALLER has put into the object when the i-th handshake starts (its own writes only) *)
Fixpoint cfg_in_force (c : client_cfg) (steps : list seq_step) : list client_cfg :=
  match steps with
  | [] => []
  | (u, _) :: t => set_bw c u :: cfg_in_force (set_bw c u) t
  end.
