(* C10 o C11: what a negotiated decision `Brutal r` means on the wire.  Definitions only.

   C10 (model/C10_Negotiate.v) ends at `installed`: "a Brutal sender constructed with this rate sits on the
   connection".  C11 (model/C11_Brutal.v, C11_Pacer.v) starts at brutal_init: the BrutalSender object and the token
   bucket it drives.  The seam is one line of core/internal/congestion/utils.go,

     func UseBrutal(conn, tx, disableLossCompensation) { conn.SetCongestionControl(brutal.NewBrutalSender(tx, dis)) }

   with dis = BandwidthConfig.DisableLossCompensation of the side that installs it: sender_of below.
   The vocabulary of the composed theorems - the calls quic-go makes on the installed sender, as C11's `bop`
   histories, and the hypotheses C11 leaves on them - is stated at the level of the sender (not of the pacer):
   sizes in bytes, times in nanoseconds (monotime). *)
From Hy Require Export model.C10_Negotiate model.C11_Brutal.
From Coq Require Import ZArith List.
Import ListNotations.
Local Open Scope Z_scope.

(* the sender object an installed controller is at the moment UseBrutal installs it (None: bbr / quic-go's own) *)
Definition sender_of (i : installed) (dis : bool) : option brutal :=
  match i with
  | IBrutal bps => Some (brutal_init bps dis)
  | _ => None
  end.

(* "rate / 0.8": the largest bandwidth the loss compensation can hand to the pacer for a rate r, floor(1.25 r) *)
Definition comp_rate (r : N) : Z := 5 * Z.of_N r / 4.

(* bytes handed to OnPacketSent by a call history, and the time of its last OnPacketSent (t0 when there is none) *)
Fixpoint sent_bytes (l : list bop) : Z :=
  match l with
  | [] => 0
  | OSent _ size :: r => size + sent_bytes r
  | _ :: r => sent_bytes r
  end.

Fixpoint last_sent (l : list bop) (t0 : Z) : Z :=
  match l with
  | [] => t0
  | OSent t _ :: r => last_sent r t
  | _ :: r => last_sent r t0
  end.

(* What C11 assumes of one paced send, at the sender b it is made on (the hypotheses that REMAIN in the composition):
     - the datagram size in force is in [0, M]                       (M <= 2^32 in the theorems)
     - the packet is sent only when the pacer's budget covers it      (quic-go asks HasPacingBudget, i.e.
                                                                       Budget(now) >= maxDatagramSize >= size, first)
     - the send time is a monotime value: positive, int64 *)
Definition wire_first (M : Z) (b : brutal) (t size : Z) : Prop :=
  0 <= b_mds b <= M /\ 0 <= size <= b_budget b t /\ 0 < t < two63.

(* every later send of the interval additionally:
     - time does not go backwards (since the previous OnPacketSent)
     - rate x gap fits 63 bits, for the bound B on the pacer bandwidth (B = comp_rate r = reported rate / 0.8) *)
Definition wire_next (B M : Z) (b : brutal) (t size : Z) : Prop :=
  wire_first M b t size /\ p_last (b_pacer b) <= t /\ B * (t - p_last (b_pacer b)) < two63.

Fixpoint wire_ok (B M : Z) (b : brutal) (l : list bop) : Prop :=
  match l with
  | [] => True
  | o :: r =>
      match o with OSent t size => wire_next B M b t size | _ => True end /\
      wire_ok B M (fst (bstep b o)) r
  end.

(* the executable form of the composed bound, used by the correspondence check on recorded send histories:
   bytes of the sends i..j against burst_bound + B x interval / 10^9, for every window that starts at the first
   send of `l` (the check applies it to every suffix) *)
Fixpoint window_ok (B burst t0 acc : Z) (l : list (Z * Z)) : bool :=
  match l with
  | [] => true
  | (t, size) :: r =>
      let acc' := acc + size in
      (if B * (t - t0) <? two63 then acc' <=? burst + B * (t - t0) / ns_per_s else true) &&
      window_ok B burst t0 acc' r
  end.

Fixpoint windows_ok (B burst : Z) (l : list (Z * Z)) : bool :=
  match l with
  | [] => true
  | (t, size) :: r => window_ok B burst t 0 l && windows_ok B burst r
  end.

Fixpoint sends_of (l : list bop) : list (Z * Z) :=
  match l with
  | [] => []
  | OSent t size :: r => (t, size) :: sends_of r
  | _ :: r => sends_of r
  end.
