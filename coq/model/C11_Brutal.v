(* C11 model, part 2: core/internal/congestion/brutal/brutal.go (whole file; the debug printing,
   which only reads state, is left out).  Definitions only.

   The ack rate is kept twice: b_rate is the float64 the code computes (binary64 arithmetic of
   lib/F64.v, bit-exact), b_rateq is the same quantity as an exact fraction (num, den) computed
   with the same control flow over exact arithmetic.  The float is what drives the pacer and the
   window; the fraction is what the exact-arithmetic theorems speak about.

   Failure mode: pktInfoSlots[currentTimestamp % 5] with a negative event time has a negative
   index = Go run-time panic (index out of range) = Panic 2; it happens before any write. *)
From Hy Require Export lib.Res lib.F64 gen.ParamsC11 model.C11_Pacer.
From Coq Require Import ZArith Bool Floats.
Local Open Scope bool_scope.
Local Open Scope Z_scope.

Record slot := mkSlot { sl_ts : Z (* int64 *); sl_ack : Z (* uint64 *); sl_loss : Z (* uint64 *) }.

Record brutal := mkB {
  b_bps : Z;              (* congestion.ByteCount(bps) *)
  b_mds : Z;              (* maxDatagramSize *)
  b_pacer : pacer;
  b_slots : list slot;    (* [pktInfoSlotCount]pktInfo *)
  b_rate : f64;           (* ackRate *)
  b_rateq : Z * Z;        (* the same, exact: numerator, denominator *)
  b_disable : bool }.     (* disableLossCompensation *)

Definition min_ack_rate : f64 := fdiv (of_Z minAckRate_num) (of_Z minAckRate_den).  (* the constant 0.8 *)

(* NewBrutalSender(bps, disable): bps is a uint64 converted to ByteCount (int64) *)
Definition brutal_init (bps : Z) (disable : bool) : brutal :=
  mkB (wrap64 bps) InitialPacketSize pacer_init
      (repeat (mkSlot 0 0 0) (Z.to_nat pktInfoSlotCount)) f_one (1, 1) disable.

(* the closure handed to NewPacer: ByteCount(float64(bs.bps) / bs.ackRate) *)
Definition bandwidth_of (bps : Z) (rate : f64) : Z := to_int64 (fdiv (of_Z bps) rate).
Definition bandwidth (b : brutal) : Z := bandwidth_of (b_bps b) (b_rate b).

Definition b_time_until_send (b : brutal) : Res Z := time_until_send (bandwidth b) (b_pacer b).
Definition b_budget (b : brutal) (now : Z) : Z := budget (bandwidth b) (b_pacer b) now.
Definition has_pacing_budget (b : brutal) (now : Z) : bool := b_mds b <=? b_budget b now.

(* time.Duration.Seconds() *)
Definition seconds (d : Z) : f64 :=
  fadd (of_Z (Z.quot d ns_per_s)) (fdiv (of_Z (Z.rem d ns_per_s)) f_1e9).

(* GetCongestionWindow(), rtt = rttStats.SmoothedRTT() in ns *)
Definition cwnd_of (bps mds : Z) (rate : f64) (rtt : Z) : Z :=
  if rtt <=? 0 then cwndNoRTT
  else
    let c := to_int64 (fdiv (fmul (fmul (of_Z bps) (seconds rtt)) (of_Z congestionWindowMultiplier)) rate) in
    if c <? mds then mds else c.
Definition cwnd (b : brutal) (rtt : Z) : Z := cwnd_of (b_bps b) (b_mds b) (b_rate b) rtt.

Definition can_send_w (w inflight : Z) : bool := inflight <=? w.
Definition can_send (b : brutal) (rtt inflight : Z) : bool := can_send_w (cwnd b rtt) inflight.

(* OnPacketSent *)
Definition on_sent (b : brutal) (t size : Z) : brutal :=
  mkB (b_bps b) (b_mds b) (sent (bandwidth b) (b_pacer b) t size) (b_slots b) (b_rate b) (b_rateq b) (b_disable b).

(* SetMaxDatagramSize *)
Definition on_set_mds (b : brutal) (s : Z) : brutal :=
  mkB (b_bps b) s (set_mds (b_pacer b) s) (b_slots b) (b_rate b) (b_rateq b) (b_disable b).

(* the loop of updateAckRate: sums over the slots not older than minTimestamp (uint64 sums) *)
Definition window_sums (slots : list slot) (min_ts : Z) : Z * Z :=
  fold_left (fun acc s => if sl_ts s <? min_ts then acc
                          else (wrapu64 (fst acc + sl_ack s), wrapu64 (snd acc + sl_loss s)))
            slots (0, 0).

(* what updateAckRate stores for given totals: float and exact *)
Definition rate_f (ack loss : Z) : f64 :=
  if wrapu64 (ack + loss) <? minSampleCount then f_one
  else
    let r := fdiv (of_Z ack) (of_Z (wrapu64 (ack + loss))) in
    if fltb r min_ack_rate then min_ack_rate else r.

Definition rate_q (ack loss : Z) : Z * Z :=
  if wrapu64 (ack + loss) <? minSampleCount then (1, 1)
  else if ack * minAckRate_den <? minAckRate_num * wrapu64 (ack + loss)
       then (minAckRate_num, minAckRate_den)
       else (ack, wrapu64 (ack + loss)).

(* updateAckRate(currentTimestamp) *)
Definition update_ack_rate (disable : bool) (slots : list slot) (cur : Z) : f64 * (Z * Z) :=
  if disable then (f_one, (1, 1))
  else
    let '(a, l) := window_sums slots (wrap64 (cur - pktInfoSlotCount)) in
    (rate_f a l, rate_q a l).

Fixpoint upd_slot (i : nat) (x : slot) (l : list slot) : list slot :=
  match l, i with
  | [], _ => []
  | _ :: t, O => x :: t
  | h :: t, S j => h :: upd_slot j x t
  end.

Definition slot_default : slot := mkSlot 0 0 0.

(* OnCongestionEventEx(_, eventTime, ackedPackets, lostPackets) with nack = len(ackedPackets),
   nloss = len(lostPackets) *)
Definition on_event (b : brutal) (t nack nloss : Z) : Res brutal :=
  let cur := Z.quot t ns_per_s in                       (* int64(time.Duration(eventTime) / time.Second) *)
  let i := Z.rem cur pktInfoSlotCount in                (* Go %: sign of the dividend *)
  if i <? 0 then Panic 2
  else
    let s := nth (Z.to_nat i) (b_slots b) slot_default in
    let s' := if sl_ts s =? cur
              then mkSlot cur (wrapu64 (sl_ack s + nack)) (wrapu64 (sl_loss s + nloss))
              else mkSlot cur nack nloss in
    let slots := upd_slot (Z.to_nat i) s' (b_slots b) in
    let '(r, q) := update_ack_rate (b_disable b) slots cur in
    Ok (mkB (b_bps b) (b_mds b) (b_pacer b) slots r q (b_disable b)).

(* ---- operations of a sender history ---- *)
Inductive bop :=
| OSent (t size : Z)           (* OnPacketSent *)
| OEvent (t nack nloss : Z)    (* OnCongestionEventEx *)
| OSetMds (s : Z)              (* SetMaxDatagramSize *)
| ONop.                        (* time passes, nothing is called *)

(* a panicking call leaves the state as it was (the index check precedes every write) *)
Definition bstep (b : brutal) (o : bop) : brutal * bool :=
  match o with
  | OSent t size => (on_sent b t size, false)
  | OEvent t a l => match on_event b t a l with Ok b' => (b', false) | _ => (b, true) end
  | OSetMds s => (on_set_mds b s, false)
  | ONop => (b, false)
  end.

Fixpoint brun (b : brutal) (l : list bop) : brutal :=
  match l with [] => b | o :: t => brun (fst (bstep b o)) t end.

(* the pacer-level send history induced by a sender-level call history: each OnPacketSent with the
   bandwidth the closure returns and the datagram size configured at that moment *)
Fixpoint psends_of (b : brutal) (l : list bop) : list psend :=
  match l with
  | [] => []
  | o :: r =>
      let b' := fst (bstep b o) in
      match o with
      | OSent t size => mkS (bandwidth b) (b_mds b) t size :: psends_of b' r
      | _ => psends_of b' r
      end
  end.


(* ================= specification-level view of an ack/loss history =================
   (used by the statements of the ack-rate theorems; nothing below is executed by the model) *)

(* an ack/loss batch as the specification sees it: second-timestamp, acked, lost *)
Notation ev := (Z * Z * Z)%type (only parsing).
Definition e_sec (e : ev) : Z := fst (fst e).
Definition e_ack (e : ev) : Z := snd (fst e).
Definition e_loss (e : ev) : Z := snd e.

Fixpoint cnt (f : ev -> Z) (P : Z -> bool) (l : list ev) : Z :=
  match l with [] => 0 | e :: t => (if P (e_sec e) then f e else 0) + cnt f P t end.

Definition inwin (cur : Z) (ts : Z) : bool := (cur - 4 <=? ts) && (ts <=? cur).

Definition evt (t a l : Z) : ev := (Z.quot t ns_per_s, a, l).


(* the batches of a call history, newest first, with the second of the latest batch *)
Definition ev_step (st : list ev * Z) (o : bop) : list ev * Z :=
  match o with OEvent t a l => (evt t a l :: fst st, Z.quot t ns_per_s) | _ => st end.
Definition ev_hist (l : list bop) (st : list ev * Z) : list ev * Z := fold_left ev_step l st.

Fixpoint hist_ok (cur tot : Z) (l : list bop) : Prop :=
  match l with
  | [] => True
  | OEvent t a n :: r =>
      0 <= t < two63 /\ cur <= Z.quot t ns_per_s /\ 0 <= a /\ 0 <= n /\ tot + a + n < two64 /\
      hist_ok (Z.quot t ns_per_s) (tot + a + n) r
  | _ :: r => hist_ok cur tot r
  end.

