(* C11 model, part 3: the calls quic-go makes on the sender, with their full Go signatures.
   Definitions only.

   brutal.go:
     func (b *BrutalSender) OnPacketSent(sentTime monotime.Time, bytesInFlight congestion.ByteCount,
         packetNumber congestion.PacketNumber, bytes congestion.ByteCount, isRetransmittable bool) {
         b.pacer.SentPacket(sentTime, bytes)
     }
   The body is that single statement: bytesInFlight, packetNumber and isRetransmittable are not
   read.  In particular a packet that is not ack-eliciting (isRetransmittable = false: ACK-only,
   CONNECTION_CLOSE, ...) is charged to the token bucket exactly like a data packet - every byte
   released through the HasPacingBudget gate is counted.

   model/C11_Brutal.v keeps the two arguments that are read (on_sent, OSent t size); here the call
   is modelled with all five, and a call history carries all five per send.  proof/C11_Calls.v
   shows that the three unread ones are irrelevant to the whole sender state. *)
From Hy Require Export model.C11_Brutal.
From Coq Require Import ZArith Bool List.
Import ListNotations.
Local Open Scope Z_scope.

(* OnPacketSent(sentTime, bytesInFlight, packetNumber, bytes, isRetransmittable) *)
Definition on_packet_sent (b : brutal) (t inflight pn size : Z) (retrans : bool) : brutal :=
  mkB (b_bps b) (b_mds b) (sent (bandwidth b) (b_pacer b) t size) (b_slots b) (b_rate b) (b_rateq b) (b_disable b).

(* ---- a call history with the full argument lists ---- *)
Inductive bcall :=
| KSent (t inflight pn size : Z) (retrans : bool)   (* OnPacketSent *)
| KEvent (t nack nloss : Z)                          (* OnCongestionEventEx *)
| KSetMds (s : Z)                                    (* SetMaxDatagramSize *)
| KNop.                                              (* time passes, nothing is called *)

(* a panicking call leaves the state as it was (as in bstep) *)
Definition kstep (b : brutal) (c : bcall) : brutal * bool :=
  match c with
  | KSent t infl pn size rx => (on_packet_sent b t infl pn size rx, false)
  | KEvent t a l => match on_event b t a l with Ok b' => (b', false) | _ => (b, true) end
  | KSetMds s => (on_set_mds b s, false)
  | KNop => (b, false)
  end.

Fixpoint krun (b : brutal) (l : list bcall) : brutal :=
  match l with [] => b | c :: t => krun (fst (kstep b c)) t end.

(* the pacer-level send history induced by a call history: EVERY OnPacketSent, whatever its flag,
   with the bandwidth the closure returns and the datagram size configured at that moment *)
Fixpoint ksends_of (b : brutal) (l : list bcall) : list psend :=
  match l with
  | [] => []
  | c :: r =>
      let b' := fst (kstep b c) in
      match c with
      | KSent t _ _ size _ => mkS (bandwidth b) (b_mds b) t size :: ksends_of b' r
      | _ => ksends_of b' r
      end
  end.

(* specification-level: the bytes released through the pacing gate by a call history - all of
   them, ack-eliciting or not *)
Fixpoint released (l : list bcall) : Z :=
  match l with
  | [] => 0
  | KSent _ _ _ size _ :: r => size + released r
  | _ :: r => released r
  end.

(* the bytes of the ack-eliciting packets only (what a sender that skipped the others would count) *)
Fixpoint released_retrans (l : list bcall) : Z :=
  match l with
  | [] => 0
  | KSent _ _ _ size true :: r => size + released_retrans r
  | _ :: r => released_retrans r
  end.

(* what a call keeps when the unread arguments are forgotten *)
Definition erase (c : bcall) : bop :=
  match c with
  | KSent t _ _ size _ => OSent t size
  | KEvent t a l => OEvent t a l
  | KSetMds s => OSetMds s
  | KNop => ONop
  end.

(* two call histories that differ at most in bytesInFlight / packetNumber / isRetransmittable *)
Definition same_calls (l l' : list bcall) : Prop := map erase l = map erase l'.

(* every send of the history flagged r *)
Definition set_flag (r : bool) (c : bcall) : bcall :=
  match c with KSent t infl pn size _ => KSent t infl pn size r | _ => c end.
