(* C11 model, part 1: core/internal/congestion/common/pacer.go (whole file), statement by statement.
   Definitions only.  Go int64 (congestion.ByteCount, monotime.Time, time.Duration) is Z with the
   two's-complement wrap written explicitly (wrap64); the uint64 arithmetic of TimeUntilSend is
   wrapu64.  The bandwidth is a parameter of every call: in the code it is the closure
   getBandwidth(), which Brutal instantiates with int64(float64(bps)/ackRate) (part 2).
   All times are nanoseconds, all sizes bytes.

   Failure mode: TimeUntilSend divides by uint64(getBandwidth()); a zero bandwidth is a Go
   run-time panic (integer divide by zero) = Panic 1. *)
From Hy Require Export lib.Res gen.ParamsC11.
From Coq Require Import ZArith Bool.
Local Open Scope bool_scope.
Local Open Scope Z_scope.

Definition two63 : Z := 9223372036854775808.    (* 2^63 *)
Definition two64 : Z := 18446744073709551616.   (* 2^64 *)
(* int64 / uint64 result of an exact z (the in-range test only short-cuts the evaluation:
   proof/C11_Pacer.v shows wrap64 z = (z + 2^63) mod 2^64 - 2^63 and wrapu64 z = z mod 2^64) *)
Definition wrap64 (z : Z) : Z :=
  if (- two63 <=? z) && (z <? two63) then z else (z + two63) mod two64 - two63.
Definition wrapu64 (z : Z) : Z :=
  if (0 <=? z) && (z <? two64) then z else z mod two64.

Definition ns_per_s : Z := 1000000000.                               (* the literal 1e9 *)

Record pacer := mkP {
  p_budget : Z;    (* budgetAtLastSent *)
  p_mds : Z;       (* maxDatagramSize *)
  p_last : Z }.    (* lastSentTime; 0 = IsZero() = nothing sent yet *)

(* NewPacer *)
Definition pacer_init : pacer :=
  mkP (wrap64 (maxBurstPackets * InitialPacketSize)) InitialPacketSize 0.

(* maxBurstSize(): max((4*MinPacingDelay).Nanoseconds() * bw / 1e9, maxBurstPackets * mds) *)
Definition max_burst (bw : Z) (p : pacer) : Z :=
  Z.max (Z.quot (wrap64 (wrap64 (maxBurstPacingDelayMultiplier * MinPacingDelay_ns) * bw)) ns_per_s)
        (wrap64 (maxBurstPackets * p_mds p)).

(* Budget(now) *)
Definition budget (bw : Z) (p : pacer) (now : Z) : Z :=
  if p_last p =? 0 then max_burst bw p
  else
    let delta := wrap64 (now - p_last p) in                              (* now.Sub(lastSentTime) *)
    let b := wrap64 (p_budget p + Z.quot (wrap64 (bw * delta)) ns_per_s) in
    let b := if b <? 0 then 4611686018427387903 else b in   (* 1<<62 - 1 *)                          (* protect against overflows *)
    Z.min (max_burst bw p) b.

(* SentPacket(sendTime, size) *)
Definition sent (bw : Z) (p : pacer) (t size : Z) : pacer :=
  let b := budget bw p t in
  mkP (if b <? size then 0 else wrap64 (b - size)) (p_mds p) t.

(* TimeUntilSend() *)
Definition time_until_send (bw : Z) (p : pacer) : Res Z :=
  if p_mds p <=? p_budget p then Ok 0
  else
    let diff := wrapu64 (ns_per_s * wrapu64 (p_mds p - p_budget p)) in
    let bwu := wrapu64 bw in
    if bwu =? 0 then Panic 1
    else
      let d := diff / bwu in
      let d := if 0 <? diff mod bwu then wrapu64 (d + 1) else d in
      Ok (wrap64 (p_last p + Z.max MinPacingDelay_ns (wrap64 d))).

(* SetMaxDatagramSize *)
Definition set_mds (p : pacer) (s : Z) : pacer := mkP (p_budget p) s (p_last p).

(* ---- a send history of the pacer alone (used by the rate theorem) ----
   One entry = one OnPacketSent: the bandwidth value the closure returned at that moment, the
   datagram size configured at that moment, the send time and the packet size. *)
Record psend := mkS { s_bw : Z; s_mds : Z; s_t : Z; s_size : Z }.

Definition psend_step (p : pacer) (s : psend) : pacer :=
  sent (s_bw s) (set_mds p (s_mds s)) (s_t s) (s_size s).

(* the budget the pacer reports at the moment of that send (what HasPacingBudget compares) *)
Definition psend_budget (p : pacer) (s : psend) : Z :=
  budget (s_bw s) (set_mds p (s_mds s)) (s_t s).

Fixpoint prun (p : pacer) (l : list psend) : pacer :=
  match l with [] => p | s :: t => prun (psend_step p s) t end.

(* The sends of an interval, as the rate theorem quantifies them.  B bounds every bandwidth value
   the closure returned, M every configured datagram size.
   first send of the interval (from any pacer state whatsoever): the packet is sent only when the
   budget covers it (quic-go asks HasPacingBudget, i.e. budget >= maxDatagramSize >= size, before
   every paced packet); its time is a monotime value (positive, int64). *)
Definition send_ok (B M : Z) (p : pacer) (s : psend) : Prop :=
  0 <= s_bw s <= B /\ 0 <= s_mds s <= M /\
  0 <= s_size s <= psend_budget p s /\
  0 < s_t s < two63.

(* later sends: additionally time does not go backwards and rate x gap fits 63 bits *)
Fixpoint sends_ok (B M : Z) (p : pacer) (l : list psend) : Prop :=
  match l with
  | [] => True
  | s :: t =>
      send_ok B M p s /\ p_last p <= s_t s /\ s_bw s * (s_t s - p_last p) < two63 /\
      sends_ok B M (psend_step p s) t
  end.

Definition bytes_of (l : list psend) : Z := fold_right (fun s acc => s_size s + acc) 0 l.

(* the burst allowance for bandwidth B and datagram size M (maxBurstSize with those values) *)
Definition burst_bound (B M : Z) : Z :=
  Z.max (maxBurstPacingDelayMultiplier * MinPacingDelay_ns * B / ns_per_s) (maxBurstPackets * M).
