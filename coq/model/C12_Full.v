(* C12 model, layer 3: the WHOLE bbrSender as a deterministic, executable labelled transition system over
   the calls QUIC makes (OnPacketSent, OnCongestionEventEx, SetMaxDatagramSize), no oracles:
     core/internal/congestion/bbr/bbr_sender.go        bbrSender: modes STARTUP / DRAIN / PROBE_BW / PROBE_RTT, recovery,
                                                       round counting, min-RTT expiry, gain tables per profile,
                                                       calculatePacingRate / -CongestionWindow / -RecoveryWindow
     core/internal/congestion/bbr/bandwidth_sampler.go bandwidthSampler (OnPacketSent, OnCongestionEvent, OnPacketLost,
                                                       onPacketAcknowledged, chooseA0Point, onAckEventEnd, OnAppLimited,
                                                       RemoveObsoletePackets), maxAckHeightTracker, recentAckPoints
     core/internal/congestion/bbr/bandwidth.go         BandwidthFromDelta
     core/internal/congestion/common/pacer.go          Pacer (SentPacket, Budget, TimeUntilSend, SetMaxDatagramSize)
   on top of the containers of layer 1 (model/C12_Queue.v: the connectionStateMap is a packetNumberIndexedQueue of
   connectionStateOnSentPacket, a0Candidates a RingBuffer of ackPoint, the two WindowedFilters) and REUSING the integer
   window skeleton of layer 2 (model/C12_Sender.v: update_round, update_recovery, calc_cwnd, calc_recovery, set_mds,
   get_cwnd, bandwidth_for_pacer, the pacer's budget arithmetic) - what layer 2 takes as oracle values is computed here.
   Definitions only.

   Integers: ByteCount / time / packet numbers are int64 (i64w after every addition, subtraction, product), Bandwidth and the round counter are
   uint64 (u64w).  The genuinely floating-point computations (gain * float64(x), 1/highGain, the 1.25 growth target, the
   0.02 loss threshold, threshold * expectedBytesAcked, gain comparisons) are binary64 on Coq's primitive floats
   (lib/F64.v, lib/F64x.v), bit-exact; float64 -> int64 / uint64 conversions as compiled for amd64.

   Inputs that are not state of the sender: the event's arguments; rttStats.MinRTT() at the time of the call (`rttMin`,
   read by getMinRtt / calculatePacingRate / PacingRate); the value rand.Int31n(PacketsPerConnectionID) returns in
   enterProbeBandwidthMode (`rnd`).

   Never written by any code path and therefore left out of the state (constants of the model): totalBytesNeutered (0;
   OnPacketNeutered has no caller), maxTrackedPackets, limitMaxAckHeightTrackerBySendRate (false: no caller of its
   setter; with it maxSendRate and sampleMaxInflight of OnCongestionEvent are dead values), isAppLimitedRecovery,
   slowerStartup, rateBasedStartup, debug.  startNewAggregationEpochAfterFullRound is kept (false) with its logic.

   Panic sites added to those of layers 1-2: 12 integer division by zero in BandwidthFromDelta;
   13 lostPackets[len(lostPackets)-1] with both lists empty; 14 pacingGain[cycleCurrentOffset] out of range. *)
From Hy Require Import lib.F64 lib.F64x.
From Hy Require Export lib.Res gen.ParamsC12 model.C12_Queue model.C12_Sender.
From Coq Require Import ZArith Bool List Floats.
Import ListNotations.
Local Open Scope bool_scope.
Local Open Scope Z_scope.

Definition infBandwidth : Z := 18446744073709551615.     (* math.MaxUint64 *)
Definition infRTT : Z := 9223372036854775807.            (* math.MaxInt64 *)
Definition ns_second : Z := 1000000000.

(* ------------------------------------------------------------------ profiles (configForProfile) *)
Record prof := mkProf {
  p_highGain : f64; p_highCwndGain : f64; p_cwndGainConst : f64; p_numStartupRtts : Z;
  p_drainToTarget : bool; p_detectOvershooting : bool; p_bytesLostMult : Z;
  p_enableAckAgg : bool; p_expireAckAgg : bool; p_overestimateAvoidance : bool; p_reduceExtraAcked : bool }.

Definition prof_standard : prof :=
  mkProf (of_bits c12_standard_highGain_bits) (of_bits c12_standard_highCwndGain_bits)
         (of_bits c12_standard_cwndGainConstant_bits) c12_standard_numStartupRtts
         c12_standard_drainToTarget c12_standard_detectOvershooting c12_standard_bytesLostMultiplier
         c12_standard_enableAckAggregationStartup c12_standard_expireAckAggregationStartup
         c12_standard_enableOverestimateAvoidance c12_standard_reduceExtraAckedOnBandwidthIncrease.
Definition prof_conservative : prof :=
  mkProf (of_bits c12_conservative_highGain_bits) (of_bits c12_conservative_highCwndGain_bits)
         (of_bits c12_conservative_cwndGainConstant_bits) c12_conservative_numStartupRtts
         c12_conservative_drainToTarget c12_conservative_detectOvershooting c12_conservative_bytesLostMultiplier
         c12_conservative_enableAckAggregationStartup c12_conservative_expireAckAggregationStartup
         c12_conservative_enableOverestimateAvoidance c12_conservative_reduceExtraAckedOnBandwidthIncrease.
Definition prof_aggressive : prof :=
  mkProf (of_bits c12_aggressive_highGain_bits) (of_bits c12_aggressive_highCwndGain_bits)
         (of_bits c12_aggressive_cwndGainConstant_bits) c12_aggressive_numStartupRtts
         c12_aggressive_drainToTarget c12_aggressive_detectOvershooting c12_aggressive_bytesLostMultiplier
         c12_aggressive_enableAckAggregationStartup c12_aggressive_expireAckAggregationStartup
         c12_aggressive_enableOverestimateAvoidance c12_aggressive_reduceExtraAckedOnBandwidthIncrease.
Definition prof_of (i : Z) : prof :=
  if i =? 1 then prof_conservative else if i =? 2 then prof_aggressive else prof_standard.

Definition p_drainGain (P : prof) : f64 := fdiv f_one (p_highGain P).          (* 1.0 / cfg.highGain *)

Definition gain_table : list f64 := map of_bits c12_pacingGain_bits.           (* var pacingGain = [...]float64{...} *)
Definition gain_at (off : Z) : Res f64 :=
  if (0 <=? off) && (off <? Z.of_nat (length gain_table)) then Ok (nth (Z.to_nat off) gain_table f_one)
  else Panic 14.
Definition growth_target : f64 := of_bits c12_startupGrowthTarget_bits.        (* 1.25 *)
Definition loss_threshold : f64 := of_bits c12_lossThreshold_bits.             (* 0.02 *)

(* ------------------------------------------------------------------ state *)
(* sendTimeState *)
Record sts := mkSts { s_valid : bool; s_appLimited : bool; s_sent : Z; s_acked : Z; s_lost : Z; s_inflight : Z }.
Definition sts0 : sts := mkSts false false 0 0 0 0.
Definition sts_valid (s : sts) : sts := mkSts true (s_appLimited s) (s_sent s) (s_acked s) (s_lost s) (s_inflight s).

(* connectionStateOnSentPacket *)
Record cse := mkCse { c_sentTime : Z; c_size : Z; c_tbsAtLastAcked : Z; c_lastAckedSentTime : Z;
                      c_lastAckedAckTime : Z; c_sts : sts }.
Definition cse0 : cse := mkCse 0 0 0 0 0 sts0.

Definition ackpt : Type := (Z * Z)%type.          (* ackPoint{ackTime, totalBytesAcked} *)
Definition ackpt0 : ackpt := (0, 0).

(* maxAckHeightTracker *)
Record tracker := mkTr { t_filter : wfilt xev; t_epochStart : Z; t_epochBytes : Z; t_lastSentBeforeEpoch : Z;
                         t_numEpochs : Z; t_threshold : f64; t_newEpochAfterFullRound : bool; t_reduce : bool }.

(* bandwidthSampler *)
Record sampler := mkSm {
  sm_totalSent : Z; sm_totalAcked : Z; sm_totalLost : Z;
  sm_tbsAtLastAcked : Z;          (* totalBytesSentAtLastAckedPacket *)
  sm_lastAckedSentTime : Z; sm_lastAckedAckTime : Z;
  sm_lastSent : Z; sm_lastAcked : Z;
  sm_appLimited : bool; sm_endOfAppLimited : Z;
  sm_csm : pq cse;                (* connectionStateMap *)
  sm_rap0 : ackpt; sm_rap1 : ackpt;   (* recentAckPoints.ackPoints[0], [1] *)
  sm_a0 : ring ackpt;             (* a0Candidates *)
  sm_trk : tracker;
  sm_totalAckedAfterLast : Z }.   (* totalBytesAckedAfterLastAckEvent *)

(* the bbrSender fields outside layer 2's wstate *)
Record mach := mkM {
  m_numLossEv : Z;                (* numLossEventsInRound, uint64 *)
  m_bytesLostInRound : Z;
  m_maxBw : wfilt Z;              (* maxBandwidth *)
  m_minRtt : Z; m_minRttTs : Z;
  m_pacingRate : Z;               (* Bandwidth, bits/s *)
  m_pacingGain : f64; m_cwndGain : f64;
  m_cycleOff : Z; m_lastCycleStart : Z;
  m_roundsNoGain : Z; m_bwAtLastRound : Z;
  m_exitingQuiescence : bool; m_exitProbeRttAt : Z; m_probeRttRoundPassed : bool;
  m_lastSampleAppLimited : bool; m_hasNoAppLimitedSample : bool;
  m_detectOvershooting : bool; m_bytesLostOvershoot : Z }.

Record fstate := mkF { fw : wstate; fm : mach; fpc : pacer; fs : sampler }.

(* newBbrSender(clock, m, icw, mcw, profile): construction, applyProfile, enterStartupMode *)
Definition new_tracker (P : prof) : tracker :=
  mkTr (wf_new xev0 c12_bandwidthWindowSize) 0 0 invalidPacketNumber 0
       (if p_overestimateAvoidance P then f_two else f_one) false (p_reduceExtraAcked P).
Definition new_sampler (P : prof) : sampler :=
  mkSm 0 0 0 0 0 0 invalidPacketNumber invalidPacketNumber false invalidPacketNumber
       (pq_new cse0 c12_connectionStateMapQueueSize) ackpt0 ackpt0 (rb_init ackpt0 c12_candidatesBufferSize)
       (new_tracker P) 0.
Definition new_mach (P : prof) : mach :=
  mkM 0 0 (wf_new 0 c12_bandwidthWindowSize) 0 0 0 (p_highGain P) (p_highCwndGain P) 0 0 0 0 false 0 false false false
      (p_detectOvershooting P) 0.
Definition new_pacer : pacer := mkP (maxBurstPackets * c12_InitialPacketSize) c12_InitialPacketSize 0.
Definition new_full (P : prof) (m icw mcw : Z) : fstate :=
  mkF (new_sender_with m icw mcw) (new_mach P) new_pacer (new_sampler P).

(* ------------------------------------------------------------------ bandwidth.go, small helpers *)
(* BandwidthFromDelta(bytes, delta) = Bandwidth(bytes) * Bandwidth(time.Second) / Bandwidth(delta) * BytesPerSecond *)
Definition bw_from_delta (bytes delta : Z) : Res Z :=
  if u64w delta =? 0 then Panic 12
  else Ok (u64w (qdiv (u64w (u64w bytes * ns_second)) (u64w delta) * c12_BytesPerSecond)).

(* bytesFromBandwidthAndTimeDelta *)
Definition bytes_from_bw_dt (bw delta : Z) : Z :=
  squot (i64w (i64w bw * delta)) (ns_second * 8).

(* bdpFromRttAndBandwidth *)
Definition bdp_of (rtt bw : Z) : Z :=
  squot (squot (i64w (rtt * i64w bw)) c12_BytesPerSecond) ns_second.

(* getMinRtt *)
Definition get_min_rtt (minRtt rttMin : Z) : Z :=
  if negb (minRtt =? 0) then minRtt else if rttMin =? 0 then 100000000 else rttMin.

(* getTargetCongestionWindow(gain) *)
Definition target_cwnd (gain : f64) (rtt bw icw mincw : Z) : Z :=
  let cw := to_int64 (fmul gain (of_Z (bdp_of rtt bw))) in
  let cw := if cw =? 0 then to_int64 (fmul gain (of_Z icw)) else cw in
  Z.max cw mincw.

(* PacingRate() / bandwidthForPacer() *)
Definition pacing_rate_f (P : prof) (w : wstate) (m : mach) (rttMin : Z) : Res Z :=
  if m_pacingRate m =? 0 then
    b <- bw_from_delta (initCW w) (get_min_rtt (m_minRtt m) rttMin) ;;
    Ok (to_uint64 (fmul (p_highGain P) (of_Z b)))
  else Ok (m_pacingRate m).
Definition bw_for_pacer_f (P : prof) (w : wstate) (m : mach) (rttMin : Z) : Res Z :=
  r <- pacing_rate_f P w m rttMin ;; Ok (bandwidth_for_pacer r).

(* Pacer.SentPacket *)
Definition pacer_sent (p : pacer) (bw now size : Z) : pacer :=
  let b := pacer_budget p bw now in
  mkP (if b <? size then 0 else i64w (b - size)) (p_mds p) now.

(* ------------------------------------------------------------------ bandwidth_sampler.go *)
(* recentAckPoints.Update *)
Definition rap_update (r0 r1 : ackpt) (t tot : Z) : ackpt * ackpt :=
  if t <? fst r1 then (r0, (t, tot))
  else if fst r1 <? t then (r1, (t, tot))
  else (r0, (fst r1, tot)).
(* LessRecentPoint *)
Definition rap_less_recent (r0 r1 : ackpt) : ackpt := if negb (snd r0 =? 0) then r0 else r1.

(* OnAppLimited *)
Definition sm_app_limited (s : sampler) : sampler :=
  let 'mkSm tS tA tL tbs lst lat lS lA app eoa q r0 r1 a0 tr tAf := s in
  mkSm tS tA tL tbs lst lat lS lA true lS q r0 r1 a0 tr tAf.

(* bandwidthSampler.OnPacketSent *)
Definition sm_on_sent (oa : bool) (s : sampler) (now pn bytes bif : Z) (retx : bool) : Res sampler :=
  let 'mkSm tS tA tL tbs lst lat lS lA app eoa q r0 r1 a0 tr tAf := s in
  if negb retx then Ok (mkSm tS tA tL tbs lst lat pn lA app eoa q r0 r1 a0 tr tAf) else
  let tS' := i64w (tS + bytes) in
  x <- (if bif =? 0 then
          (if oa then
             let rr := rap_update ackpt0 ackpt0 now tA in
             a0' <- rb_push ackpt0 (rb_clear ackpt0 a0) (snd rr) ;;
             Ok (tS', now, now, fst rr, snd rr, a0')
           else Ok (tS', now, now, r0, r1, a0))
        else Ok (tbs, lst, lat, r0, r1, a0)) ;;
  let '(tbs', lst', lat', r0', r1', a0') := x in
  let e := mkCse now bytes tbs' lst' lat' (mkSts true app tS' tA tL (i64w (bif + bytes))) in
  y <- pq_emplace cse0 q pn (Some e) ;;
  Ok (mkSm tS' tA tL tbs' lst' lat' pn lA app eoa (fst y) r0' r1' a0' tr tAf).

(* OnPacketLost *)
Definition sm_on_lost (s : sampler) (pn bytes : Z) : Res (sampler * sts) :=
  let 'mkSm tS tA tL tbs lst lat lS lA app eoa q r0 r1 a0 tr tAf := s in
  e <- pq_get cse0 q pn ;;
  Ok (mkSm tS tA (i64w (tL + bytes)) tbs lst lat lS lA app eoa q r0 r1 a0 tr tAf,
      match e with Some sp => sts_valid (c_sts sp) | None => sts0 end).

Fixpoint sm_lost_loop (s : sampler) (lost : list (Z * Z)) (last : sts) : Res (sampler * sts) :=
  match lost with
  | [] => Ok (s, last)
  | p :: t => x <- sm_on_lost s (fst p) (snd p) ;;
              sm_lost_loop (fst x) t (if s_valid (snd x) then snd x else last)
  end.

(* chooseA0Point: first index i in [i0, i0+n) whose candidate has acked more than `tot` *)
Fixpoint a0_scan (n : nat) (r : ring ackpt) (i tot : Z) : Res (option Z) :=
  match n with
  | O => Ok None
  | S k => j <- rb_offset r i ;;
           if tot <? snd (rb_get ackpt0 r j) then Ok (Some i) else a0_scan k r (i + 1) tot
  end.
Fixpoint pop_n (n : nat) (r : ring ackpt) : Res (ring ackpt) :=
  match n with
  | O => Ok r
  | S k => x <- rb_pop ackpt0 r ;; pop_n k (snd x)
  end.
(* the trailing loop of chooseA0Point, `for k := 0; k < b.a0Candidates.Len()-1; k++ { PopFront() }`: Len() is
   re-evaluated on every iteration while the pops shrink it, so the loop stops when k reaches the remaining
   length - 1 (about half of the candidates stay), not after Len-1 pops.  Modelled as the code is. *)
Fixpoint pop_while (fuel : nat) (k : Z) (r : ring ackpt) : Res (ring ackpt) :=
  match fuel with
  | O => Panic 99
  | S f => if k <? Z.of_nat (rb_len r) - 1 then x <- rb_pop ackpt0 r ;; pop_while f (k + 1) (snd x) else Ok r
  end.
Definition choose_a0 (r : ring ackpt) (tot : Z) : Res (option ackpt * ring ackpt) :=
  if rb_empty r then Ok (None, r) else
  if (rb_len r =? 1)%nat then i <- rb_front r ;; Ok (Some (rb_get ackpt0 r i), r) else
  f <- a0_scan (rb_len r - 1) r 1 tot ;;
  match f with
  | Some i => j <- rb_offset r (i - 1) ;;
              r' <- pop_n (Z.to_nat (i - 1)) r ;;
              Ok (Some (rb_get ackpt0 r j), r')
  | None => j <- rb_back r ;;
            r' <- pop_while (S (rb_len r)) 0 r ;;
            Ok (Some (rb_get ackpt0 r j), r')
  end.

(* bandwidthSample{bandwidth, rtt, sendRate, stateAtSend} *)
Record bsample := mkBS { bs_bw : Z; bs_rtt : Z; bs_sendRate : Z; bs_state : sts }.
Definition bsample0 : bsample := mkBS 0 0 infBandwidth sts0.

(* onPacketAcknowledged *)
Definition sm_on_acked (oa : bool) (s : sampler) (ackTime pn : Z) : Res (sampler * bsample) :=
  let 'mkSm tS tA tL tbs lst lat lS lA app eoa q r0 r1 a0 tr tAf := s in
  e <- pq_get cse0 q pn ;;
  match e with
  | None => Ok (mkSm tS tA tL tbs lst lat lS pn app eoa q r0 r1 a0 tr tAf, bsample0)
  | Some sp =>
    let tA' := i64w (tA + c_size sp) in
    let rr := if oa then rap_update r0 r1 ackTime tA' else (r0, r1) in
    let app' := if app && ((eoa =? invalidPacketNumber) || (eoa <? pn)) then false else app in
    let base := fun a0' => mkSm tS tA' tL (s_sent (c_sts sp)) (c_sentTime sp) ackTime lS pn app' eoa q
                                (fst rr) (snd rr) a0' tr tAf in
    if c_lastAckedSentTime sp =? 0 then Ok (base a0, bsample0) else
    sendRate <- (if c_lastAckedSentTime sp <? c_sentTime sp
                 then bw_from_delta (i64w (s_sent (c_sts sp) - c_tbsAtLastAcked sp))
                                    (i64w (c_sentTime sp - c_lastAckedSentTime sp))
                 else Ok infBandwidth) ;;
    x <- (if oa then choose_a0 a0 (s_acked (c_sts sp)) else Ok (None, a0)) ;;
    let a0pt := match fst x with Some p => p | None => (c_lastAckedAckTime sp, s_acked (c_sts sp)) end in
    let s' := base (snd x) in
    if i64w (ackTime - fst a0pt) <=? 0 then Ok (s', bsample0) else
    ackRate <- bw_from_delta (i64w (tA' - snd a0pt)) (i64w (ackTime - fst a0pt)) ;;
    Ok (s', mkBS (Z.min sendRate ackRate) (i64w (ackTime - c_sentTime sp)) sendRate (sts_valid (c_sts sp)))
  end.

(* the loop over ackedPackets in OnCongestionEvent: (sampler, lastAckedPacketSendState, sampleRtt,
   sampleMaxBandwidth, sampleIsAppLimited) *)
Fixpoint sm_ack_loop (oa : bool) (s : sampler) (now : Z) (acked : list (Z * Z)) (lastSt : sts)
         (rtt maxBw : Z) (appl : bool) : Res (sampler * sts * Z * Z * bool) :=
  match acked with
  | [] => Ok (s, lastSt, rtt, maxBw, appl)
  | p :: t =>
    x <- sm_on_acked oa s now (fst p) ;;
    let b := snd x in
    if negb (s_valid (bs_state b)) then sm_ack_loop oa (fst x) now t lastSt rtt maxBw appl else
    let rtt' := if bs_rtt b =? 0 then rtt else Z.min rtt (bs_rtt b) in
    if maxBw <? bs_bw b
    then sm_ack_loop oa (fst x) now t (bs_state b) rtt' (bs_bw b) (s_appLimited (bs_state b))
    else sm_ack_loop oa (fst x) now t (bs_state b) rtt' maxBw appl
  end.

(* maxAckHeightTracker.Update: one of the three re-insertions after Clear() *)
Definition trk_reinsert (f : wfilt xev) (bw : Z) (e : xev) : wfilt xev :=
  let '(x, ba, td, rd) := e in
  let expected := bytes_from_bw_dt bw td in
  if expected <? ba then wf_update xev0 cmp_xev f (i64w (ba - expected), ba, td, rd) rd else f.

Definition trk_update (tr : tracker) (bw : Z) (isNewMax : bool) (round lastSentPn lastAckedPn ackTime bytesAcked : Z)
  : tracker * Z :=
  let 'mkTr f es eb lsb ne th nef red := tr in
  let f1 := if red && isNewMax then
              let best := wf_best f in let second := wf_second f in let third := wf_third f in
              trk_reinsert (trk_reinsert (trk_reinsert (wf_clear xev0 f) bw best) bw second) bw third
            else f in
  let force := nef && negb (lsb =? invalidPacketNumber) && negb (lastAckedPn =? invalidPacketNumber) &&
               (lsb <? lastAckedPn) in
  if (es =? 0) || force then (mkTr f1 ackTime bytesAcked lastSentPn (u64w (ne + 1)) th nef red, 0) else
  let aggDelta := i64w (ackTime - es) in
  let expected := bytes_from_bw_dt bw aggDelta in
  if eb <=? to_int64 (fmul th (of_Z expected))
  then (mkTr f1 ackTime bytesAcked lastSentPn (u64w (ne + 1)) th nef red, 0) else
  let eb' := i64w (eb + bytesAcked) in
  let extra := i64w (eb' - expected) in
  (mkTr (wf_update xev0 cmp_xev f1 (extra, eb', aggDelta, 0) round) es eb' lsb ne th nef red, extra).

(* maxAckHeightTracker.Reset *)
Definition trk_reset (tr : tracker) (h t : Z) : tracker :=
  let 'mkTr f es eb lsb ne th nef red := tr in
  mkTr (wf_reset f (h, 0, 0, t) t) es eb lsb ne th nef red.
Definition sm_reset_tracker (s : sampler) (h t : Z) : sampler :=
  let 'mkSm tS tA tL tbs lst lat lS lA app eoa q r0 r1 a0 tr tAf := s in
  mkSm tS tA tL tbs lst lat lS lA app eoa q r0 r1 a0 (trk_reset tr h t) tAf.
Definition sm_max_ack_height (s : sampler) : Z := xev_extra (wf_best (t_filter (sm_trk s))).

(* onAckEventEnd *)
Definition sm_on_ack_event_end (oa : bool) (s : sampler) (bwEst : Z) (isNewMax : bool) (round : Z)
  : Res (sampler * Z) :=
  let 'mkSm tS tA tL tbs lst lat lS lA app eoa q r0 r1 a0 tr tAf := s in
  let newly := i64w (tA - tAf) in
  if newly =? 0 then Ok (s, 0) else
  let x := trk_update tr bwEst isNewMax round lS lA lat newly in
  a0' <- (if oa && (snd x =? 0) then rb_push ackpt0 a0 (rap_less_recent r0 r1) else Ok a0) ;;
  Ok (mkSm tS tA tL tbs lst lat lS lA app eoa q r0 r1 a0' (fst x) tA, snd x).

(* congestionEventSample: sampleMaxBandwidth, sampleIsAppLimited, sampleRtt, lastPacketSendState, extraAcked *)
Record cesample := mkCE { ce_maxBw : Z; ce_appLimited : bool; ce_rtt : Z; ce_lastState : sts; ce_extra : Z }.

(* bandwidthSampler.OnCongestionEvent(ackTime, acked, lost, maxBandwidth, infBandwidth, roundTripCount) *)
Definition sm_on_cong (oa : bool) (s : sampler) (now : Z) (acked lost : list (Z * Z)) (maxBwBest round : Z)
  : Res (sampler * cesample) :=
  x <- sm_lost_loop s lost sts0 ;;
  let lastLost := snd x in
  match acked with
  | [] => Ok (fst x, mkCE 0 false infRTT lastLost 0)
  | _ =>
    y <- sm_ack_loop oa (fst x) now acked sts0 infRTT 0 false ;;
    let '(s2, lastAck, rtt, smb, appl) := y in
    let lastSt := if negb (s_valid lastLost) then lastAck
                  else if negb (s_valid lastAck) then lastLost
                  else if last_pn acked <? last_pn lost then lastLost else lastAck in
    let isNew := maxBwBest <? smb in
    let bwEst := Z.min infBandwidth (Z.max maxBwBest smb) in
    z <- sm_on_ack_event_end oa s2 bwEst isNew round ;;
    Ok (fst z, mkCE smb appl rtt lastSt (snd z))
  end.

(* RemoveObsoletePackets *)
Definition sm_remove_obsolete (s : sampler) (least : Z) : Res sampler :=
  let 'mkSm tS tA tL tbs lst lat lS lA app eoa q r0 r1 a0 tr tAf := s in
  q' <- pq_remove_upto cse0 q least ;;
  Ok (mkSm tS tA tL tbs lst lat lS lA app eoa q' r0 r1 a0 tr tAf).

(* ------------------------------------------------------------------ bbr_sender.go: the state machine *)
(* maybeUpdateMinRtt: (minRtt, minRttTimestamp, minRttExpired) *)
Definition maybe_update_min_rtt (minRtt ts now sample : Z) : Z * Z * bool :=
  let expired := negb (minRtt =? 0) && (i64w (ts + c12_minRttExpiryNs) <? now) in
  if expired || (sample <? minRtt) || (minRtt =? 0) then (sample, now, expired) else (minRtt, ts, expired).

(* enterProbeBandwidthMode: (cycleCurrentOffset, pacingGain); mode, congestionWindowGain, lastCycleStart set by the caller *)
Definition enter_probe_bw (rnd : Z) : Res (Z * f64) :=
  let r := Z.rem rnd (c12_gainCycleLength - 1) in
  let off := if 1 <=? r then r + 1 else r in
  g <- gain_at off ;; Ok (off, g).

(* updateGainCyclePhase: (pacingGain, cycleCurrentOffset, lastCycleStart) *)
Definition update_gain_cycle (drainToTarget : bool) (pg : f64) (off lcs now prior : Z) (hasLosses : bool)
           (inflightNow rtt : Z) (tgt : f64 -> Z) : Res (f64 * Z * Z) :=
  let adv0 := i64w (lcs + rtt) <? now in
  let adv1 := if fltb f_one pg && negb hasLosses && (prior <? tgt pg) then false else adv0 in
  let adv2 := if fltb pg f_one && (inflightNow <=? tgt f_one) then true else adv1 in
  if adv2 then
    let off' := Z.rem (i64w (off + 1)) c12_gainCycleLength in
    g <- gain_at off' ;;
    if drainToTarget && fltb pg f_one && feqb g f_one && (tgt f_one <? inflightNow)
    then Ok (pg, off', now) else Ok (g, off', now)
  else Ok (pg, off, lcs).

(* shouldExitStartupDueToLoss *)
Definition exit_startup_due_to_loss (numLossEv bytesLostInRound : Z) (ls : sts) : bool :=
  if (numLossEv <? c12_startupFullLossCount) || negb (s_valid ls) then false else
  if (0 <? s_inflight ls) && (0 <? bytesLostInRound)
  then to_int64 (fmul (of_Z (s_inflight ls)) loss_threshold) <? bytesLostInRound
  else false.

(* calculatePacingRate: (pacingRate, detectOvershooting, bytesLostWhileDetectingOvershooting) *)
Definition calc_pacing_rate (P : prof) (best : Z) (pg : f64) (atFull : bool) (pr : Z) (det : bool) (blo : Z)
           (hnas : bool) (icw cwndMinP rttMin bytesLost : Z) : Res (Z * bool * Z) :=
  if best =? 0 then Ok (pr, det, blo) else
  let targetRate := to_uint64 (fmul pg (of_Z best)) in
  if atFull then Ok (targetRate, det, blo) else
  if (pr =? 0) && negb (rttMin =? 0) then
    r <- bw_from_delta icw rttMin ;; Ok (r, det, blo)
  else
    x <- (if det then
            let blo1 := i64w (blo + bytesLost) in
            if (targetRate <? pr) && (0 <? blo1) then
              if hnas || (icw <? i64w (blo1 * p_bytesLostMult P)) then
                r <- bw_from_delta cwndMinP rttMin ;; Ok (Z.max targetRate r, false, 0)
              else Ok (pr, det, blo1)
            else Ok (pr, det, blo1)
          else Ok (pr, det, blo)) ;;
    let '(pr1, det1, blo1) := x in
    Ok (Z.max pr1 targetRate, det1, blo1).

Definition sum_bytes (l : list (Z * Z)) : Z := fold_left (fun a p => a + snd p) l 0.
Definition is_nil {A} (l : list A) : bool := match l with [] => true | _ => false end.

(* checkIfFullBandwidthReached, called when isRoundStart && !isAtFullBandwidth:
   (isAtFullBandwidth, roundsWithoutBandwidthGain, bandwidthAtLastRound, ResetMaxAckHeightTracker called) *)
Definition check_full_bw (P : prof) (lsal : bool) (rng balr best nle blr : Z) (ls : sts) : bool * Z * Z * bool :=
  if lsal then (false, rng, balr, false) else
  let target := to_uint64 (fmul (of_Z balr) growth_target) in
  if target <=? best then (false, 0, best, p_expireAckAgg P)
  else
    let rng' := i64w (rng + 1) in
    ((p_numStartupRtts P <=? rng') || exit_startup_due_to_loss nle blr ls, rng', balr, false).

(* the gain / mode part of the state machine: (mode, pacingGain, congestionWindowGain, cycleCurrentOffset, lastCycleStart) *)
Definition gstate : Type := (Z * f64 * f64 * Z * Z)%type.

(* maybeExitStartupOrDrain; `low` = bytesInFlight <= getTargetCongestionWindow(1) *)
Definition exit_startup_or_drain (P : prof) (g : gstate) (full low : bool) (rnd now : Z) : Res gstate :=
  let '(md, pg, cg, off, lcs) := g in
  let g1 := if (md =? c12_modeStartup) && full
            then (c12_modeDrain, p_drainGain P, p_highCwndGain P, off, lcs) else g in
  let '(md1, pg1, cg1, off1, lcs1) := g1 in
  if (md1 =? c12_modeDrain) && low
  then e <- enter_probe_bw rnd ;; Ok (c12_modeProbeBw, snd e, p_cwndGainConst P, fst e, now)
  else Ok g1.

(* maybeEnterOrExitProbeRtt (without its last statement, exitingQuiescence = false):
   (gstate, exitProbeRttAt, probeRttRoundPassed, minRttTimestamp, sampler.OnAppLimited called);
   `small` = bytesInFlight < probeRttCongestionWindow() + MaxPacketBufferSize *)
Definition enter_exit_probe_rtt (P : prof) (g : gstate) (full expired exitingQ isRoundStart small : bool)
           (exitAt : Z) (rp : bool) (minRttTs rnd now : Z) : Res (gstate * Z * bool * Z * bool) :=
  let '(md, pg, cg, off, lcs) := g in
  let enter := expired && negb exitingQ && negb (md =? c12_modeProbeRtt) in
  let g1 := if enter then (c12_modeProbeRtt, f_one, cg, off, lcs) else g in
  let exitAt1 := if enter then 0 else exitAt in
  if fst (fst (fst (fst g1))) =? c12_modeProbeRtt then
    if exitAt1 =? 0 then
      if small then Ok (g1, i64w (now + c12_probeRttTimeNs), false, minRttTs, true)
      else Ok (g1, exitAt1, rp, minRttTs, true)
    else
      let rp1 := if isRoundStart then true else rp in
      if (0 <=? i64w (now - exitAt1)) && rp1 then
        if negb full then Ok ((c12_modeStartup, p_highGain P, p_highCwndGain P, off, lcs), exitAt1, rp1, now, true)
        else e <- enter_probe_bw rnd ;;
             Ok ((c12_modeProbeBw, snd e, p_cwndGainConst P, fst e, now), exitAt1, rp1, now, true)
      else Ok (g1, exitAt1, rp1, minRttTs, true)
  else Ok (g1, exitAt1, rp, minRttTs, false).

(* OnCongestionEventEx(priorInFlight, eventTime, ackedPackets, lostPackets) *)
Definition f_cong (P : prof) (st : fstate) (now prior rttMin rnd : Z) (acked lost : list (Z * Z)) : Res fstate :=
  let w := fw st in let m := fm st in let s := fs st in
  let oa := p_overestimateAvoidance P in
  let tAbefore := sm_totalAcked s in
  let tLbefore := sm_totalLost s in
  (* maybeAppLimited(priorInFlight) *)
  let best0 := wf_best (m_maxBw m) in
  let s0 := if prior <? target_cwnd f_one (get_min_rtt (m_minRtt m) rttMin) best0 (initCW w) (minCW w)
            then sm_app_limited s else s in
  (* bytesInFlight, round counter, recovery state: layer 2 *)
  let sumA := sum_bytes acked in let sumL := sum_bytes lost in
  let hasLosses := negb (is_nil lost) in
  let lastAcked := match acked with [] => None | _ => Some (last_pn acked) end in
  let w0 := set_inflight w (wrap64 (prior - sumA - sumL)) in
  let wr := match lastAcked with
            | Some la => let x := update_round w0 la in (update_recovery (fst x) la hasLosses (snd x), snd x)
            | None => (w0, false)
            end in
  let w1 := fst wr in let isRoundStart := snd wr in
  (* the sampler *)
  x <- sm_on_cong oa s0 now acked lost best0 (roundCount w1) ;;
  let s1 := fst x in let ce := snd x in
  let ls := ce_lastState ce in
  let lsal := if s_valid ls then s_appLimited ls else m_lastSampleAppLimited m in
  let hnas := if s_valid ls then m_hasNoAppLimitedSample m || negb lsal else m_hasNoAppLimitedSample m in
  let maxBw1 := if negb (tAbefore =? sm_totalAcked s1) &&
                   (negb (ce_appLimited ce) || (wf_best (m_maxBw m) <? ce_maxBw ce))
                then wf_update 0 cmp_max (m_maxBw m) (ce_maxBw ce) (roundCount w1) else m_maxBw m in
  let mr := if negb (ce_rtt ce =? infRTT) then maybe_update_min_rtt (m_minRtt m) (m_minRttTs m) now (ce_rtt ce)
            else (m_minRtt m, m_minRttTs m, false) in
  let minRtt1 := fst (fst mr) in let minRttTs1 := snd (fst mr) in let expired := snd mr in
  let bytesLost := i64w (sm_totalLost s1 - tLbefore) in
  let excess := ce_extra ce in
  let nle := if hasLosses then u64w (m_numLossEv m + 1) else m_numLossEv m in
  let blr := if hasLosses then i64w (m_bytesLostInRound m + bytesLost) else m_bytesLostInRound m in
  let rtt1 := get_min_rtt minRtt1 rttMin in
  let best1 := wf_best maxBw1 in
  let tgt := fun g => target_cwnd g rtt1 best1 (initCW w1) (minCW w1) in
  (* PROBE_BW: updateGainCyclePhase *)
  gc <- (if mode w1 =? c12_modeProbeBw
         then update_gain_cycle (p_drainToTarget P) (m_pacingGain m) (m_cycleOff m) (m_lastCycleStart m) now prior
                                hasLosses (inflight w1) rtt1 tgt
         else Ok (m_pacingGain m, m_cycleOff m, m_lastCycleStart m)) ;;
  let g0 : gstate := (mode w1, fst (fst gc), m_cwndGain m, snd (fst gc), snd gc) in
  (* STARTUP / DRAIN: checkIfFullBandwidthReached *)
  let fb := if isRoundStart && negb (atFullBw w1)
            then check_full_bw P lsal (m_roundsNoGain m) (m_bwAtLastRound m) best1 nle blr ls
            else (atFullBw w1, m_roundsNoGain m, m_bwAtLastRound m, false) in
  let full1 := fst (fst (fst fb)) in let rng1 := snd (fst (fst fb)) in let balr1 := snd (fst fb) in
  let s2 := if snd fb then sm_reset_tracker s1 0 (roundCount w1) else s1 in
  (* maybeExitStartupOrDrain, maybeEnterOrExitProbeRtt *)
  g2 <- exit_startup_or_drain P g0 full1 (inflight w1 <=? tgt f_one) rnd now ;;
  pr <- enter_exit_probe_rtt P g2 full1 expired (m_exitingQuiescence m) isRoundStart
                             (inflight w1 <? i64w (minCW w1 + c12_MaxPacketBufferSize))
                             (m_exitProbeRttAt m) (m_probeRttRoundPassed m) minRttTs1 rnd now ;;
  let '(g3, exitAt1, rp1, minRttTs2, appl) := pr in
  let '(mode4, pg5, cg4, off3, lcs3) := g3 in
  let s4 := if appl then sm_app_limited s2 else s2 in
  (* calculatePacingRate / calculateCongestionWindow / calculateRecoveryWindow *)
  let bytesAcked := i64w (sm_totalAcked s4 - tAbefore) in
  cp <- calc_pacing_rate P best1 pg5 full1 (m_pacingRate m) (m_detectOvershooting m) (m_bytesLostOvershoot m) hnas
                         (initCW w1) (cwndMinPacing w1) rttMin bytesLost ;;
  let w2 := set_mode w1 mode4 full1 in
  let w3 := calc_cwnd w2 (p_enableAckAgg P) (tgt cg4) (sm_max_ack_height s4) excess bytesAcked (sm_totalAcked s4) in
  let w4 := calc_recovery w3 bytesAcked bytesLost in
  (* RemoveObsoletePackets(leastUnacked) *)
  s5 <- (match acked, lost with
         | [], [] => Panic 13
         | _, _ => sm_remove_obsolete s4 (least_unacked acked lost)
         end) ;;
  let nle' := if isRoundStart then 0 else nle in
  let blr' := if isRoundStart then 0 else blr in
  Ok (mkF w4
          (mkM nle' blr' maxBw1 minRtt1 minRttTs2 (fst (fst cp)) pg5 cg4 off3 lcs3 rng1 balr1 false exitAt1 rp1 lsal hnas
               (snd (fst cp)) (snd cp))
          (fpc st) s5).

(* OnPacketSent(sentTime, bytesInFlight, packetNumber, bytes, isRetransmittable) *)
Definition f_sent (P : prof) (st : fstate) (now bif pn bytes : Z) (retx : bool) (rttMin : Z) : Res fstate :=
  bw <- bw_for_pacer_f P (fw st) (fm st) rttMin ;;
  let pc := pacer_sent (fpc st) bw now bytes in
  let 'mkM a1 a2 a3 a4 a5 a6 a7 a8 a9 a10 a11 a12 eq a14 a15 a16 a17 a18 a19 := fm st in
  let m' := mkM a1 a2 a3 a4 a5 a6 a7 a8 a9 a10 a11 a12 (if bif =? 0 then true else eq) a14 a15 a16 a17 a18 a19 in
  s <- sm_on_sent (p_overestimateAvoidance P) (fs st) now pn bytes bif retx ;;
  Ok (mkF (on_sent (fw st) pn bif) m' pc s).

(* SetMaxDatagramSize *)
Definition f_set_mds (st : fstate) (s : Z) : Res fstate :=
  w <- set_mds (fw st) s ;;
  Ok (mkF w (fm st) (mkP (p_budget (fpc st)) s (p_last (fpc st))) (fs st)).

(* the calls QUIC makes *)
Inductive fevent :=
| FSent (now bif pn bytes : Z) (retx : bool) (rttMin : Z)
| FCong (now prior rttMin rnd : Z) (acked lost : list (Z * Z))      (* (packet number, bytes), ascending *)
| FSetMds (s : Z).

Definition fstep (P : prof) (st : fstate) (e : fevent) : Res fstate :=
  match e with
  | FSent now bif pn bytes retx rttMin => f_sent P st now bif pn bytes retx rttMin
  | FCong now prior rttMin rnd acked lost => f_cong P st now prior rttMin rnd acked lost
  | FSetMds s => f_set_mds st s
  end.

Fixpoint frun (P : prof) (st : fstate) (es : list fevent) : Res fstate :=
  match es with
  | [] => Ok st
  | e :: t => st1 <- fstep P st e ;; frun P st1 t
  end.

(* ------------------------------------------------------------------ the read-only interface *)
Definition f_get_cwnd (st : fstate) : Z := get_cwnd (fw st).                      (* GetCongestionWindow *)
Definition f_can_send (st : fstate) (bif : Z) : bool := can_send (fw st) bif.     (* CanSend *)
Definition f_bw_for_pacer (P : prof) (st : fstate) (rttMin : Z) : Res Z := bw_for_pacer_f P (fw st) (fm st) rttMin.
(* HasPacingBudget(now) *)
Definition f_has_pacing_budget (P : prof) (st : fstate) (now rttMin : Z) : Res bool :=
  bw <- f_bw_for_pacer P st rttMin ;; Ok (mds (fw st) <=? pacer_budget (fpc st) bw now).
(* TimeUntilSend *)
Definition f_time_until_send (P : prof) (st : fstate) (rttMin : Z) : Res Z :=
  bw <- f_bw_for_pacer P st rttMin ;; Ok (pacer_time_until_send (fpc st) bw).
