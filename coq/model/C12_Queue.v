(* C12 model, layer 1: the three containers under the BBR sender.
     core/internal/congestion/bbr/ringbuffer.go                   RingBuffer[T]
     core/internal/congestion/bbr/packet_number_indexed_queue.go  packetNumberIndexedQueue[T]
     core/internal/congestion/bbr/windowed_filter.go              WindowedFilter[V,T]
   Definitions only, transcribed statement by statement; every Go `panic` and every slice index
   is explicit (`Panic site`).  Panic sites:
     1  PushBack: r.ring[r.tailPos] out of range          2  PopFront on an empty ring
     3  Offset: empty ring or index >= Len                4  Offset: negative index (slice index)
     5  Front on an empty ring                            6  Back on an empty ring
     7  PopFront / Front: r.ring[r.headPos] out of range  99 loop fuel exhausted (excluded by theorem)
   Conventions: slice positions (headPos, tailPos, len) are `nat` (Go keeps them in [0,len]);
   packet numbers and counters are `Z` (int64; QUIC packet numbers are < 2^62 and ring lengths are
   < 2^31, so the int64 sums/differences of the queue cannot wrap and are written in Z);
   roundTripCount is uint64 and its subtraction wraps, written explicitly (`sub64`). *)
From Hy Require Export lib.Res gen.ParamsC12.
From Coq Require Import ZArith Bool.
Local Open Scope Z_scope.

Fixpoint upd {A} (i : nat) (x : A) (l : list A) : list A :=
  match l, i with
  | [], _ => []
  | _ :: t, O => x :: t
  | h :: t, S j => h :: upd j x t
  end.

(* ------------------------------------------------------------------ RingBuffer[T] *)
Section Ring.
Variable T : Type.
Variable zero : T.               (* *new(T) *)

Record ring := mkRing { r_buf : list T; r_head : nat; r_tail : nat; r_full : bool }.

Definition rb_cap (r : ring) : nat := length (r_buf r).

(* Init(size): r.ring = make([]T, size) on the zero RingBuffer *)
Definition rb_init (size : nat) : ring := mkRing (repeat zero size) 0 0 false.

Definition rb_len (r : ring) : nat :=
  if r_full r then rb_cap r
  else if (r_head r <=? r_tail r)%nat then (r_tail r - r_head r)%nat
  else (r_tail r + rb_cap r - r_head r)%nat.

Definition rb_empty (r : ring) : bool := negb (r_full r) && (r_head r =? r_tail r)%nat.

(* grow(): double (1 when empty), copy head.. then ..head, headPos=0, tailPos=len(old), full=false *)
Definition rb_grow (r : ring) : ring :=
  let old := r_buf r in
  let n := length old in
  let newSize := if (n =? 0)%nat then 1%nat else (2 * n)%nat in
  mkRing ((skipn (r_head r) old ++ firstn (r_head r) old) ++ repeat zero (newSize - n)) 0 n false.

Definition rb_push (r : ring) (t : T) : Res ring :=
  let r1 := if r_full r || (rb_cap r =? 0)%nat then rb_grow r else r in
  if (rb_cap r1 <=? r_tail r1)%nat then Panic 1 else
  let buf := upd (r_tail r1) t (r_buf r1) in
  let tl := S (r_tail r1) in
  let tl := if (tl =? length buf)%nat then 0%nat else tl in
  Ok (mkRing buf (r_head r1) tl (if (tl =? r_head r1)%nat then true else r_full r1)).

Definition rb_pop (r : ring) : Res (T * ring) :=
  if rb_empty r then Panic 2 else
  if (rb_cap r <=? r_head r)%nat then Panic 7 else
  let t := nth (r_head r) (r_buf r) zero in
  let buf := upd (r_head r) zero (r_buf r) in
  let hd := S (r_head r) in
  let hd := if (hd =? length buf)%nat then 0%nat else hd in
  Ok (t, mkRing buf hd (r_tail r) false).

(* Offset(index) returns &r.ring[offset]; the model returns the slot position. Go's % truncates. *)
Definition rb_offset (r : ring) (index : Z) : Res nat :=
  if rb_empty r || (Z.of_nat (rb_len r) <=? index) then Panic 3 else
  let o := Z.rem (Z.of_nat (r_head r) + index) (Z.of_nat (rb_cap r)) in
  if o <? 0 then Panic 4 else Ok (Z.to_nat o).

Definition rb_front (r : ring) : Res nat :=
  if rb_empty r then Panic 5 else
  if (rb_cap r <=? r_head r)%nat then Panic 7 else Ok (r_head r).

Definition rb_back (r : ring) : Res nat :=
  if rb_empty r then Panic 6 else rb_offset r (Z.of_nat (rb_len r) - 1).

Definition rb_get (r : ring) (i : nat) : T := nth i (r_buf r) zero.
Definition rb_set (r : ring) (i : nat) (x : T) : ring :=
  mkRing (upd i x (r_buf r)) (r_head r) (r_tail r) (r_full r).

Definition rb_clear (r : ring) : ring := mkRing (repeat zero (rb_cap r)) 0 0 false.

End Ring.
Arguments mkRing {T}.
Arguments r_buf {T}. Arguments r_head {T}. Arguments r_tail {T}. Arguments r_full {T}.
Arguments rb_cap {T}. Arguments rb_init {T}. Arguments rb_len {T}. Arguments rb_empty {T}.
Arguments rb_grow {T}. Arguments rb_push {T}. Arguments rb_pop {T}. Arguments rb_offset {T}.
Arguments rb_front {T}. Arguments rb_back {T}. Arguments rb_get {T}. Arguments rb_set {T}.
Arguments rb_clear {T}.

(* ------------------------------------------------------------------ packetNumberIndexedQueue[T] *)
Definition invalidPacketNumber : Z := c12_invalidPacketNumber.   (* -1 *)

Section PQ.
Variable T : Type.
Variable zeroT : T.

Definition ew : Type := (bool * T)%type.          (* entryWrapper{present, entry} *)
Definition ew0 : ew := (false, zeroT).

Record pq := mkPQ { q_entries : ring ew; q_np : Z; q_first : Z }.

Definition pq_new (size : nat) : pq := mkPQ (rb_init ew0 size) 0 invalidPacketNumber.

Definition pq_is_empty (q : pq) : bool := q_np q =? 0.
Definition pq_slots (q : pq) : Z := Z.of_nat (rb_len (q_entries q)).       (* EntrySlotsUsed *)
Definition pq_last (q : pq) : Z :=                                           (* LastPacket *)
  if pq_is_empty q then invalidPacketNumber else q_first q + (pq_slots q - 1).

Fixpoint push_n (r : ring ew) (n : nat) (x : ew) : Res (ring ew) :=
  match n with
  | O => Ok r
  | S k => r1 <- rb_push ew0 r x ;; push_n r1 k x
  end.

(* Emplace(packetNumber, entry): entry = None is Go's nil pointer *)
Definition pq_emplace (q : pq) (pn : Z) (entry : option T) : Res (pq * bool) :=
  match entry with
  | None => Ok (q, false)
  | Some e =>
    if pn =? invalidPacketNumber then Ok (q, false) else
    if pq_is_empty q then
      r <- rb_push ew0 (q_entries q) (true, e) ;; Ok (mkPQ r 1 pn, true)
    else if pn <=? pq_last q then Ok (q, false)
    else
      let offset := pn - q_first q in
      let gap := offset - pq_slots q in
      r1 <- push_n (q_entries q) (Z.to_nat gap) ew0 ;;
      r2 <- rb_push ew0 r1 (true, e) ;;
      Ok (mkPQ r2 (q_np q + 1) (q_first q), true)
  end.

(* getEntryWraper: the slot position of a present entry *)
Definition pq_wrapper (q : pq) (pn : Z) : Res (option nat) :=
  if (pn =? invalidPacketNumber) || pq_is_empty q || (pn <? q_first q) then Ok None else
  let offset := pn - q_first q in
  if pq_slots q <=? offset then Ok None else
  i <- rb_offset (q_entries q) offset ;;
  if fst (rb_get ew0 (q_entries q) i) then Ok (Some i) else Ok None.

Definition pq_get (q : pq) (pn : Z) : Res (option T) :=
  w <- pq_wrapper q pn ;;
  Ok (match w with None => None | Some i => Some (snd (rb_get ew0 (q_entries q) i)) end).

(* clearup(): pop non-present slots from the front; fuel = number of slots + 1 *)
Fixpoint clearup_loop (fuel : nat) (r : ring ew) (first : Z) : Res (ring ew * Z) :=
  match fuel with
  | O => Panic 99
  | S k =>
    if rb_empty r then Ok (r, first) else
    i <- rb_front r ;;
    if fst (rb_get ew0 r i) then Ok (r, first) else
    x <- rb_pop ew0 r ;;
    clearup_loop k (snd x) (first + 1)
  end.

Definition pq_clearup (q : pq) : Res pq :=
  x <- clearup_loop (S (rb_len (q_entries q))) (q_entries q) (q_first q) ;;
  let r := fst x in
  Ok (mkPQ r (q_np q) (if rb_empty r then invalidPacketNumber else snd x)).

(* Remove(packetNumber, f): Some e = "true, and f(e) was called" *)
Definition pq_remove (q : pq) (pn : Z) : Res (pq * option T) :=
  w <- pq_wrapper q pn ;;
  match w with
  | None => Ok (q, None)
  | Some i =>
    let e := rb_get ew0 (q_entries q) i in
    let q1 := mkPQ (rb_set (q_entries q) i (false, snd e)) (q_np q - 1) (q_first q) in
    q2 <- (if pn =? q_first q1 then pq_clearup q1 else Ok q1) ;;
    Ok (q2, Some (snd e))
  end.

Fixpoint upto_loop (fuel : nat) (r : ring ew) (np first pn : Z) : Res (ring ew * Z * Z) :=
  match fuel with
  | O => Panic 99
  | S k =>
    if negb (rb_empty r) && negb (first =? invalidPacketNumber) && (first <? pn) then
      i <- rb_front r ;;
      let np1 := if fst (rb_get ew0 r i) then np - 1 else np in
      x <- rb_pop ew0 r ;;
      upto_loop k (snd x) np1 (first + 1) pn
    else Ok (r, np, first)
  end.

Definition pq_remove_upto (q : pq) (pn : Z) : Res pq :=
  x <- upto_loop (S (rb_len (q_entries q))) (q_entries q) (q_np q) (q_first q) pn ;;
  let '(r, np, first) := x in
  pq_clearup (mkPQ r np first).

End PQ.
Arguments mkPQ {T}. Arguments q_entries {T}. Arguments q_np {T}. Arguments q_first {T}.
Arguments pq_new {T}. Arguments pq_is_empty {T}. Arguments pq_slots {T}. Arguments pq_last {T}.
Arguments pq_emplace {T}. Arguments pq_wrapper {T}. Arguments pq_get {T}. Arguments pq_clearup {T}.
Arguments pq_remove {T}. Arguments pq_remove_upto {T}. Arguments push_n {T}.
Arguments clearup_loop {T}. Arguments upto_loop {T}.

(* ------------------------------------------------------------------ WindowedFilter[V,T] *)
(* T is instantiated with roundTripCount (uint64) everywhere in bbr: times are Z in [0,2^64) and
   `newTime - time` wraps. *)
Definition two64 : Z := 18446744073709551616.
Definition sub64 (a b : Z) : Z := (a - b) mod two64.

Section WF.
Variable V : Type.
Variable zeroV : V.                       (* *new(V) *)
Variable cmp : V -> V -> Z.               (* comparator: 1 / -1 / 0 *)

Definition went : Type := (V * Z)%type.   (* entry{sample, time} *)
Record wfilt := mkWF { w_len : Z; w0 : went; w1 : went; w2 : went }.

Definition wf_new (windowLength : Z) : wfilt :=
  mkWF windowLength (zeroV, 0) (zeroV, 0) (zeroV, 0).
Definition wf_clear (f : wfilt) : wfilt := wf_new (w_len f).
Definition wf_set_window (f : wfilt) (l : Z) : wfilt := mkWF l (w0 f) (w1 f) (w2 f).
Definition wf_best (f : wfilt) : V := fst (w0 f).
Definition wf_second (f : wfilt) : V := fst (w1 f).
Definition wf_third (f : wfilt) : V := fst (w2 f).

Definition wf_reset (f : wfilt) (s : V) (t : Z) : wfilt := mkWF (w_len f) (s, t) (s, t) (s, t).

Definition wf_update (f : wfilt) (s : V) (t : Z) : wfilt :=
  if (cmp (fst (w0 f)) zeroV =? 0) || (0 <=? cmp s (fst (w0 f))) || (w_len f <? sub64 t (snd (w2 f)))
  then wf_reset f s t else
  let f1 :=
    if 0 <=? cmp s (fst (w1 f)) then mkWF (w_len f) (w0 f) (s, t) (s, t)
    else if 0 <=? cmp s (fst (w2 f)) then mkWF (w_len f) (w0 f) (w1 f) (s, t)
    else f in
  if w_len f1 <? sub64 t (snd (w0 f1)) then
    let f2 := mkWF (w_len f1) (w1 f1) (w2 f1) (s, t) in
    if w_len f2 <? sub64 t (snd (w0 f2)) then mkWF (w_len f2) (w1 f2) (w2 f2) (w2 f2) else f2
  else if (cmp (fst (w1 f1)) (fst (w0 f1)) =? 0) && (w_len f1 / 4 <? sub64 t (snd (w1 f1))) then
    mkWF (w_len f1) (w0 f1) (s, t) (s, t)
  else if (cmp (fst (w2 f1)) (fst (w1 f1)) =? 0) && (w_len f1 / 2 <? sub64 t (snd (w2 f1))) then
    mkWF (w_len f1) (w0 f1) (w1 f1) (s, t)
  else f1.

End WF.
Arguments mkWF {V}. Arguments w_len {V}. Arguments w0 {V}. Arguments w1 {V}. Arguments w2 {V}.
Arguments wf_new {V}. Arguments wf_clear {V}. Arguments wf_set_window {V}. Arguments wf_best {V}.
Arguments wf_second {V}. Arguments wf_third {V}. Arguments wf_reset {V}. Arguments wf_update {V}.

(* MaxFilter / MinFilter on ordered integers, maxExtraAckedEventFunc on the event's first field *)
Definition cmp_max (a b : Z) : Z := if b <? a then 1 else if a <? b then -1 else 0.
Definition cmp_min (a b : Z) : Z := if a <? b then 1 else if b <? a then -1 else 0.

(* extraAckedEvent{extraAcked, bytesAcked, timeDelta, round} *)
Definition xev : Type := (Z * Z * Z * Z)%type.
Definition xev0 : xev := (0, 0, 0, 0).
Definition xev_extra (e : xev) : Z := fst (fst (fst e)).
Definition cmp_xev (a b : xev) : Z := cmp_max (xev_extra a) (xev_extra b).
