(* C12 model, layer 2: the integer skeleton of bbrSender (core/internal/congestion/bbr/bbr_sender.go),
   the sampler's use of the packet-number queue (bandwidth_sampler.go), the pacer's budget / wake-up
   arithmetic (common/pacer.go) and seedPacketSize (congestion/utils.go).  Definitions only.

   Every float-derived quantity is an INPUT of these functions (an "oracle" value read back from the
   implementation by the correspondence check, universally quantified in the theorems):
     o_target   getTargetCongestionWindow(congestionWindowGain)      (gain * float64(bdp) ...)
     o_mode / o_atFull  mode and isAtFullBandwidth after the float-dependent state machine part
     o_maxAckHeight, o_excess, o_bytesAcked, o_bytesLost, o_totalAcked  sampler outputs
     the pacingRate field (bits/s) and PacingRate()'s float fallback while that field is 0
   What is NOT an oracle: the unit conversion and the floor of bandwidthForPacer (bits/s -> bytes/s by
   BytesPerSecond = 8, float64 round trip included, then the minBps floor), and the branch structure of
   calculateCongestionWindow with each clamp where the code has it.
   int64 additions/subtractions that can wrap are written with wrap64; uint64 with u64.
   Panic sites: 10 SetMaxDatagramSize with a smaller size; 11 integer division by zero in
   scaleByteWindowForDatagramSize. *)
From Hy Require Export lib.Res gen.ParamsC12 model.C12_Queue.
From Coq Require Import ZArith Bool.
Local Open Scope Z_scope.

Definition two63 : Z := 9223372036854775808.
(* int64 / uint64 arithmetic results (two's complement wrap).  The in-range test is only a fast path for the VM
   (Z.modulo on 64-bit operands is ~0.4 ms there): both branches agree on in-range values. *)
Definition wrap64 (x : Z) : Z :=
  if (- two63 <=? x) && (x <? two63) then x else (x + two63) mod two64 - two63.
Definition u64 (x : Z) : Z := if (0 <=? x) && (x <? two64) then x else x mod two64.

Record wstate := mkW {
  mds : Z;            (* maxDatagramSize *)
  minCW : Z;          (* minCongestionWindow *)
  maxCW : Z;          (* maxCongestionWindow *)
  initCW : Z;         (* initialCongestionWindow *)
  cwndMinPacing : Z;  (* cwndToCalculateMinPacingRate *)
  maxCWAdj : Z;       (* maxCongestionWindowWithNetworkParametersAdjusted *)
  cwnd : Z;           (* congestionWindow *)
  recWin : Z;         (* recoveryWindow *)
  mode : Z;           (* bbrMode *)
  recState : Z;       (* bbrRecoveryState *)
  atFullBw : bool;    (* isAtFullBandwidth *)
  endRecoveryAt : Z;
  lastSent : Z;       (* lastSentPacket *)
  curRoundEnd : Z;    (* currentRoundTripEnd *)
  roundCount : Z;     (* roundTripCount, uint64 *)
  inflight : Z        (* bytesInFlight *)
}.

(* newBbrSender(clock, initialMaxDatagramSize, initialCongestionWindow, initialMaxCongestionWindow, profile) *)
Definition new_sender_with (m icw mcw : Z) : wstate :=
  mkW m (c12_minCongestionWindowPackets * m) mcw icw icw mcw icw mcw
      c12_modeStartup c12_recNotInRecovery false invalidPacketNumber invalidPacketNumber invalidPacketNumber 0 0.

(* NewBbrSender(clock, initialMaxDatagramSize, profile) *)
Definition new_sender (m : Z) : wstate :=
  new_sender_with m (c12_initialCongestionWindowPackets * m) (c12_MaxCongestionWindowPackets * m).

(* scaleByteWindowForDatagramSize *)
Definition scale_window (w old new : Z) : Res Z :=
  if old =? new then Ok w else
  if u64 old =? 0 then Panic 11 else
  Ok (wrap64 (u64 (u64 w * u64 new) / u64 old)).

(* SetMaxDatagramSize (with rescalePacketSizedWindows inlined) *)
Definition set_mds (st : wstate) (s : Z) : Res wstate :=
  if s <? mds st then Panic 10 else
  let oldMin := minCW st in
  let oldInit := initCW st in
  let old := mds st in
  i1 <- scale_window (initCW st) old s ;;
  m1 <- scale_window (maxCW st) old s ;;
  let n1 := wrap64 (c12_minCongestionWindowPackets * s) in
  p1 <- scale_window (cwndMinPacing st) old s ;;
  a1 <- scale_window (maxCWAdj st) old s ;;
  let c1 := if cwnd st =? oldMin then n1
            else if cwnd st =? oldInit then i1
            else Z.min m1 (Z.max (cwnd st) n1) in
  let r1 := Z.min m1 (Z.max (recWin st) n1) in
  Ok (mkW s n1 m1 i1 p1 a1 c1 r1 (mode st) (recState st) (atFullBw st) (endRecoveryAt st)
          (lastSent st) (curRoundEnd st) (roundCount st) (inflight st)).

(* GetCongestionWindow / CanSend *)
Definition get_cwnd (st : wstate) : Z :=
  if mode st =? c12_modeProbeRtt then minCW st
  else if negb (recState st =? c12_recNotInRecovery) then Z.min (cwnd st) (recWin st)
  else cwnd st.
Definition can_send (st : wstate) (bytesInFlight : Z) : bool := bytesInFlight <? get_cwnd st.

(* PacingRate(): the pacingRate field (Bandwidth = uint64 BITS per second); while it is still 0 the
   float expression highGain * BandwidthFromDelta(initialCongestionWindow, minRtt) (oracle `fallback`) *)
Definition pacing_rate (pacingRateField fallback : Z) : Z :=
  if pacingRateField =? 0 then fallback else pacingRateField.

(* float64(x) for a uint64 x: exact below 2^53, otherwise rounded to a 53-bit significand, ties to even *)
Definition f64_of_u64 (x : Z) : Z :=
  if x <? 9007199254740992 then x else
  let e := Z.log2 x - 52 in
  let q := x / 2 ^ e in
  let r := x mod 2 ^ e in
  let half := 2 ^ (e - 1) in
  let q1 := if r <? half then q else if half <? r then q + 1 else if Z.even q then q else q + 1 in
  q1 * 2 ^ e.

(* bandwidthForPacer, units explicit.  `rate` is PacingRate() in BITS per second;
     bps := congestion.ByteCount(float64(rate) / float64(BytesPerSecond))        (BytesPerSecond = 8 bits/s)
   is BYTES per second: the float division by 8 is exact (power of two) and the conversion to int64
   truncates (the quotient is below 2^61); the floor test `bps < minBps` is on the bytes/s value. *)
Definition pacer_bps (rate : Z) : Z := f64_of_u64 (u64 rate) / c12_BytesPerSecond.
Definition bandwidth_for_pacer (rate : Z) : Z :=
  let bps := pacer_bps rate in
  if bps <? c12_minBps then c12_minBps else bps.

(* OnPacketSent: the integer fields it writes *)
Definition on_sent (st : wstate) (pn bytesInFlight : Z) : wstate :=
  mkW (mds st) (minCW st) (maxCW st) (initCW st) (cwndMinPacing st) (maxCWAdj st) (cwnd st) (recWin st)
      (mode st) (recState st) (atFullBw st) (endRecoveryAt st) pn (curRoundEnd st) (roundCount st) bytesInFlight.

Definition set_round (st : wstate) (cre rc : Z) : wstate :=
  mkW (mds st) (minCW st) (maxCW st) (initCW st) (cwndMinPacing st) (maxCWAdj st) (cwnd st) (recWin st)
      (mode st) (recState st) (atFullBw st) (endRecoveryAt st) (lastSent st) cre rc (inflight st).
Definition set_rec (st : wstate) (rs era rw cre : Z) : wstate :=
  mkW (mds st) (minCW st) (maxCW st) (initCW st) (cwndMinPacing st) (maxCWAdj st) (cwnd st) rw
      (mode st) rs (atFullBw st) era (lastSent st) cre (roundCount st) (inflight st).
Definition set_cwnd (st : wstate) (c : Z) : wstate :=
  mkW (mds st) (minCW st) (maxCW st) (initCW st) (cwndMinPacing st) (maxCWAdj st) c (recWin st)
      (mode st) (recState st) (atFullBw st) (endRecoveryAt st) (lastSent st) (curRoundEnd st) (roundCount st) (inflight st).
Definition set_recwin (st : wstate) (rw : Z) : wstate :=
  set_rec st (recState st) (endRecoveryAt st) rw (curRoundEnd st).
Definition set_inflight (st : wstate) (b : Z) : wstate :=
  mkW (mds st) (minCW st) (maxCW st) (initCW st) (cwndMinPacing st) (maxCWAdj st) (cwnd st) (recWin st)
      (mode st) (recState st) (atFullBw st) (endRecoveryAt st) (lastSent st) (curRoundEnd st) (roundCount st) b.
Definition set_mode (st : wstate) (m : Z) (full : bool) : wstate :=
  mkW (mds st) (minCW st) (maxCW st) (initCW st) (cwndMinPacing st) (maxCWAdj st) (cwnd st) (recWin st)
      m (recState st) full (endRecoveryAt st) (lastSent st) (curRoundEnd st) (roundCount st) (inflight st).

(* updateRoundTripCounter *)
Definition update_round (st : wstate) (lastAcked : Z) : wstate * bool :=
  if (curRoundEnd st =? invalidPacketNumber) || (curRoundEnd st <? lastAcked)
  then (set_round st (lastSent st) (u64 (roundCount st + 1)), true)
  else (st, false).

(* updateRecoveryState *)
Definition update_recovery (st : wstate) (lastAcked : Z) (hasLosses isRoundStart : bool) : wstate :=
  if negb (atFullBw st) then st else
  let era := if hasLosses then lastSent st else endRecoveryAt st in
  if recState st =? c12_recNotInRecovery then
    (if hasLosses then set_rec st c12_recConservation era 0 (lastSent st)
     else set_rec st (recState st) era (recWin st) (curRoundEnd st))
  else
    let rs1 := if (recState st =? c12_recConservation) && isRoundStart then c12_recGrowth else recState st in
    (* Conservation falls through into Growth's exit test; any other (non-zero) state only has it *)
    let rs2 := if (recState st =? c12_recConservation) || (recState st =? c12_recGrowth)
               then (if negb hasLosses && (era <? lastAcked) then c12_recNotInRecovery else rs1) else rs1 in
    set_rec st rs2 era (recWin st) (curRoundEnd st).

(* calculateCongestionWindow, in the code's own order.
   1. targetWindow: getTargetCongestionWindow(congestionWindowGain) (oracle `target`, only floored at the
      minimum by the code, never capped) plus MaxAckHeight once at full bandwidth / plus excessAcked in
      STARTUP for the profiles with ack aggregation enabled there *)
Definition cc_target_window (st : wstate) (enableAckAggStartup : bool) (target maxAckHeight excessAcked : Z) : Z :=
  if atFullBw st then wrap64 (target + maxAckHeight)
  else if enableAckAggStartup then wrap64 (target + excessAcked)
  else target.

(* 2. the growth step: `if isAtFullBandwidth { cwnd = min(targetWindow, cwnd+bytesAcked) }
      else if cwnd < targetWindow || TotalBytesAcked < initialCongestionWindow { cwnd += bytesAcked }`.
      Neither branch looks at the maximum window: the full-bandwidth branch follows the uncapped target. *)
Definition cc_grow (st : wstate) (tw bytesAcked totalAcked : Z) : Z :=
  if atFullBw st then Z.min tw (wrap64 (cwnd st + bytesAcked))
  else if (cwnd st <? tw) || (totalAcked <? initCW st) then wrap64 (cwnd st + bytesAcked)
  else cwnd st.

(* 3. the limits, after BOTH branches: `cwnd = max(cwnd, minCongestionWindow); cwnd = min(cwnd, maxCongestionWindow)` *)
Definition cc_limits (st : wstate) (c : Z) : Z := Z.min (Z.max c (minCW st)) (maxCW st).

Definition calc_cwnd (st : wstate) (enableAckAggStartup : bool)
           (target maxAckHeight excessAcked bytesAcked totalAcked : Z) : wstate :=
  if mode st =? c12_modeProbeRtt then st else
  let tw := cc_target_window st enableAckAggStartup target maxAckHeight excessAcked in
  set_cwnd st (cc_limits st (cc_grow st tw bytesAcked totalAcked)).

(* calculateRecoveryWindow *)
Definition calc_recovery (st : wstate) (bytesAcked bytesLost : Z) : wstate :=
  if recState st =? c12_recNotInRecovery then st else
  if recWin st =? 0 then set_recwin st (Z.max (minCW st) (wrap64 (inflight st + bytesAcked))) else
  let r1 := if bytesLost <=? recWin st then wrap64 (recWin st - bytesLost) else mds st in
  let r2 := if recState st =? c12_recGrowth then wrap64 (r1 + bytesAcked) else r1 in
  let r3 := Z.max r2 (wrap64 (inflight st + bytesAcked)) in
  set_recwin st (Z.max (minCW st) r3).

(* the oracle values of one OnCongestionEventEx *)
Record oracle := mkO {
  o_mode : Z; o_atFull : bool; o_target : Z; o_maxAckHeight : Z; o_excess : Z;
  o_bytesAcked : Z; o_bytesLost : Z; o_totalAcked : Z }.

(* OnCongestionEventEx: the window skeleton.  sumAcked / sumLost are the sums of the event's
   BytesAcked / BytesLost; lastAcked = Some (largest acked number) when acked is non-empty *)
Definition cong_event (st : wstate) (enableAckAggStartup : bool) (prior sumAcked sumLost : Z)
           (lastAcked : option Z) (hasLosses : bool) (o : oracle) : wstate :=
  let st0 := set_inflight st (wrap64 (prior - sumAcked - sumLost)) in
  let st1 := match lastAcked with
             | Some la => let x := update_round st0 la in update_recovery (fst x) la hasLosses (snd x)
             | None => st0
             end in
  let st2 := set_mode st1 (o_mode o) (o_atFull o) in
  let st3 := calc_cwnd st2 enableAckAggStartup (o_target o) (o_maxAckHeight o) (o_excess o) (o_bytesAcked o) (o_totalAcked o) in
  calc_recovery st3 (o_bytesAcked o) (o_bytesLost o).

(* events of the window skeleton, every float behaviour being a free choice of `oracle` *)
Inductive wevent :=
| WSent (pn bytesInFlight : Z)
| WCong (prior sumAcked sumLost : Z) (lastAcked : option Z) (hasLosses : bool) (o : oracle)
| WSetMds (s : Z).

Definition wstep (agg : bool) (st : wstate) (e : wevent) : Res wstate :=
  match e with
  | WSent pn b => Ok (on_sent st pn b)
  | WCong p a l la hl o => Ok (cong_event st agg p a l la hl o)
  | WSetMds s => set_mds st s
  end.

Fixpoint wrun (agg : bool) (st : wstate) (es : list wevent) : Res wstate :=
  match es with
  | [] => Ok st
  | e :: t => st1 <- wstep agg st e ;; wrun agg st1 t
  end.

(* ------------------------------------------------------------------ seedPacketSize (utils.go) *)
Definition seed_packet_size (quicSize byAddr : Z) : Z :=
  if quicSize <=? 0 then byAddr else Z.min quicSize byAddr.

(* ------------------------------------------------------------------ pacer (common/pacer.go) *)
Definition maxBurstPackets : Z := 10.
Definition maxBurstPacingDelayMultiplier : Z := 4.

Record pacer := mkP { p_budget : Z; p_mds : Z; p_last : Z }.   (* budgetAtLastSent, maxDatagramSize, lastSentTime (ns) *)

Definition max_burst (p : pacer) (bw : Z) : Z :=
  Z.max (Z.quot (wrap64 (maxBurstPacingDelayMultiplier * c12_MinPacingDelayNs * bw)) 1000000000)
        (wrap64 (maxBurstPackets * p_mds p)).

(* Budget(now), getBandwidth() = bw *)
Definition pacer_budget (p : pacer) (bw now : Z) : Z :=
  if p_last p =? 0 then max_burst p bw else
  let b := wrap64 (p_budget p + Z.quot (wrap64 (bw * wrap64 (now - p_last p))) 1000000000) in
  let b := if b <? 0 then 4611686018427387903 else b in
  Z.min (max_burst p bw) b.

(* TimeUntilSend *)
Definition pacer_time_until_send (p : pacer) (bw : Z) : Z :=
  if p_mds p <=? p_budget p then 0 else
  let diff := u64 (1000000000 * u64 (p_mds p - p_budget p)) in
  let d := diff / u64 bw + (if 0 <? diff mod u64 bw then 1 else 0) in
  wrap64 (p_last p + Z.max c12_MinPacingDelayNs (wrap64 d)).

(* ------------------------------------------------------------------ sampler's queue usage *)
(* QUIC-level trace events as the congestion controller sees them *)
Inductive qevent :=
| QSent (pn bytes : Z) (retransmittable : bool)
| QCong (acked lost : list (Z * Z))      (* (packet number, bytes), acked ascending *)
| QSetMds (s : Z).

Definition last_pn (l : list (Z * Z)) : Z := fst (last l (invalidPacketNumber, 0)).

(* leastUnacked as estimated by OnCongestionEventEx *)
Definition least_unacked (acked lost : list (Z * Z)) : Z :=
  match acked with
  | [] => last_pn lost + 1
  | _ => last_pn acked - 2
  end.

(* connectionStateMap under OnPacketSent / OnCongestionEventEx; entries abstracted to their size *)
Definition bk_step (q : pq Z) (e : qevent) : Res (pq Z) :=
  match e with
  | QSent pn bytes true => x <- pq_emplace 0 q pn (Some bytes) ;; Ok (fst x)
  | QSent _ _ false => Ok q
  | QCong acked lost =>
      (* OnPacketLost / onPacketAcknowledged only read entries (GetEntry) *)
      _ <- fold_left (fun r p => _ <- r ;; _ <- pq_get 0 q (fst p) ;; Ok tt) (lost ++ acked) (Ok tt) ;;
      pq_remove_upto 0 q (least_unacked acked lost)
  | QSetMds _ => Ok q
  end.

Fixpoint bk_run (q : pq Z) (es : list qevent) : Res (pq Z) :=
  match es with
  | [] => Ok q
  | e :: t => q1 <- bk_step q e ;; bk_run q1 t
  end.

(* quic_consistent, as a checker: st = (last sent number, outstanding (pn, bytes) ascending, current mds) *)
Fixpoint asc_from (lo : Z) (l : list (Z * Z)) : bool :=
  match l with
  | [] => true
  | p :: t => (lo <? fst p) && asc_from (fst p) t
  end.

Definition mem_pn (pn : Z) (l : list (Z * Z)) : bool := existsb (fun p => fst p =? pn) l.
Definition mem_pb (x : Z * Z) (l : list (Z * Z)) : bool := existsb (fun p => (fst p =? fst x) && (snd p =? snd x)) l.
Definition remove_pns (rm l : list (Z * Z)) : list (Z * Z) := filter (fun p => negb (mem_pn (fst p) rm)) l.

Fixpoint quic_consistent_from (lastSentPn : Z) (outstanding : list (Z * Z)) (m : Z) (es : list qevent) : bool :=
  match es with
  | [] => true
  | QSent pn bytes retrans :: t =>
      (lastSentPn <? pn) && (0 <=? pn) && (0 <? bytes) &&
      quic_consistent_from pn (if retrans then outstanding ++ [(pn, bytes)] else outstanding) m t
  | QCong acked lost :: t =>
      negb (match acked, lost with [], [] => true | _, _ => false end) &&
      asc_from (-1) acked && asc_from (-1) lost &&
      forallb (fun p => mem_pb p outstanding) acked && forallb (fun p => mem_pb p outstanding) lost &&
      forallb (fun p => negb (mem_pn (fst p) lost)) acked &&
      quic_consistent_from lastSentPn (remove_pns (acked ++ lost) outstanding) m t
  | QSetMds s :: t =>
      (m <=? s) && (s <=? c12_MaxPacketBufferSize) && quic_consistent_from lastSentPn outstanding s t
  end.

Definition quic_consistent (m0 : Z) (es : list qevent) : bool :=
  quic_consistent_from invalidPacketNumber [] m0 es.

(* the only part of it the bookkeeping theorem needs *)
Fixpoint sent_increasing_from (lastSentPn : Z) (es : list qevent) : bool :=
  match es with
  | [] => true
  | QSent pn _ _ :: t => (lastSentPn <? pn) && (0 <=? pn) && sent_increasing_from pn t
  | _ :: t => sent_increasing_from lastSentPn t
  end.
