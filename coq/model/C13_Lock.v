(* C13 model, lock discipline of extras/obfs/conn.go: obfsPacketConn.WriteTo runs under c.writeMutex,
   every iteration of the ReadFrom loop under c.readMutex.  Definitions only.

   A sync.Mutex is a bool (true = held).  The calls of a history are made one after the other on
   one wrapped socket (the callers may be different goroutines; a call that returned holds nothing
   of its own).  Lock() on a mutex that an EARLIER, already returned call left held can never
   succeed, nobody is going to release it: that call's outcome is [Stuck] (it never returns) and
   the state is unchanged.

   WriteTo, statement by statement (uerr = what c.Conn.WriteTo returns):
       c.writeMutex.Lock()
       nn := c.Obfs.Obfuscate(p, c.writeBuf)
       _, err = c.Conn.WriteTo(c.writeBuf[:nn], addr)
       c.writeMutex.Unlock()                       <- before the error is looked at: on both outcomes
       if err == nil { n = len(p) } ; return n, err
   One ReadFrom loop iteration on the incoming event e:
       c.readMutex.Lock()
       n, addr, err = c.Conn.ReadFrom(c.readBuf)
       if n <= 0 { c.readMutex.Unlock(); continue or return }
       n = c.Obfs.Deobfuscate(c.readBuf[:n], p)
       c.readMutex.Unlock() ; return or continue
   so both exits of the iteration release the mutex; the value computed is read_iter's. *)
From Hy Require Import lib.Bytes lib.Res model.C13_Salamander.
From Coq Require Import ZArith.

Record locks := mkL { rd_held : bool; wr_held : bool }.

Inductive call :=
| CallW (salt p : list byte) (uerr : option N)        (* WriteTo(p, _) with this salt drawn, the socket below answering uerr *)
| CallR (plen : nat) (e : uev).                        (* one ReadFrom loop iteration, len(p) = plen, the socket below delivering e *)

Inductive ret :=
| RetW (wire : list byte) (n : nat) (err : option N)
| RetR (o : option rres)
| Stuck.

Section Lock.

Variable H : list byte -> list byte.

Definition write_to_lk (psk salt p : list byte) (uerr : option N) (l : locks) : Res (ret * locks) :=
  if wr_held l then Ok (Stuck, l)
  else
    let l1 := mkL (rd_held l) true in                                   (* Lock *)
    r <- obfuscate H psk salt p udpBufferSize ;;                         (* Obfuscate *)
    let l2 := mkL (rd_held l1) false in                                  (* Conn.WriteTo = uerr; Unlock *)
    Ok (RetW (firstn (fst r) (snd r)) (match uerr with None => length p | Some _ => O end) uerr, l2).

Definition read_iter_lk (psk : list byte) (plen : nat) (e : uev) (l : locks) : Res (ret * locks) :=
  if rd_held l then Ok (Stuck, l)
  else
    let l1 := mkL true (wr_held l) in                                   (* Lock *)
    o <- read_iter H psk plen e ;;                                       (* Conn.ReadFrom, Deobfuscate *)
    let l2 := mkL false (wr_held l1) in                                  (* Unlock, on either exit *)
    Ok (RetR o, l2).

Definition step_call (psk : list byte) (c : call) (l : locks) : Res (ret * locks) :=
  match c with
  | CallW salt p uerr => write_to_lk psk salt p uerr l
  | CallR plen e => read_iter_lk psk plen e l
  end.

(* a history of calls: what each returned (or Stuck) and the mutexes at the end *)
Fixpoint run_calls (psk : list byte) (cs : list call) (l : locks) : Res (list ret * locks) :=
  match cs with
  | [] => Ok ([], l)
  | c :: t =>
      x <- step_call psk c l ;;
      y <- run_calls psk t (snd x) ;;
      Ok (fst x :: fst y, snd y)
  end.

End Lock.
