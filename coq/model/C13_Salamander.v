(* C13 model: extras/obfs/salamander.go (newSalamanderObfuscator, Obfuscate, Deobfuscate, keyLocked)
   and extras/obfs/conn.go (obfsPacketConn.ReadFrom, WriteTo).  Definitions only.

   The hash is a Section variable H (the code uses blake2b.Sum256); the correspondence check
   and the wire-format theorem instantiate it with lib/Blake2b.v's blake2b256.

   Go slices are lists whose length is the slice's len; a buffer argument that is only written
   (out, p) is represented by its length (outcap / plen) and the function returns the prefix it
   wrote.  Go failure modes are explicit: Panic 1 = in[:smSaltLen] out of range, Panic 2 = out[i]
   index out of range in the XOR loop, Panic 3 = out[:smSaltLen] out of range.

   keyLocked: o.keyInput has len(PSK)+smSaltLen bytes, its first len(PSK) bytes are the PSK copy made
   by the constructor and its tail is overwritten with the 8 salt bytes before every hash, all under
   o.lk; so the hash input is PSK ++ salt and the buffer carries nothing from one call to the next.

   The salt is produced by o.RandSrc.Read(out[:8]) (math/rand: always fills the 8 bytes); it is an
   input of the model (`salt`, 8 bytes), read back from the wire by the correspondence check.

   The underlying net.PacketConn is modelled by what it hands to the wrapper: one [uev] per
   completed Conn.ReadFrom (datagram as sent by the network, source address, error if any; the
   datagram is cut to len(readBuf) = udpBufferSize as a UDP socket does, so 0 <= n <= 2048) and an
   error option for Conn.WriteTo. *)
From Hy Require Import lib.Bytes lib.Res.
From Hy Require Export gen.ParamsC13.
From Coq Require Import ZArith.

Section Salamander.

Variable H : list byte -> list byte.

(* newSalamanderObfuscator: the object is determined by its PSK copy *)
Definition new_obfs (psk : list byte) : Res (list byte) :=
  if Nat.ltb (length psk) smPSKMinLen then Err EInvalid else Ok psk.

(* s[:n] on a slice with cap = len *)
Definition slice_to (site : N) (n : nat) (l : list byte) : Res (list byte) :=
  if Nat.leb n (length l) then Ok (firstn n l) else Panic site.

(* keyLocked(salt) with len(salt) = smSaltLen *)
Definition key_of (psk salt : list byte) : list byte := H (psk ++ salt).

(* for i, c := range in { out[off+i] = c ^ key[i%smKeyLen] }  with `room` = len(out) - off.
   key is a [32]byte array in Go: the index i%32 is always in range. *)
Fixpoint xor_loop (k : list byte) (i : N) (inp : list byte) (room : nat) : Res (list byte) :=
  match inp with
  | [] => Ok []
  | c :: t =>
      match room with
      | O => Panic 2
      | S r =>
          rest <- xor_loop k (i + 1) t r ;;
          Ok (bxor c (nth (N.to_nat (i mod N.of_nat smKeyLen)) k x00) :: rest)
      end
  end.

(* Obfuscate(in, out) with len(out) = outcap; returns (n, out[:n]) *)
Definition obfuscate (psk salt inp : list byte) (outcap : nat) : Res (nat * list byte) :=
  let outLen := (length inp + smSaltLen)%nat in
  if Nat.ltb outcap outLen then Ok (O, []) else
  if Nat.ltb outcap smSaltLen then Panic 3 else
  body <- xor_loop (key_of psk salt) 0 inp (outcap - smSaltLen) ;;
  Ok (outLen, salt ++ body).

(* Deobfuscate(in, out) with len(out) = outcap; returns (n, out[:n]).  outLen is a Go int and
   may be negative. *)
Definition deobfuscate (psk inp : list byte) (outcap : nat) : Res (nat * list byte) :=
  let outLen := (Z.of_nat (length inp) - Z.of_nat smSaltLen)%Z in
  if (outLen <=? 0)%Z || (Z.of_nat outcap <? outLen)%Z then Ok (O, []) else
  salt <- slice_to 1 smSaltLen inp ;;
  body <- xor_loop (key_of psk salt) 0 (skipn smSaltLen inp) outcap ;;
  Ok (Z.to_nat outLen, body).

(* ---- the socket wrapper (conn.go) ---- *)

(* one completed Conn.ReadFrom(c.readBuf) *)
Record uev := mkEv { u_data : list byte; u_addr : N; u_err : option N }.

(* what ReadFrom(p) returns: n, p[:n], addr, err *)
Record rres := mkR { r_n : nat; r_data : list byte; r_addr : N; r_err : option N }.

Definition is_some {A} (o : option A) : bool := match o with Some _ => true | None => false end.

(* one iteration of the for loop of ReadFrom with len(p) = plen:
   Some r = return r to the caller, None = `continue` (the packet is dropped) *)
Definition read_iter (psk : list byte) (plen : nat) (e : uev) : Res (option rres) :=
  let buf := firstn udpBufferSize (u_data e) in
  let n := length buf in
  if Nat.leb n 0 then
    match u_err e with
    | None => Ok None
    | Some x => Ok (Some (mkR 0 [] (u_addr e) (Some x)))
    end
  else
    r <- deobfuscate psk buf plen ;;
    if Nat.ltb 0 (fst r) || is_some (u_err e)
    then Ok (Some (mkR (fst r) (snd r) (u_addr e) (u_err e)))
    else Ok None.

(* ReadFrom(p): the drop-and-retry loop over the incoming events; Ok None = every event was
   dropped and the call is still blocked in Conn.ReadFrom *)
Fixpoint read_from (psk : list byte) (plen : nat) (evs : list uev) : Res (option (rres * list uev)) :=
  match evs with
  | [] => Ok None
  | e :: rest =>
      o <- read_iter psk plen e ;;
      match o with
      | Some r => Ok (Some (r, rest))
      | None => read_from psk plen rest
      end
  end.

(* successive ReadFrom calls with buffers of the given lengths, until one stays blocked *)
Fixpoint read_seq (psk : list byte) (plens : list nat) (evs : list uev) : Res (list rres) :=
  match plens with
  | [] => Ok []
  | pl :: t =>
      o <- read_from psk pl evs ;;
      match o with
      | None => Ok []
      | Some (r, rest) => rs <- read_seq psk t rest ;; Ok (r :: rs)
      end
  end.

(* WriteTo(p, addr): returns (datagram handed to Conn.WriteTo, n, err); uerr = Conn.WriteTo's error *)
Definition write_to (psk salt p : list byte) (uerr : option N) : Res (list byte * nat * option N) :=
  r <- obfuscate psk salt p udpBufferSize ;;
  Ok (firstn (fst r) (snd r), match uerr with None => length p | Some _ => O end, uerr).

(* ---- concurrent readers on one wrapped socket ----
   Each loop iteration of ReadFrom runs under c.readMutex from Conn.ReadFrom to the end of
   Deobfuscate; what follows the unlock uses only the goroutine's locals (n, addr, err) and its own
   buffer p.  So an execution of several readers is a sequence of atomic iterations, each by some
   reader, each consuming the next incoming event: a schedule is the list of reader ids.
   State: remaining events and the log of returns (reader id, result) in return order. *)
Fixpoint run_readers (psk : list byte) (plen_of : nat -> nat) (sched : list nat) (evs : list uev)
  : Res (list (nat * rres) * list uev) :=
  match sched, evs with
  | [], _ => Ok ([], evs)
  | _, [] => Ok ([], [])
  | rd :: s, e :: rest =>
      o <- read_iter psk (plen_of rd) e ;;
      st <- run_readers psk plen_of s rest ;;
      Ok (match o with Some r => (rd, r) :: fst st | None => fst st end, snd st)
  end.

End Salamander.
