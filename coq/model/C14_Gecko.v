(* C14 model: extras/obfs/gecko.go and extras/obfs/gecko_frame.go (the Gecko layer only; the
   Salamander layer underneath is C13 and contributes the 8-byte salt to the datagram size).
   Definitions only.  Transcribed statement by statement.

   Sender: WrapPacketConnGecko's option validation, WriteTo, writeFragmented, randomPadLen,
   randomFragmentChunks, randIntn, encodeFrame.  Every random draw (crypto/rand) is an oracle
   argument.
   Receiver: decodeFrame, ReadFrom (one inner datagram = one Packet action), acceptChunk,
   dropEntryLocked, evictOldestLocked, gcExpired.  time.Now() and the ticker value are explicit
   inputs of the actions.  The two Go maps are association lists; the only place where Go's map
   iteration order is observable (which of several entries with the same, oldest, deadline is
   evicted) is an oracle argument (choice).

   Go ints are Z; uint8/uint16/uint32 values are N with the wrap written where the code converts. *)
From Hy Require Export lib.Bytes lib.Res lib.AMap gen.ParamsC14.
From Coq Require Import ZArith.
Local Open Scope Z_scope.

Definition zlen {A} (l : list A) : Z := Z.of_nat (length l).

(* ------------------------------------------------------------------ configuration *)

Record cfg := mkCfg { c_min : Z; c_max : Z }.

(* WrapPacketConnGecko (the password check belongs to Salamander): 0 means default *)
Definition wrap_cfg (omin omax : Z) : option cfg :=
  let mn := if omin =? 0 then geckoDefaultMinPacket else omin in
  let mx := if omax =? 0 then geckoDefaultMaxPacket else omax in
  if (mn <=? 0) || (mx <? mn) || (geckoBufferSize <? mx) then None else Some (mkCfg mn mx).

(* ------------------------------------------------------------------ frames *)

Record hdr := mkHdr {
  h_pad : N;    (* uint16 *)
  h_mid : N;    (* uint8 *)
  h_idx : N;    (* uint8 *)
  h_tot : N }.  (* uint8 *)

(* n random bytes out of the oracle's supply (rand.Read fills exactly n bytes) *)
Definition fit (n : nat) (l : list byte) : list byte := firstn n (l ++ repeat x00 n).

(* encodeFrame(h, payload, out) with len(out) = outlen; rnd = what rand.Read writes into the
   padding region.  Result: out[:needed]. *)
Definition encode_frame (h : hdr) (payload : list byte) (outlen : Z) (rnd : list byte)
  : Res (list byte) :=
  if (Z.of_N (h_tot h) <? geckoMinFragmentChunks) || (geckoMaxFragmentChunks <? Z.of_N (h_tot h))
  then Err EInvalid
  else if (h_tot h <=? h_idx h)%N then Err EInvalid
  else
    let needed := geckoHeaderSize + Z.of_N (h_pad h) + zlen payload in
    if outlen <? needed then Err EShort
    else Ok ([n2b geckoFlagFragment; n2b (h_mid h);
              n2b (N.lor ((h_idx h * 16) mod 256) (N.land (h_tot h) 15))]
             ++ be_enc 2 (h_pad h) ++ fit (N.to_nat (h_pad h)) rnd ++ payload)%list.

(* decodeFrame(in): header and the payload sub-slice *)
Definition decode_frame (b : list byte) : Res (hdr * list byte) :=
  if zlen b <? geckoHeaderSize then Err EShort
  else if (N.land (b2n (nth 0 b x00)) geckoFlagFragment =? 0)%N then Err EInvalid
  else
    let b2 := b2n (nth 2 b x00) in
    let h := mkHdr (be_dec [nth 3 b x00; nth 4 b x00]) (b2n (nth 1 b x00)) (b2 / 16)%N (N.land b2 15) in
    if (Z.of_N (h_tot h) <? geckoMinFragmentChunks) || (geckoMaxFragmentChunks <? Z.of_N (h_tot h))
    then Err EInvalid
    else if (h_tot h <=? h_idx h)%N then Err EInvalid
    else if zlen b <? geckoHeaderSize + Z.of_N (h_pad h) then Err EShort
    else Ok (h, skipn (Z.to_nat (geckoHeaderSize + Z.of_N (h_pad h))) b).

(* ------------------------------------------------------------------ sender *)

(* randIntn(n) with the 32-bit draw r *)
Definition rand_intn (n : Z) (r : N) : Res Z :=
  if n <=? 1 then Ok 0
  else
    let m := n mod 2 ^ 32 in               (* uint32(n) *)
    if m =? 0 then Panic 1                  (* gecko.go randIntn: integer divide by zero *)
    else Ok ((Z.of_N r mod 2 ^ 32) mod m).

Definition random_fragment_chunks (r : N) : Res Z :=
  x <- rand_intn (geckoMaxFragmentChunks - geckoMinFragmentChunks + 1) r ;;
  Ok (geckoMinFragmentChunks + x).

(* randomPadLen(chunkLen) *)
Definition pad_len (c : cfg) (chunk_len : Z) (r : N) : Res N :=
  let base := smSaltLen + geckoHeaderSize + chunk_len in
  let lo := Z.max (c_min c) base in
  if c_max c <? lo then Ok 0%N
  else
    x <- rand_intn (c_max c - lo + 1) r ;;
    Ok (Z.to_N ((lo - base + x) mod 65536)). (* uint16(...) *)

(* the random draws of one WriteTo call *)
Record oracle := mkOracle {
  o_chunks : N;                     (* draw of randomFragmentChunks *)
  o_pad : nat -> N;                 (* draw of randomPadLen for chunk i *)
  o_bytes : nat -> list byte }.     (* padding bytes of chunk i *)

(* p[start:end] of the loop body *)
Definition chunk_at (p : list byte) (cs chunks i : Z) : Res (list byte) :=
  let start := i * cs in
  let stop := if i <? chunks - 1 then start + cs else zlen p in
  if (0 <=? start) && (start <=? stop) && (stop <=? zlen p)
  then Ok (firstn (Z.to_nat (stop - start)) (skipn (Z.to_nat start) p))
  else Panic 2.                             (* gecko.go writeFragmented: slice bounds out of range *)

(* the for loop of writeFragmented: frames handed to inner.WriteTo, in order
   when the inner conn accepts every datagram (inner write errors: frag_loop_f / write_to_f below) *)
Fixpoint frag_loop (c : cfg) (p : list byte) (cs chunks : Z) (mid : N) (o : oracle)
         (i : nat) (todo : nat) : Res (list (list byte)) :=
  match todo with
  | O => Ok []
  | S t =>
      chunk <- chunk_at p cs chunks (Z.of_nat i) ;;
      pl <- pad_len c (zlen chunk) (o_pad o i) ;;
      let h := mkHdr pl mid (N.of_nat i mod 256) (Z.to_N chunks mod 256) in
      f <- encode_frame h chunk (geckoHeaderSize + Z.of_N pl + zlen chunk) (o_bytes o i) ;;
      rest <- frag_loop c p cs chunks mid o (S i) t ;;
      Ok (f :: rest)
  end.

(* writeFragmented with the counter value before Add(1); returns frames, new counter, n *)
Definition write_fragmented (c : cfg) (ctr : N) (p : list byte) (o : oracle)
  : Res (list (list byte) * N * Z) :=
  chunks <- random_fragment_chunks (o_chunks o) ;;
  if chunks =? 0 then Panic 3               (* len(p) / chunks: divide by zero *)
  else
    let cs := zlen p / chunks in
    let ctr' := ((ctr + 1) mod 2 ^ 32)%N in (* atomic.Uint32.Add *)
    let mid := (ctr' mod 256)%N in          (* uint8(...) *)
    fs <- frag_loop c p cs chunks mid o 0 (Z.to_nat chunks) ;;
    Ok (fs, ctr', zlen p).

(* WriteTo: datagrams handed to the inner conn, new counter, returned n *)
Definition write_to (c : cfg) (ctr : N) (p : list byte) (o : oracle)
  : Res (list (list byte) * N * Z) :=
  match p with
  | [] => Ok ([], ctr, 0)
  | b0 :: _ =>
      if negb (N.land (b2n b0) 128 =? 0)%N then write_fragmented c ctr p o
      else Ok ([p], ctr, zlen p)
  end.

(* ---- the same send path with INNER WRITE ERRORS as an input of the environment.
   fail = Some k: the k-th call (0-based) of inner.WriteTo made by this WriteTo returns an error
   (the datagram does not reach the wire); None: the inner conn accepts everything.
   writeFragmented's error path is `return 0, err`: the frames handed down before stay on the wire,
   the remaining chunks are never built (no further random draws), and g.msgID is NOT touched again,
   i.e. the message id taken by Add(1) stays consumed. *)
Inductive wres := WDone (n : Z) | WFail.          (* (n, nil) | (0, err) *)

Record wout := mkW {
  w_wire : list (list byte);          (* datagrams the inner conn accepted, in order *)
  w_refused : option (list byte);     (* the datagram whose inner.WriteTo returned the error *)
  w_ctr : N;                          (* g.msgID after the call *)
  w_res : wres }.

Definition fails_at (fail : option nat) (i : nat) : bool :=
  match fail with Some k => Nat.eqb k i | None => false end.

Fixpoint frag_loop_f (c : cfg) (p : list byte) (cs chunks : Z) (mid : N) (o : oracle)
         (fail : option nat) (i : nat) (todo : nat) : Res (list (list byte) * option (list byte)) :=
  match todo with
  | O => Ok ([], None)
  | S t =>
      chunk <- chunk_at p cs chunks (Z.of_nat i) ;;
      pl <- pad_len c (zlen chunk) (o_pad o i) ;;
      let h := mkHdr pl mid (N.of_nat i mod 256) (Z.to_N chunks mod 256) in
      f <- encode_frame h chunk (geckoHeaderSize + Z.of_N pl + zlen chunk) (o_bytes o i) ;;
      if fails_at fail i then Ok ([], Some f)        (* inner.WriteTo(buf[:n]) erred: return 0, err *)
      else
        r <- frag_loop_f c p cs chunks mid o fail (S i) t ;;
        Ok (f :: fst r, snd r)
  end.

Definition write_fragmented_f (c : cfg) (ctr : N) (p : list byte) (o : oracle) (fail : option nat)
  : Res wout :=
  chunks <- random_fragment_chunks (o_chunks o) ;;
  if chunks =? 0 then Panic 3
  else
    let cs := zlen p / chunks in
    let ctr' := ((ctr + 1) mod 2 ^ 32)%N in
    let mid := (ctr' mod 256)%N in
    r <- frag_loop_f c p cs chunks mid o fail 0 (Z.to_nat chunks) ;;
    Ok (mkW (fst r) (snd r) ctr' (match snd r with None => WDone (zlen p) | Some _ => WFail end)).

(* WriteTo; the short-header branch returns the inner conn's own result *)
Definition write_to_f (c : cfg) (ctr : N) (p : list byte) (o : oracle) (fail : option nat) : Res wout :=
  match p with
  | [] => Ok (mkW [] None ctr (WDone 0))
  | b0 :: _ =>
      if negb (N.land (b2n b0) 128 =? 0)%N then write_fragmented_f c ctr p o fail
      else if fails_at fail 0 then Ok (mkW [] (Some p) ctr WFail)
      else Ok (mkW [p] None ctr (WDone (zlen p)))
  end.

(* a sequence of WriteTo calls on one conn: packet, random draws, inner fault of each call *)
Record wreq := mkWR { wr_p : list byte; wr_o : oracle; wr_fail : option nat }.

Fixpoint send_run (c : cfg) (ctr : N) (ws : list wreq) : Res (list wout) :=
  match ws with
  | [] => Ok []
  | w :: t =>
      r <- write_to_f c ctr (wr_p w) (wr_o w) (wr_fail w) ;;
      rest <- send_run c (w_ctr r) t ;;
      Ok (r :: rest)
  end.

Definition is_long (p : list byte) : bool :=
  match p with b0 :: _ => negb (N.land (b2n b0) 128 =? 0)%N | [] => false end.

(* number of long-header packets among the requests *)
Definition count_long (ws : list wreq) : N :=
  N.of_nat (length (filter (fun w => is_long (wr_p w)) ws)).

(* specification-level view of the split: the chunk payloads of p cut in n pieces *)
Definition split_spec (p : list byte) (n : nat) : list (list byte) :=
  let cs := (length p / n)%nat in
  map (fun i => if Nat.ltb i (n - 1) then firstn cs (skipn (i * cs) p) else skipn (i * cs) p) (seq 0 n).

(* ------------------------------------------------------------------ receiver *)

Record entry := mkE {
  e_chunks : list (option (list byte));  (* [][]byte, nil = None *)
  e_received : Z;
  e_total : N;                           (* uint8 *)
  e_deadline : Z }.                      (* ns *)

Definition key := (N * N)%type.          (* (source address, msgID) *)
Definition keqb (a b : key) : bool := ((fst a =? fst b) && (snd a =? snd b))%N.

Record rstate := mkR {
  tbl : list (key * entry);              (* g.reassembly *)
  per : list (N * Z) }.                  (* g.perSource *)

Definition r_init : rstate := mkR [] [].

Definition tget (k : key) (st : rstate) : option entry := aget keqb k (tbl st).
Definition pget (s : N) (st : rstate) : Z :=
  match aget N.eqb s (per st) with Some c => c | None => 0 end.

(* dropEntryLocked *)
Definition drop_entry (k : key) (st : rstate) : rstate :=
  match tget k st with
  | None => st
  | Some _ =>
      let c := pget (fst k) st - 1 in
      mkR (adel keqb k (tbl st))
          (if c <=? 0 then adel N.eqb (fst k) (per st) else aset N.eqb (fst k) c (per st))
  end.

Fixpoint min_deadline (m : list (key * entry)) : option Z :=
  match m with
  | [] => None
  | ke :: t => match min_deadline t with
               | None => Some (e_deadline (snd ke))
               | Some d => Some (Z.min (e_deadline (snd ke)) d)
               end
  end.

Fixpoint first_with (d : Z) (m : list (key * entry)) : option key :=
  match m with
  | [] => None
  | ke :: t => if e_deadline (snd ke) =? d then Some (fst ke) else first_with d t
  end.

(* evictOldestLocked: the loop keeps the first entry it meets among those with the smallest
   deadline; which one that is depends on Go's map order = the oracle "choice" (any entry with the
   minimal deadline is possible; an oracle that does not name one falls back to list order). *)
Definition evict_oldest (choice : key) (st : rstate) : rstate :=
  match min_deadline (tbl st) with
  | None => st
  | Some d =>
      let fallback := match first_with d (tbl st) with Some k => k | None => choice end in
      let k := match tget choice st with
               | Some e => if e_deadline e =? d then choice else fallback
               | None => fallback
               end in
      drop_entry k st
  end.

(* gcExpired(now): range over the table, drop what has now.After(deadline) *)
Fixpoint gc_loop (l : list (key * entry)) (now : Z) (st : rstate) : rstate :=
  match l with
  | [] => st
  | ke :: t => gc_loop t now (if e_deadline (snd ke) <? now then drop_entry (fst ke) st else st)
  end.
Definition gc_expired (now : Z) (st : rstate) : rstate := gc_loop (tbl st) now st.

Fixpoint upd {A} (i : nat) (x : A) (l : list A) : list A :=
  match l, i with
  | [], _ => []
  | _ :: t, O => x :: t
  | h :: t, S j => h :: upd j x t
  end.

Definition opt_bytes (o : option (list byte)) : list byte := match o with Some c => c | None => [] end.

(* first half of acceptChunk: find or create the entry. None = return nil,false *)
Definition find_or_create (now : Z) (choice : key) (src : N) (h : hdr) (st : rstate)
  : option (rstate * entry) :=
  let k := (src, h_mid h) in
  match tget k st with
  | None =>
      if geckoMaxPerSource <=? pget src st then None
      else
        let st1 := if geckoMaxReassembly <=? zlen (tbl st) then evict_oldest choice st else st in
        let e := mkE (repeat None (N.to_nat (h_tot h))) 0 (h_tot h) (now + geckoReassemblyTTLns) in
        Some (mkR (aset keqb k e (tbl st1)) (aset N.eqb src (pget src st1 + 1) (per st1)), e)
  | Some e => if (e_total e =? h_tot h)%N then Some (st, e) else None
  end.

(* acceptChunk: new state and the reassembled packet when ready *)
Definition accept_chunk (now : Z) (choice : key) (src : N) (h : hdr) (payload : list byte)
           (st : rstate) : rstate * option (list byte) :=
  let k := (src, h_mid h) in
  match find_or_create now choice src h st with
  | None => (st, None)
  | Some (st2, e) =>
      match nth_error (e_chunks e) (N.to_nat (h_idx h)) with
      | None => (st2, None)                 (* int(h.chunkIdx) >= len(e.chunks) *)
      | Some (Some _) => (st2, None)        (* duplicate *)
      | Some None =>
          let e' := mkE (upd (N.to_nat (h_idx h)) (Some payload) (e_chunks e))
                        (e_received e + 1) (e_total e) (e_deadline e) in
          let st3 := mkR (aset keqb k e' (tbl st2)) (per st2) in
          if e_received e' <? Z.of_N (e_total e') then (st3, None)
          else (drop_entry k st3, Some (concat (map opt_bytes (e_chunks e'))))
      end
  end.

(* ReadFrom, one inner datagram dg from src; rbuf = len(p) of the caller.
   None = the loop continues (nothing is returned for this datagram). *)
Definition on_packet (rbuf : nat) (now : Z) (choice : key) (src : N) (dg : list byte)
           (st : rstate) : rstate * option (list byte) :=
  let b := firstn (Z.to_nat geckoBufferSize) dg in   (* inner.ReadFrom(g.readBuf) *)
  match b with
  | [] => (st, None)                                  (* n <= 0 *)
  | b0 :: _ =>
      if (N.land (b2n b0) 128 =? 0)%N then (st, Some (firstn rbuf b))
      else
        match decode_frame b with
        | Ok (h, payload) =>
            let r := accept_chunk now choice src h payload st in
            (fst r, option_map (firstn rbuf) (snd r))
        | _ => (st, None)
        end
  end.

Inductive action :=
| Packet (now : Z) (src : N) (dg : list byte) (choice : key)
| Tick (now : Z).

(* one action; the observable output is the datagram ReadFrom returns with its source *)
Definition step (rbuf : nat) (st : rstate) (a : action) : rstate * option (N * list byte) :=
  match a with
  | Packet now src dg choice =>
      let r := on_packet rbuf now choice src dg st in
      (fst r, option_map (fun o => (src, o)) (snd r))
  | Tick now => (gc_expired now st, None)
  end.

Fixpoint run (rbuf : nat) (st : rstate) (l : list action) : rstate * list (option (N * list byte)) :=
  match l with
  | [] => (st, [])
  | a :: t =>
      let r := step rbuf st a in
      let r2 := run rbuf (fst r) t in
      (fst r2, snd r :: snd r2)
  end.

(* gcLoop: the ticker fires at every multiple of TTL/2 after the conn's creation (time 0);
   ticks in (t0, t1] *)
Definition ticks_between (t0 t1 : Z) : list Z :=
  let p := geckoReassemblyTTLns / 2 in
  let k0 := t0 / p in
  map (fun i => (k0 + 1 + Z.of_nat i) * p) (seq 0 (Z.to_nat (t1 / p - k0))).

(* census of the table: entries whose key has source s *)
Definition count_src (s : N) (st : rstate) : nat := acount (fun k : key => (fst k =? s)%N) (tbl st).
