(* C15 model, part 4: the logged relay loop of core/server/copy.go, one Read at a time.  Definitions only.

     func copyBufferLog(dst io.Writer, src io.Reader, log func(n uint64) bool) error {
       for {
         nr, er := src.Read(buf)
         if nr > 0 {
           if !log(uint64(nr)) { return errDisconnect }
           _, ew := dst.Write(buf[0:nr])
           if ew != nil { return ew }
         }
         if er != nil {
           if er == io.EOF { return nil }
           return er
         }
       }
     }

   model/C15_Sites.v abstracts a TCP report site to ONE chunk (copy_buffer_log ok).  Here the whole
   stream of a copy direction is a script of Read results, each with what the environment answers in that
   iteration: a Read may return bytes TOGETHER with an error - io.EOF when the last data and the end of the
   stream arrive in one call (a QUIC receive stream whose last frame carries the FIN; an outbound conn that
   returns the tail with the EOF), or a failure.  The question the theorems answer: does a refused report
   end the copy with errDisconnect at EVERY position of the stream, the last chunk included?

   handleTCPRequest looks at one thing only: err == errDisconnect (cperr_of). *)
From Hy Require Export model.C15_Sites.
Local Open Scope N_scope.

(* the error src.Read returned next to nr *)
Inductive rerr := RNil | REOF | RFail.

(* one iteration of the loop *)
Record rdstep := mkRs {
  rs_n : N;          (* nr *)
  rs_err : rerr;     (* er *)
  rs_ok : bool;      (* what log(nr) answers, if it is called *)
  rs_wok : bool      (* dst.Write(buf[0:nr]) succeeds, if it is called *)
}.

(* what copyBufferLog returns; CBlocked: the script is over and the loop sits in the next Read *)
Inductive cpres := CNil | CDisconnect | CWriteErr | CReadErr | CBlocked.

(* what it did, in order: the calls of log (the traffic reports) and of dst.Write *)
Inductive cact := ALog (n : N) (ok : bool) | AWrite (n : N) (ok : bool).

Definition read_end (e : rerr) (k : cpres * list cact) : cpres * list cact :=
  match e with
  | RNil => k
  | REOF => (CNil, [])
  | RFail => (CReadErr, [])
  end.

Fixpoint copy_loop (l : list rdstep) : cpres * list cact :=
  match l with
  | [] => (CBlocked, [])
  | r :: t =>
      if 0 <? rs_n r then
        if negb (rs_ok r) then (CDisconnect, [ALog (rs_n r) false])
        else if negb (rs_wok r) then (CWriteErr, [ALog (rs_n r) true; AWrite (rs_n r) false])
        else let (res, tr) := read_end (rs_err r) (copy_loop t) in
             (res, ALog (rs_n r) true :: AWrite (rs_n r) true :: tr)
      else read_end (rs_err r) (copy_loop t)
  end.

(* Variant (NOT the code): the outcome of the chunk is kept in a local and the Read error is examined
   first, "because the source being done is what really ended the copy".  props/C15.v states what that
   breaks. *)
Fixpoint copy_loop_eof_first (l : list rdstep) : cpres * list cact :=
  match l with
  | [] => (CBlocked, [])
  | r :: t =>
      if 0 <? rs_n r then
        let ew := if negb (rs_ok r) then Some CDisconnect
                  else if negb (rs_wok r) then Some CWriteErr else None in
        let acts := if negb (rs_ok r) then [ALog (rs_n r) false]
                    else [ALog (rs_n r) true; AWrite (rs_n r) (rs_wok r)] in
        match rs_err r, ew with
        | REOF, _ => (CNil, acts)
        | RFail, _ => (CReadErr, acts)
        | RNil, Some e => (e, acts)
        | RNil, None => let (res, tr) := copy_loop_eof_first t in (res, acts ++ tr)
        end
      else read_end (rs_err r) (copy_loop_eof_first t)
  end.

(* the only thing handleTCPRequest asks of copyTwoWayEx's result *)
Definition cperr_of (r : cpres) : cperr :=
  match r with CDisconnect => CpDisconnect | _ => CpNone end.

(* a copy direction of the relay playing the script, its result being the first to reach errChan unless
   other_first; what handleTCPRequest then does to the QUIC connection *)
Definition tcp_relay_action (l : list rdstep) (other_first : bool) : action :=
  handle_tcp_request (cperr_of (fst (copy_loop l))) other_first.

(* an iteration the loop gets past: nothing read, or a chunk that is accepted and written; no Read error *)
Definition passes (r : rdstep) : bool :=
  match rs_err r with
  | RNil => negb (0 <? rs_n r) || (rs_ok r && rs_wok r)
  | _ => false
  end.

(* the trace of iterations that pass *)
Fixpoint pass_trace (l : list rdstep) : list cact :=
  match l with
  | [] => []
  | r :: t => (if 0 <? rs_n r then [ALog (rs_n r) true; AWrite (rs_n r) true] else []) ++ pass_trace t
  end.

(* the reports of a trace / the bytes it wrote *)
Fixpoint refusals (tr : list cact) : nat :=
  match tr with
  | [] => O
  | ALog _ false :: t => S (refusals t)
  | _ :: t => refusals t
  end.
