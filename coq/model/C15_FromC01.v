(* C01 o C15: the LogOnlineState calls the server model of C01 emits, read as operations of the traffic stats
   object of C15.  Definitions only.

   model/C01_ServerAuth.v names a client by the id STRING the Authenticator returned; model/C15_Stats.v names
   users by numbers (the harness / the API client numbers the distinct id strings of a run).  `enc` is that
   numbering - any function; when it is injective, "enc (auth_id k) = enc id" reads "authenticated as id".

   Both models use the names state / step / run / mem / request ...: nothing is imported, every name is
   qualified through the module aliases A (C01: the server) and S (C15: the stats object). *)
From Coq Require Import List NArith ZArith Bool.
From Hy Require model.C01_ServerAuth model.C15_Stats.
Import ListNotations.
Local Open Scope N_scope.

Module A := Hy.model.C01_ServerAuth.
Module S := Hy.model.C15_Stats.

Section Bridge.
Variable enc : A.str -> S.id.

(* TrafficLogger.LogOnlineState(id, b) as the object operation it is *)
Definition online_op (e : A.ev) : list S.op :=
  match e with
  | A.EObs (A.ObsOnline _ id b) => [S.OOnline (enc id) b]
  | _ => []
  end.

(* all LogOnlineState calls of a trace of the server model, in order *)
Definition online_ops (tr : list A.ev) : list S.op := flat_map online_op tr.

(* the stats object after exactly those calls, and what GET /online then lists *)
Definition stats_after (tr : list A.ev) : S.state := fst (S.run S.init_state (online_ops tr)).
Definition listing_after (tr : list A.ev) : list (S.id * Z) := S.online (stats_after tr).

(* connection c is authenticated as user i and handleClient has not yet run its tail for it *)
Definition live (s : A.state) (i : S.id) (c : A.cid) : bool :=
  A.authed (s c) && negb (A.closed (s c)) && (i =? enc (A.auth_id (s c))).

(* the number of such connections among cs *)
Definition nlive (s : A.state) (i : S.id) (cs : list A.cid) : Z :=
  Z.of_nat (length (filter (live s i) cs)).
End Bridge.

(* the same by id string: connection c is authenticated with the id string `id` and not yet closed *)
Definition authed_as (s : A.state) (id : A.str) (c : A.cid) : bool :=
  A.authed (s c) && negb (A.closed (s c)) && A.str_eqb (A.auth_id (s c)) id.
Definition nauth (s : A.state) (id : A.str) (cs : list A.cid) : Z :=
  Z.of_nat (length (filter (authed_as s id) cs)).

(* the connections an action sequence speaks about, each once *)
Fixpoint dedup (l : list A.cid) : list A.cid :=
  match l with
  | [] => []
  | c :: t => if existsb (N.eqb c) t then dedup t else c :: dedup t
  end.
Definition conns_of (acts : list A.action) : list A.cid := dedup (map A.act_conn acts).

(* the LogOnlineState calls among the operations the stats object performs (the others - LogTraffic, the API
   requests - may be interleaved with them in any way) *)
Definition is_online_op (o : S.op) : bool := match o with S.OOnline _ _ => true | _ => false end.
Definition only_online (ops : list S.op) : list S.op := filter is_online_op ops.
