(* C15 model, part 3: the goroutines of proxy requests and the end of a connection.  Definitions only.

   core/server/server.go: a hijacked TCP request stream is served by its own goroutine,

       func (h *h3sHandler) ProxyStreamHijacker(...) { ...  go h.handleTCPRequest(qStream) ... }        PReqBegin

   which may sit for as long as it likes in h.config.Outbound.TCP(reqAddr) (an unresponsive target, a chained
   upstream) before it ever touches the stream again; the connection's UDP session manager (go h.udpSM.Run())
   likewise sits in Outbound.UDP while a session is set up.  They return whenever the dial returns:      PReqEnd

   serverImpl.handleClient is

       err := h3s.ServeQUICConn(conn)             -- returns when the connection is closed and the HTTP/3 request
                                                     handlers (the auth requests) have returned
       if handler.authenticated.Load() { tl.LogOnlineState(handler.authID, false) ... }                  EHandlerReturn

   and NOTHING in between: handleClient does not wait for the goroutines above (ServeQUICConn does not know them: the
   streams were hijacked).  So the offline notification of a connection is enabled as soon as the connection is closed
   and its auth handlers are done - whatever its proxy requests are still doing.

   A pworld is the world of model/C15_Sites.v plus, per connection slot, the number of such goroutines in flight.
   [waits] = the variant (NOT the code) in which handleClient waits for them (a WaitGroup over handleTCPRequest)
   before it reports offline. *)
From Hy Require Export model.C15_Sites.
Local Open Scope N_scope.

Record pworld := mkPW { pw : world; pend : list N }.     (* pend: by slot; a missing entry is 0 *)

Definition init_pworld : pworld := mkPW init_world [].

Inductive pevent :=
| PW (e : wevent)                    (* an event of model/C15_Sites.v *)
| PReqBegin (slot : nat) (k : N)     (* k request goroutines of connection slot start (and sit in their outbound dial) *)
| PReqEnd (slot : nat) (k : N).      (* k of them return *)

Definition pend_at (slot : nat) (l : list N) : N := nth slot l 0.

Fixpoint pend_set (slot : nat) (v : N) (l : list N) : list N :=
  match slot, l with
  | O, [] => [v]
  | O, _ :: t => v :: t
  | S k, [] => 0 :: pend_set k v []
  | S k, x :: t => x :: pend_set k v t
  end.

Definition pstep (waits : bool) (secret : string) (p : pworld) (e : pevent) : pworld * wresp :=
  match e with
  | PW (EHandlerReturn slot) =>
      if waits && negb (pend_at slot (pend p) =? 0) then (p, WNone)
      else let (w', r) := wstep secret (pw p) (EHandlerReturn slot) in (mkPW w' (pend p), r)
  | PW e0 => let (w', r) := wstep secret (pw p) e0 in (mkPW w' (pend p), r)
  | PReqBegin slot k =>
      (* a request stream is accepted on an open connection only *)
      if is_open slot (pw p) then (mkPW (pw p) (pend_set slot (pend_at slot (pend p) + k) (pend p)), WUnit)
      else (p, WNone)
  | PReqEnd slot k =>
      if k <=? pend_at slot (pend p) then (mkPW (pw p) (pend_set slot (pend_at slot (pend p) - k) (pend p)), WUnit)
      else (p, WNone)
  end.

Fixpoint prun (waits : bool) (secret : string) (p : pworld) (l : list pevent) : pworld :=
  match l with
  | [] => p
  | e :: t => prun waits secret (fst (pstep waits secret p e)) t
  end.

(* the events of model/C15_Sites.v in a run *)
Definition wevents (l : list pevent) : list wevent :=
  flat_map (fun e => match e with PW e0 => [e0] | _ => [] end) l.

Definition ends_request (e : pevent) : bool := match e with PReqEnd _ _ => true | _ => false end.

(* the run of the stale listing: a user connects, one request goes into its dial, the client goes away,
   handleClient's continuation is due *)
Definition stale_run (i : id) : list pevent :=
  [PW (EAuth i); PReqBegin 0 1; PW (EClientClose 0); PW (EHandlerReturn 0)].
