(* C15 model, part 2: the traffic REPORT SITES of core/server and what they do with a refused
   report ("POST /kick ... which disconnects them").  Definitions only.

   The traffic stats server (model/C15_Stats.v) only answers false to the kicked user's next
   report; the disconnect itself is code of core/server, at the four places where a
   TrafficLogger.LogTraffic call is made:

     TcpUp    copy.go copyBufferLog (client -> target), log = LogTraffic(id, n, 0)
     TcpDown  copy.go copyBufferLog (target -> client), log = LogTraffic(id, 0, n)
                 if !log(n) { return errDisconnect }; copyTwoWayEx returns the FIRST value that
                 reaches errChan; server.go handleTCPRequest:
                 if err == errDisconnect { h.conn.CloseWithError(closeErrCodeTrafficLimitReached) }
     UdpUp    server.go udpIOImpl.ReceiveMessage, LogTraffic(id, len(data), 0)
                 if !ok { io.Conn.CloseWithError(closeErrCodeTrafficLimitReached); return errDisconnect }
     UdpDown  server.go udpIOImpl.SendMessage, LogTraffic(id, 0, len(data))
                 if !ok { io.Conn.CloseWithError(closeErrCodeTrafficLimitReached); return errDisconnect }

   and the census side of a connection's life, server.go:
     ServeHTTP (auth accepted)  LogOnlineState(id, true)         : EAuth
     ServeHTTP (a further auth request on a connection that is already authenticated - stock clients
                send one, a raw HTTP/3 client may send several, also concurrently)
                                h.authMutex spans the whole auth handler: the check of
                                h.authenticated, the Authenticator call and the success branch are ONE
                                atomic section per request, so of the requests in flight on one
                                connection exactly the first to take the mutex authenticates (EAuth); every
                                other one finds authenticated = true, answers StatusAuthOK and notifies
                                nobody                             : EAuthAgain
     handleClient               ServeQUICConn returns only when the QUIC connection is closed AND
                                every request handler it started has returned (http3 handleConn:
                                wg.Wait()); then, if h.authenticated.Load(),
                                LogOnlineState(id, false)        : EHandlerReturn

   The auth handler in atomic steps (a connection can die at any point of them: the client gives up while
   a slow Authenticator backend is still deciding; ServeHTTP never looks at the request context):
     ServeHTTP enters            authMutex taken, authenticated = false read, Authenticate called
                                                                   : EAuthBegin
     Authenticate returns        ok: h.authID = id; h.authenticated.Store(true)   (the flag handleClient reads)
                                 no: masquerade response, handler returns        : EAuthDecide
     ... congestion set-up, response headers (nothing of it can fail or return) ...
     tl.LogOnlineState(id,true)  unconditionally after the store; handler returns : EAnnounce
   EAuth is the three steps in one (an authenticator that answers at once, nothing in between).

   A world is the stats server object plus the authenticated QUIC connections of the hysteria
   server; a connection's slot is its position in the list (connections are never removed, only
   closed).  Every event is one atomic section with respect to the stats object (one LogTraffic /
   LogOnlineState / HTTP critical section) followed by connection-local code.

   Trusted about quic-go (not modelled): after CloseWithError no stream or datagram of that
   connection carries bytes any more, so a closed connection makes no further report
   (EReport on a closed slot is not enabled) and ServeQUICConn returns. *)
From Hy Require Export model.C15_Stats.
Local Open Scope N_scope.

Inductive site := TcpUp | TcpDown | UdpUp | UdpDown.

Definition is_tcp (st : site) : bool :=
  match st with TcpUp | TcpDown => true | _ => false end.

(* the arguments of the LogTraffic call made at a site for n bytes *)
Definition site_tx (st : site) (n : N) : N :=
  match st with TcpUp | UdpUp => n | _ => 0 end.
Definition site_rx (st : site) (n : N) : N :=
  match st with TcpDown | UdpDown => n | _ => 0 end.

(* The report sites BY OBSERVATION.  The end-to-end harness records, for every LogTraffic call that reaches the
   logger, the innermost function of core/server on the call stack (closures under the name of the function
   they are written in: both copy directions of copyTwoWayEx are "copyTwoWayEx") and the tx / rx arguments.
   These are all the callers the code has (server.go, copy.go: `grep LogTraffic`); each is one of the four sites,
   the direction of a relay report being the argument that is not zero.  A call from anywhere else - e.g. from
   handleTCPRequest itself, which writes a RequestHook's putback bytes to the target WITHOUT reporting them -
   is a report site the model does not have: the correspondence check fails on it (corr/C15_Corr.v, WR). *)
Definition site_of_caller (fn : string) (tx rx : N) : option site :=
  if String.eqb fn "copyTwoWayEx"%string then
    (if (0 <? tx) && (rx =? 0) then Some TcpUp else if (tx =? 0) && (0 <? rx) then Some TcpDown else None)
  else if String.eqb fn "udpIOImpl.ReceiveMessage"%string then (if rx =? 0 then Some UdpUp else None)
  else if String.eqb fn "udpIOImpl.SendMessage"%string then (if tx =? 0 then Some UdpDown else None)
  else None.

(* what the code after the LogTraffic call does to the QUIC connection *)
Inductive action := Forward | CloseConn.

(* copy.go: the value a copy direction sends to errChan for this chunk *)
Inductive cperr := CpNone | CpDisconnect.
Definition copy_buffer_log (ok : bool) : cperr := if ok then CpNone else CpDisconnect.

(* copyTwoWayEx hands handleTCPRequest the first value that reached errChan: this direction's,
   unless the other direction had already returned (other_first); handleTCPRequest closes the
   QUIC connection iff that value is errDisconnect.  (other_first = true with a refused report
   is the swallowed veto recorded as an open finding of C06.) *)
Definition handle_tcp_request (e : cperr) (other_first : bool) : action :=
  if other_first then Forward
  else match e with CpDisconnect => CloseConn | CpNone => Forward end.

Definition tcp_site (ok other_first : bool) : action :=
  handle_tcp_request (copy_buffer_log ok) other_first.

(* udpIOImpl.ReceiveMessage *)
Definition udp_receive_message (ok : bool) : action := if ok then Forward else CloseConn.
(* udpIOImpl.SendMessage *)
Definition udp_send_message (ok : bool) : action := if ok then Forward else CloseConn.

Definition site_action (st : site) (ok other_first : bool) : action :=
  match st with
  | TcpUp => tcp_site ok other_first
  | TcpDown => tcp_site ok other_first
  | UdpUp => udp_receive_message ok
  | UdpDown => udp_send_message ok
  end.

(* ---------- connections and the world ---------- *)

Record conn := mkConn {
  c_id : id;          (* authID (what the Authenticator answers for this connection if it accepts) *)
  c_open : bool;      (* the QUIC connection has not been closed by either side *)
  c_flag : bool;      (* h.authenticated *)
  c_busy : bool;      (* an auth handler of the connection is between EAuthBegin and its return *)
  c_ann : bool;       (* LogOnlineState(authID, true) has been called for the connection *)
  c_exited : bool     (* handleClient is past ServeQUICConn (it has reported offline, or nothing) *)
}.

(* the online notification is outstanding: announced, and handleClient has not reported offline yet *)
Definition c_listed (c : conn) : bool := c_ann c && negb (c_exited c).
(* a live authenticated connection as the census counts it: open and announced *)
Definition c_live (c : conn) : bool := c_open c && c_ann c.

Record world := mkWorld { logger : state; conns : list conn }.

Definition init_world : world := mkWorld init_state [].

(* update the connection at a slot *)
Fixpoint upd (k : nat) (f : conn -> conn) (l : list conn) : list conn :=
  match l, k with
  | [], _ => []
  | c :: t, O => f c :: t
  | c :: t, S k' => c :: upd k' f t
  end.

Definition close_conn (c : conn) : conn := mkConn (c_id c) false (c_flag c) (c_busy c) (c_ann c) (c_exited c).
(* handleClient continues after ServeQUICConn *)
Definition unlist_conn (c : conn) : conn := mkConn (c_id c) (c_open c) (c_flag c) (c_busy c) (c_ann c) true.
(* h.authID = id; h.authenticated.Store(true) *)
Definition store_conn (c : conn) : conn := mkConn (c_id c) (c_open c) true (c_busy c) (c_ann c) (c_exited c).
(* the handler returns without having authenticated anybody *)
Definition reject_conn (c : conn) : conn := mkConn (c_id c) (c_open c) (c_flag c) false (c_ann c) (c_exited c).
(* LogOnlineState(id, true) made; the handler returns *)
Definition announce_conn (c : conn) : conn := mkConn (c_id c) (c_open c) (c_flag c) false true (c_exited c).

Inductive wevent :=
| EAuth (i : id)                                             (* new connection, slot = length conns *)
| EAuthAgain (slot : nat) (i : id)                           (* another auth request on connection slot, which the
                                                                Authenticator would accept as user i *)
| EReport (slot : nat) (st : site) (n : N) (other_first : bool)
| EClientClose (slot : nat)                                  (* closed by the client / the network *)
| EHandlerReturn (slot : nat)
| EHttp (r : request)                                        (* the stats API *)
| EAuthBegin (i : id)                                        (* new connection, slot = length conns: its auth request is
                                                                inside Authenticator.Authenticate, which will answer i *)
| EAuthDecide (slot : nat) (ok : bool)                       (* Authenticate returns; ok: authID and the flag are stored *)
| EAnnounce (slot : nat).                                    (* LogOnlineState(id, true); the auth handler returns *)

Inductive wresp :=
| WNone                              (* the event is not enabled in this world: nothing happens *)
| WUnit
| WBool (ok : bool)                  (* what LogTraffic answered *)
| WHttp (status : N) (body : hbody).

Definition wstep (secret : string) (w : world) (e : wevent) : world * wresp :=
  match e with
  | EAuth i =>
      (mkWorld (fst (do_online (logger w) i true)) (conns w ++ [mkConn i true true false true false]), WUnit)
  | EAuthAgain slot i =>
      (* "Already authenticated": no LogOnlineState, authID unchanged, no second connection *)
      match nth_error (conns w) slot with
      | Some c => if c_open c then (w, WUnit) else (w, WNone)
      | None => (w, WNone)
      end
  | EReport slot st n other_first =>
      match nth_error (conns w) slot with
      | Some c =>
          if c_open c then
            match do_log (logger w) (c_id c) (site_tx st n) (site_rx st n) with
            | (s', RBool ok) =>
                match site_action st ok other_first with
                | Forward => (mkWorld s' (conns w), WBool ok)
                | CloseConn => (mkWorld s' (upd slot close_conn (conns w)), WBool ok)
                end
            | (s', _) => (mkWorld s' (conns w), WNone)
            end
          else (w, WNone)
      | None => (w, WNone)
      end
  | EClientClose slot =>
      match nth_error (conns w) slot with
      | Some c => if c_open c then (mkWorld (logger w) (upd slot close_conn (conns w)), WUnit) else (w, WNone)
      | None => (w, WNone)
      end
  | EHandlerReturn slot =>
      match nth_error (conns w) slot with
      | Some c =>
          (* ServeQUICConn returns: connection closed, no request handler in flight (wg.Wait) *)
          if negb (c_open c) && negb (c_busy c) && negb (c_exited c) then
            if c_flag c then
              (mkWorld (fst (do_online (logger w) (c_id c) false)) (upd slot unlist_conn (conns w)), WUnit)
            else (mkWorld (logger w) (upd slot unlist_conn (conns w)), WUnit)
          else (w, WNone)
      | None => (w, WNone)
      end
  | EHttp r =>
      let (s', h) := http_step secret (logger w) r in (mkWorld s' (conns w), WHttp (fst h) (snd h))
  | EAuthBegin i =>
      (mkWorld (logger w) (conns w ++ [mkConn i true false true false false]), WUnit)
  | EAuthDecide slot ok =>
      match nth_error (conns w) slot with
      | Some c =>
          if c_busy c && negb (c_flag c) then
            (mkWorld (logger w) (upd slot (if ok then store_conn else reject_conn) (conns w)), WUnit)
          else (w, WNone)
      | None => (w, WNone)
      end
  | EAnnounce slot =>
      match nth_error (conns w) slot with
      | Some c =>
          if c_busy c && c_flag c then
            (mkWorld (fst (do_online (logger w) (c_id c) true)) (upd slot announce_conn (conns w)), WUnit)
          else (w, WNone)
      | None => (w, WNone)
      end
  end.

(* the LogOnlineState calls an event makes, attributed to the connection: (slot, (id, online)) *)
Definition note := (nat * (id * bool))%type.

Definition wnote (w : world) (e : wevent) : list note :=
  match e with
  | EAuth i => [(List.length (conns w), (i, true))]
  | EAnnounce slot =>
      match nth_error (conns w) slot with
      | Some c => if c_busy c && c_flag c then [(slot, (c_id c, true))] else []
      | None => []
      end
  | EHandlerReturn slot =>
      match nth_error (conns w) slot with
      | Some c =>
          if negb (c_open c) && negb (c_busy c) && negb (c_exited c) && c_flag c
          then [(slot, (c_id c, false))] else []
      | None => []
      end
  | _ => []
  end.

(* Variant (NOT the code): authMutex wraps only the two stores, so the check and the success branch of
   two requests in flight on one connection interleave - the second request passed the check before
   the first stored the flag, and runs the success branch as well: LogOnlineState(id, true) once more
   for a connection that will be reported offline once.  props/C15.v states what that breaks. *)
Definition auth_again_unlocked (w : world) (slot : nat) : world :=
  match nth_error (conns w) slot with
  | Some c => mkWorld (fst (do_online (logger w) (c_id c) true)) (conns w)
  | None => w
  end.

(* Variant (NOT the code): the handler looks at the request context after the store and returns
   without announcing a client that has gone away ("if r.Context().Err() != nil { return }" placed
   behind h.authenticated.Store(true)).  handleClient still reads the flag. *)
Definition return_unannounced (w : world) (slot : nat) : world :=
  match nth_error (conns w) slot with
  | Some c => if c_busy c && c_flag c && negb (c_open c)
              then mkWorld (logger w) (upd slot reject_conn (conns w)) else w
  | None => w
  end.

Fixpoint wrun (secret : string) (w : world) (l : list wevent) : world :=
  match l with
  | [] => w
  | e :: t => wrun secret (fst (wstep secret w e)) t
  end.

(* all LogOnlineState calls of a run, in order *)
Fixpoint wtrace (secret : string) (w : world) (l : list wevent) : list note :=
  match l with
  | [] => []
  | e :: t => wnote w e ++ wtrace secret (fst (wstep secret w e)) t
  end.

(* the calls that concern connection k *)
Definition conn_notes (k : nat) (tr : list note) : list (id * bool) :=
  map snd (filter (fun n => Nat.eqb (fst n) k) tr).

(* the calls as operations of the stats object (model/C15_Stats.v) *)
Definition note_ops (tr : list note) : list op := map (fun n => OOnline (fst (snd n)) (snd (snd n))) tr.

(* the stats object after those calls *)
Definition apply_notes (s : state) (tr : list note) : state :=
  fold_left (fun s n => fst (do_online s (fst (snd n)) (snd (snd n)))) tr s.

(* ---------- readings used by the theorems ---------- *)

Definition b2z (b : bool) : Z := if b then 1%Z else 0%Z.

(* connections of user i whose online notification is outstanding / that are open *)
Fixpoint nlisted (i : id) (l : list conn) : Z :=
  match l with
  | [] => 0%Z
  | c :: t => (b2z ((c_id c =? i)%N && c_listed c) + nlisted i t)%Z
  end.

(* live authenticated (announced) connections of user i *)
Fixpoint nopen (i : id) (l : list conn) : Z :=
  match l with
  | [] => 0%Z
  | c :: t => (b2z ((c_id c =? i)%N && c_live c) + nopen i t)%Z
  end.

(* every handler of a closed connection has returned *)
Definition quiescent (l : list conn) : Prop :=
  forall c, In c l -> c_listed c = c_live c.

Definition is_open (slot : nat) (w : world) : bool :=
  match nth_error (conns w) slot with Some c => c_open c | None => false end.
