(* C15 model: extras/trafficlogger/http.go (trafficStatsServerImpl: LogTraffic, LogOnlineState,
   ServeHTTP, getTraffic, getOnline, kick).  Definitions only.

   The server object is modelled as an ATOMIC OBJECT: every operation below is exactly one
   critical section of the Go code (s.Mutex.Lock .. Unlock, or RLock .. RUnlock for the two
   read-only listings), so an arbitrary interleaving of goroutines is a sequence of these
   operations (that the recorded concurrent histories are such sequences is what
   lib/Lin.v's checker establishes in the correspondence stage).

     LogTraffic(id,tx,rx)      Lock    : OLog
     LogOnlineState(id,b)      Lock    : OOnline
     GET /traffic?clear=true   Lock    : OTraffic true   (snapshot AND reset in one section)
     GET /traffic              RLock   : OTraffic false
     POST /kick                Lock    : OKick ids       (the whole id list in one section)
     GET /online               RLock   : OGetOnline

   Go maps are association lists kept sorted by key (json.Marshal sorts map keys, so the
   sorted list is what a listing shows).  User ids are numbers: the harness names the
   distinct id strings of a run 0,1,2,...  Counters are uint64 with explicit wrap; the online
   counter is a Go int (int64) with explicit wrap.  TraceStream/UntraceStream/StreamMap
   (GET /dump/streams) touch none of the three maps and are modelled as a state-preserving
   route. *)
From Coq Require Export List NArith ZArith String Bool.
From Hy Require Export gen.ParamsC15.
Export ListNotations.
Local Open Scope N_scope.

Definition id := N.

(* ---------- Go map[string]V as a key-sorted association list ---------- *)

Fixpoint get {V} (k : id) (m : list (id * V)) : option V :=
  match m with
  | [] => None
  | (k', v) :: t => if k =? k' then Some v else get k t
  end.

(* m[k] = v *)
Fixpoint set {V} (k : id) (v : V) (m : list (id * V)) : list (id * V) :=
  match m with
  | [] => [(k, v)]
  | (k', v') :: t =>
      if k <? k' then (k, v) :: (k', v') :: t
      else if k =? k' then (k, v) :: t
      else (k', v') :: set k v t
  end.

(* delete(m, k) *)
Fixpoint del {V} (k : id) (m : list (id * V)) : list (id * V) :=
  match m with
  | [] => []
  | (k', v') :: t => if k =? k' then del k t else (k', v') :: del k t
  end.

(* map[string]struct{} *)
Definition mem (k : id) (l : list id) : bool := existsb (N.eqb k) l.
Definition sadd (k : id) (l : list id) : list id := if mem k l then l else k :: l.
Definition sdel (k : id) (l : list id) : list id := filter (fun x => negb (k =? x)) l.

(* ---------- machine integers ---------- *)

Definition W64 : N := 18446744073709551616.          (* 2^64 *)
Definition add64 (a b : N) : N := (a + b) mod W64.   (* uint64 += *)
(* Go int (64-bit) after ++ / -- *)
Definition wrap_int (z : Z) : Z :=
  ((z + 9223372036854775808) mod 18446744073709551616 - 9223372036854775808)%Z.

(* ---------- state ---------- *)

Record state := mkState {
  stats : list (id * (N * N));   (* StatsMap: id -> (Tx, Rx) *)
  kick : list id;                (* KickMap *)
  online : list (id * Z)         (* OnlineMap *)
}.

Definition init_state : state := mkState [] [] [].

Inductive op :=
| OLog (i : id) (tx rx : N)
| OTraffic (clear : bool)
| OKick (ids : list id)
| OOnline (i : id) (b : bool)
| OGetOnline.

Inductive resp :=
| RBool (b : bool)
| RStats (m : list (id * (N * N)))
| RUnit
| ROnline (m : list (id * Z)).

Definition entry_of (i : id) (m : list (id * (N * N))) : N * N :=
  match get i m with Some e => e | None => (0, 0) end.

Definition count_of (i : id) (m : list (id * Z)) : Z :=
  match get i m with Some c => c | None => 0%Z end.

(* LogTraffic *)
Definition do_log (s : state) (i : id) (tx rx : N) : state * resp :=
  if mem i (kick s) then
    (* _, ok = s.KickMap[id]; if ok { delete(s.KickMap, id); return false } *)
    (mkState (stats s) (sdel i (kick s)) (online s), RBool false)
  else
    (* entry created if absent, then entry.Tx += tx; entry.Rx += rx *)
    let e := entry_of i (stats s) in
    (mkState (set i (add64 (fst e) tx, add64 (snd e) rx) (stats s)) (kick s) (online s),
     RBool true).

(* LogOnlineState *)
Definition do_online (s : state) (i : id) (b : bool) : state * resp :=
  let c := count_of i (online s) in
  if b then
    (mkState (stats s) (kick s) (set i (wrap_int (c + 1)) (online s)), RUnit)
  else
    let c' := wrap_int (c - 1) in
    if (c' <=? 0)%Z then (mkState (stats s) (kick s) (del i (online s)), RUnit)
    else (mkState (stats s) (kick s) (set i c' (online s)), RUnit).

(* the critical section of getTraffic *)
Definition do_traffic (s : state) (clear : bool) : state * resp :=
  if clear then (mkState [] (kick s) (online s), RStats (stats s))
  else (s, RStats (stats s)).

(* the critical section of kick: for _, id := range ids { s.KickMap[id] = struct{}{} } *)
Definition do_kick (s : state) (ids : list id) : state * resp :=
  (mkState (stats s) (fold_left (fun k i => sadd i k) ids (kick s)) (online s), RUnit).

Definition do_get_online (s : state) : state * resp := (s, ROnline (online s)).

Definition step (s : state) (o : op) : state * resp :=
  match o with
  | OLog i tx rx => do_log s i tx rx
  | OTraffic c => do_traffic s c
  | OKick ids => do_kick s ids
  | OOnline i b => do_online s i b
  | OGetOnline => do_get_online s
  end.

(* a sequential run: final state and the responses in order *)
Fixpoint run (s : state) (l : list op) : state * list resp :=
  match l with
  | [] => (s, [])
  | o :: t => let (s1, r) := step s o in let (s2, rs) := run s1 t in (s2, r :: rs)
  end.

(* ---------- the HTTP front (ServeHTTP) ---------- *)

(* What the handler reads from a request.  r_auth = r.Header.Get("Authorization") ("" when
   absent); r_clear = r.URL.Query().Get("clear") ("" when absent); r_body = the result of
   json.NewDecoder(r.Body).Decode(&ids) for a []string target: None = decode error. *)
Record request := mkReq {
  r_auth : string;
  r_method : string;
  r_path : string;
  r_clear : string;
  r_body : option (list id)
}.

Inductive route_t := RtUnauthorized | RtIndex | RtTraffic | RtKick | RtOnline | RtDump | RtNotFound.

Local Open Scope string_scope.

Definition route (secret : string) (r : request) : route_t :=
  if negb (secret =? "") && negb (r_auth r =? secret) then RtUnauthorized
  else if (r_method r =? "GET") && (r_path r =? "/") then RtIndex
  else if (r_method r =? "GET") && (r_path r =? "/traffic") then RtTraffic
  else if (r_method r =? "POST") && (r_path r =? "/kick") then RtKick
  else if (r_method r =? "GET") && (r_path r =? "/online") then RtOnline
  else if (r_method r =? "GET") && (r_path r =? "/dump/streams") then RtDump
  else RtNotFound.

(* strconv.ParseBool, error mapped to false as `bClear, _ :=` does *)
Definition parse_bool (s : string) : bool :=
  (s =? "1") || (s =? "t") || (s =? "T") || (s =? "TRUE") || (s =? "true") || (s =? "True").

Local Close Scope string_scope.

Inductive hbody :=
| BError                              (* http.Error / http.NotFound text, not compared *)
| BIndex                              (* the index page *)
| BStats (m : list (id * (N * N)))    (* application/json *)
| BOnline (m : list (id * Z))         (* application/json *)
| BEmpty                              (* kick: 200, no body *)
| BStreams.                           (* /dump/streams, content not modelled *)

(* what is passed to the object: the op a request performs, if any *)
Definition http_op (secret : string) (r : request) : option op :=
  match route secret r with
  | RtTraffic => Some (OTraffic (parse_bool (r_clear r)))
  | RtKick => match r_body r with Some ids => Some (OKick ids) | None => None end
  | RtOnline => Some OGetOnline
  | _ => None
  end.

Definition http_step (secret : string) (s : state) (r : request) : state * (N * hbody) :=
  match route secret r with
  | RtUnauthorized => (s, (StatusUnauthorized, BError))
  | RtIndex => (s, (StatusOK, BIndex))
  | RtTraffic =>
      let (s', rp) := do_traffic s (parse_bool (r_clear r)) in
      (s', (StatusOK, match rp with RStats m => BStats m | _ => BError end))
  | RtKick =>
      match r_body r with
      | None => (s, (StatusBadRequest, BError))
      | Some ids => (fst (do_kick s ids), (StatusOK, BEmpty))
      end
  | RtOnline => (s, (StatusOK, BOnline (online s)))
  | RtDump => (s, (StatusOK, BStreams))
  | RtNotFound => (s, (StatusNotFound, BError))
  end.

(* ---------- everything a caller can do to the server object ---------- *)

Inductive call :=
| CLog (i : id) (tx rx : N)          (* server.TrafficLogger.LogTraffic *)
| COnline (i : id) (b : bool)        (* server.TrafficLogger.LogOnlineState *)
| CHttp (r : request).               (* http.Handler.ServeHTTP *)

Inductive cres :=
| XBool (b : bool)
| XUnit
| XHttp (status : N) (body : hbody).

Definition call_step (secret : string) (s : state) (c : call) : state * cres :=
  match c with
  | CLog i tx rx =>
      let (s', r) := do_log s i tx rx in (s', match r with RBool b => XBool b | _ => XUnit end)
  | COnline i b => (fst (do_online s i b), XUnit)
  | CHttp r => let (s', h) := http_step secret s r in (s', XHttp (fst h) (snd h))
  end.

Fixpoint call_run (secret : string) (s : state) (l : list call) : state * list cres :=
  match l with
  | [] => (s, [])
  | c :: t =>
      let (s1, r) := call_step secret s c in
      let (s2, rs) := call_run secret s1 t in (s2, r :: rs)
  end.

(* the object op a call performs (None: the call leaves the three maps alone) *)
Definition call_op (secret : string) (c : call) : option op :=
  match c with
  | CLog i tx rx => Some (OLog i tx rx)
  | COnline i b => Some (OOnline i b)
  | CHttp r => http_op secret r
  end.

(* ---------- specification-level readings used by the theorems ---------- *)

(* bytes in direction d (false = tx, true = rx) that a snapshot shows for a user *)
Definition dir (d : bool) (e : N * N) : N := if d then snd e else fst e.
Definition shown (d : bool) (i : id) (m : list (id * (N * N))) : N := dir d (entry_of i m).

(* sum over a run of what the cleared snapshots showed for user i *)
Fixpoint cleared_sum (d : bool) (i : id) (ops : list op) (rs : list resp) : N :=
  match ops, rs with
  | OTraffic true :: ot, RStats m :: rt => shown d i m + cleared_sum d i ot rt
  | _ :: ot, _ :: rt => cleared_sum d i ot rt
  | _, _ => 0
  end.

(* sum over a run of the bytes of user i's reports that were accepted *)
Fixpoint allowed_sum (d : bool) (i : id) (ops : list op) (rs : list resp) : N :=
  match ops, rs with
  | OLog j tx rx :: ot, RBool true :: rt =>
      (if i =? j then (if d then rx else tx) else 0) + allowed_sum d i ot rt
  | _ :: ot, _ :: rt => allowed_sum d i ot rt
  | _, _ => 0
  end.

(* is a kick of user i pending after the operations l (from a state where pend0 says so)? *)
Fixpoint kick_pending (i : id) (pend0 : bool) (l : list op) : bool :=
  match l with
  | [] => pend0
  | OKick ids :: t => kick_pending i (pend0 || mem i ids) t
  | OLog j _ _ :: t => kick_pending i (if i =? j then false else pend0) t
  | _ :: t => kick_pending i pend0 t
  end.

(* the connection count of user i after the notifications in l, as the code keeps it:
   a decrement that reaches zero or below removes the entry *)
Fixpoint live_count (i : id) (c0 : Z) (l : list op) : Z :=
  match l with
  | [] => c0
  | OOnline j b :: t =>
      if i =? j then live_count i (if b then c0 + 1 else Z.max 0 (c0 - 1))%Z t
      else live_count i c0 t
  | _ :: t => live_count i c0 t
  end.

(* #online - #offline notifications for i, and "no prefix has more offline than online" *)
Fixpoint balance (i : id) (l : list op) : Z :=
  match l with
  | [] => 0%Z
  | OOnline j b :: t => ((if N.eqb i j then (if b then 1 else -1) else 0) + balance i t)%Z
  | _ :: t => balance i t
  end.

Definition paired (i : id) (l : list op) : Prop :=
  forall n, (0 <= balance i (firstn n l))%Z.

Fixpoint ups (i : id) (l : list op) : Z :=
  match l with
  | [] => 0%Z
  | OOnline j true :: t => ((if N.eqb i j then 1 else 0) + ups i t)%Z
  | _ :: t => ups i t
  end.
