(* C16 - the WAYS a connection can die.  Definitions only.

   In the LTS of model/C16_Reconnect.v the loss of a connection is one environment action (Kill c)
   and what f(client) then runs into is one raw outcome (WDead) that [classify] maps to RClosed.  In
   the code that mapping is client.go wrapIfConnectionClosed applied to whatever error value quic-go
   returns from OpenStream / stream Write / stream Read, and quic-go ends a connection with one of a
   finite set of error types.  This file makes that set explicit:

     errkind          the enum of error kinds that can reach wrapIfConnectionClosed or end a connection
                      attempt on the pinned quic-go (internal/qerr/errors.go, transport.go, streams_map.go,
                      stream.go) - the Go harness keeps the same enum (c16Kinds, same order) and reports
                      every error VALUE it really sees by kind; a value of no kind breaks the tie
     terminal         the connection is gone for good when quic-go reports this kind
     c16_kind_closed  (gen/ParamsC16.v, regenerated from /repo on every run) the row of
                      wrapIfConnectionClosed for one value of every kind = the classification ORACLE
     wrap_kind        the oracle as a function errkind -> res
     do_kind          f(client) of the LTS when the connection error is of kind k, classified by the oracle
     krun             runs of the LTS in which f(client) steps may be given by kind *)
From Coq Require Import List Arith Bool.
Import ListNotations.
From Hy Require Import gen.ParamsC16 model.C16_Reconnect.

Inductive errkind :=
| KStreamLimit   (* quic.StreamLimitReachedError: too many open streams, the connection is fine *)
| KIdle          (* *qerr.IdleTimeoutError: nothing received for the idle timeout (silent path, dead peer) *)
| KHsTimeout     (* *qerr.HandshakeTimeoutError *)
| KAppRemote     (* *qerr.ApplicationError, Remote: CONNECTION_CLOSE (application) sent by the server *)
| KAppLocal      (* *qerr.ApplicationError, local: CloseWithError on this side *)
| KTrRemote      (* *qerr.TransportError, Remote: CONNECTION_CLOSE (transport) sent by the server *)
| KTrLocal       (* *qerr.TransportError, local: this side found a protocol violation / internal error *)
| KCrypto        (* *qerr.TransportError 0x100-0x1ff: TLS alert (certificate, handshake failure) *)
| KVNeg          (* *qerr.VersionNegotiationError *)
| KReset         (* *qerr.StatelessResetError: the peer lost its state (restart) and said so *)
| KTrClosed      (* quic.ErrTransportClosed: the local socket failed or was closed under the transport *)
| KNetClosed     (* net.ErrClosed *)
| KStreamReset   (* *quic.StreamError: the peer cancelled this one stream *)
| KEof           (* io.EOF / io.ErrUnexpectedEOF: the peer ended this one stream early *)
| KDeadline.     (* os.ErrDeadlineExceeded: a deadline set on this one stream expired *)

Definition all_kinds : list errkind :=
  [KStreamLimit; KIdle; KHsTimeout; KAppRemote; KAppLocal; KTrRemote; KTrLocal; KCrypto; KVNeg; KReset;
   KTrClosed; KNetClosed; KStreamReset; KEof; KDeadline].

Definition kind_id (k : errkind) : nat :=
  match k with
  | KStreamLimit => 0 | KIdle => 1 | KHsTimeout => 2 | KAppRemote => 3 | KAppLocal => 4 | KTrRemote => 5
  | KTrLocal => 6 | KCrypto => 7 | KVNeg => 8 | KReset => 9 | KTrClosed => 10 | KNetClosed => 11
  | KStreamReset => 12 | KEof => 13 | KDeadline => 14
  end.

Definition kind_of_id (n : nat) : option errkind := nth_error all_kinds n.

Definition kind_eqb (a b : errkind) : bool := Nat.eqb (kind_id a) (kind_id b).

(* connection-level kinds: after one of these nothing works on the connection any more *)
Definition terminal (k : errkind) : bool :=
  match k with
  | KStreamLimit | KStreamReset | KEof | KDeadline => false
  | _ => true
  end.

Fixpoint lookup (n : nat) (t : list (nat * bool)) : option bool :=
  match t with
  | [] => None
  | (m, b) :: r => if Nat.eqb m n then Some b else lookup n r
  end.

(* is a value of kind k wrapped as ClosedError by the working tree? *)
Definition wrapped_closed (k : errkind) : option bool := lookup (kind_id k) c16_kind_closed.

Definition wrap_kind (k : errkind) : option res :=
  match wrapped_closed k with
  | Some true => Some RClosed
  | Some false => Some RRecov
  | None => None
  end.

(* the raw outcome of the LTS a connection-level kind stands for (the stream-level kinds have none: the
   LTS has no outcome "ClosedError on a live connection", and the harness reports one as a violation) *)
Definition raw_of (k : errkind) : option raw :=
  match k with
  | KStreamLimit => Some WStreamLimit
  | KStreamReset | KEof | KDeadline => None
  | _ => Some WDead
  end.

(* f(client) runs into a connection error of kind k: enabled like the raw outcome it stands for (a terminal
   error only on a client that is not alive, the stream limit only on one that is), the result seen by
   clientDo comes from the oracle *)
Definition do_kind (s : st) (g : nat) (k : errkind) : option (st * list ev) :=
  match get_pc s g, raw_of k, wrap_kind k with
  | PEntered c, Some _, Some r =>
      if (if terminal k then negb (alive s c) else alive s c)
      then Some (set_pc s g (PDone c r), []) else None
  | _, _, _ => None
  end.

Inductive kaction := KA (a : action) | KDo (g : nat) (k : errkind).

Definition kstep (s : st) (a : kaction) : option (st * list ev) :=
  match a with KA a => step true s a | KDo g k => do_kind s g k end.

(* strict run that keeps the boundary events *)
Fixpoint krun (s : st) (tr : list kaction) : option (st * list ev) :=
  match tr with
  | [] => Some (s, [])
  | a :: t => match kstep s a with
              | Some (s1, e1) => match krun s1 t with
                                 | Some (s2, e2) => Some (s2, e1 ++ e2)
                                 | None => None
                                 end
              | None => None
              end
  end.

Definition lower (a : kaction) : option action :=
  match a with KA a => Some a | KDo g k => option_map (Do g) (raw_of k) end.

(* one whole call of goroutine g: first locked section (reconnect attempt with outcome f if there is no
   client), f(client), second locked section, return *)
Definition call_dies (g : nat) (f : fault) (k : errkind) : list kaction :=
  [KA (Start g); KA (Enter g f); KDo g k; KA (Leave g); KA (Ret g)].
Definition call_works (g : nat) (f : fault) : list kaction :=
  [KA (Start g); KA (Enter g f); KA (Do g WOk); KA (Leave g); KA (Ret g)].
