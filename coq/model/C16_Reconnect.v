(* C16 - model of core/client/reconnect.go (reconnectableClientImpl) as a labelled transition
   system whose actions are the atomic sections of clientDo, plus the environment.
   Definitions only.  Transcribed from the working tree:

     reconnect()   reconnect.go:38-57   (close rc.client if any; configFunc; NewClient = factory.New +
                                         handshake, connect() closes the new socket on failure
                                         client.go:127-141; count++; connectedFunc)
     clientDo()    reconnect.go:63-92   first locked section = Enter, f(client) outside the lock = Do,
                                         second locked section (only after a ClosedError) = Leave
     Close()       reconnect.go:114-122
     wrapIfConnectionClosed client.go:251-262 = classify

   A client owns exactly one factory socket, so client ids are socket ids. *)
From Coq Require Import List Arith Bool.
Import ListNotations.
From Hy Require Import gen.ParamsC16.

(* outcome of one reconnect attempt, chosen by the environment *)
Inductive fault := FOk | FCfgErr | FNewErr | FHsErr.
(* what f(client) runs into, chosen by the environment (subject to the liveness of the client) *)
Inductive raw := WOk | WDial | WStreamLimit | WDead.
(* ... as seen by clientDo after wrapIfConnectionClosed *)
Inductive res := ROk | RRecov | RClosed.
(* what TCP()/UDP() returns to the caller *)
Inductive retc := TOk | TRecov | TClosed | TCfgErr | TNewErr | THsErr.
(* program counter of a calling goroutine *)
Inductive pc := PIdle | PStarted | PEntered (c : nat) | PDone (c : nat) (r : res) | PRet (t : retc).

(* one socket handed out by ConnFactory.New *)
Record sock := mkSock { s_open : bool; s_closes : nat; s_client : bool; s_dead : bool }.

Record st := mkSt {
  cur : option nat;     (* rc.client *)
  count : nat;          (* rc.count *)
  closed : bool;        (* rc.closed *)
  socks : list sock;    (* census of every socket the factories returned, by socket id *)
  pcs : list pc;        (* goroutine -> pc, PIdle beyond the end *)
  ncfg : nat;           (* configFunc evaluations so far *)
  nnew : nat;           (* ConnFactory.New calls so far *)
  nclose : nat          (* rc.Close() calls so far *)
}.

Inductive ev :=
| ECfg (ok : bool) | ENew (sid : nat) | ENewErr | ESockClose (sid : nat) | EConnected (n : nat)
| ERet (g : nat) (t : retc) | EKill (c : nat).

Inductive action :=
| Start (g : nat) | Enter (g : nat) (f : fault) | Do (g : nat) (w : raw) | Leave (g : nat) | Ret (g : nat)
| Kill (c : nat) | Close.

Definition init0 : st := mkSt None 0 false [] [] 0 0 0.

(* client.go wrapIfConnectionClosed: the stream-limit row is read off the code on every run *)
Definition classify (w : raw) : res :=
  match w with
  | WOk => ROk
  | WDial => RRecov
  | WStreamLimit => if c16_streamlimit_is_closed then RClosed else RRecov
  | WDead => RClosed
  end.

Definition ret_of (r : res) : retc := match r with ROk => TOk | RRecov => TRecov | RClosed => TClosed end.

Fixpoint modify {A} (l : list A) (i : nat) (f : A -> A) : list A :=
  match l, i with
  | [], _ => []
  | h :: t, O => f h :: t
  | h :: t, S k => h :: modify t k f
  end.

Fixpoint upd (l : list pc) (i : nat) (x : pc) : list pc :=
  match i, l with
  | O, [] => [x]
  | O, _ :: t => x :: t
  | S k, [] => PIdle :: upd [] k x
  | S k, h :: t => h :: upd t k x
  end.

Definition get_pc (s : st) (g : nat) : pc := nth g (pcs s) PIdle.

Definition set_pc (s : st) (g : nat) (p : pc) : st :=
  mkSt (cur s) (count s) (closed s) (socks s) (upd (pcs s) g p) (ncfg s) (nnew s) (nclose s).

Definition set_cur (s : st) (c : option nat) : st :=
  mkSt c (count s) (closed s) (socks s) (pcs s) (ncfg s) (nnew s) (nclose s).

Definition set_socks (s : st) (l : list sock) : st :=
  mkSt (cur s) (count s) (closed s) l (pcs s) (ncfg s) (nnew s) (nclose s).

(* PacketConn.Close(): may be called again on an already closed socket *)
Definition close_sock (k : sock) : sock := mkSock false (S (s_closes k)) (s_client k) (s_dead k).
Definition kill_sock (k : sock) : sock := mkSock (s_open k) (s_closes k) (s_client k) true.

(* clientImpl.Close(): closes the QUIC connection, the transport and the packet conn *)
Definition close_client (s : st) (c : nat) : st := set_socks s (modify (socks s) c close_sock).

Definition alive (s : st) (c : nat) : bool :=
  match nth_error (socks s) c with
  | Some k => s_client k && negb (s_dead k) && s_open k
  | None => false
  end.

Definition is_cur (s : st) (c : nat) : bool :=
  match cur s with Some d => Nat.eqb d c | None => false end.

(* reconnect(): returns the new state, the boundary events, and the error if any *)
Definition reconnect (s : st) (f : fault) : st * list ev * option retc :=
  let '(s0, e0) := match cur s with
                   | Some c => (close_client s c, [ESockClose c])
                   | None => (s, [])
                   end in
  let s1 := mkSt (cur s0) (count s0) (closed s0) (socks s0) (pcs s0) (S (ncfg s0)) (nnew s0) (nclose s0) in
  match f with
  | FCfgErr => (s1, e0 ++ [ECfg false], Some TCfgErr)
  | FNewErr =>
      (mkSt None (count s1) (closed s1) (socks s1) (pcs s1) (ncfg s1) (S (nnew s1)) (nclose s1),
       e0 ++ [ECfg true; ENewErr], Some TNewErr)
  | FHsErr =>
      let sid := length (socks s1) in
      (mkSt None (count s1) (closed s1) (socks s1 ++ [mkSock false 1 false false]) (pcs s1)
            (ncfg s1) (S (nnew s1)) (nclose s1),
       e0 ++ [ECfg true; ENew sid; ESockClose sid], Some THsErr)
  | FOk =>
      let sid := length (socks s1) in
      (mkSt (Some sid) (S (count s1)) (closed s1) (socks s1 ++ [mkSock true 0 true false]) (pcs s1)
            (ncfg s1) (S (nnew s1)) (nclose s1),
       e0 ++ [ECfg true; ENew sid; EConnected (S (count s1))], None)
  end.

(* col = does the second locked section Close() the client it drops (true on this tree since
   fix 17810d9; false = the earlier behaviour, kept for the refutation lemma) *)
Definition step (col : bool) (s : st) (a : action) : option (st * list ev) :=
  match a with
  | Start g =>
      match get_pc s g with PIdle => Some (set_pc s g PStarted, []) | _ => None end
  | Enter g f =>
      match get_pc s g with
      | PStarted =>
          if closed s then Some (set_pc s g (PRet TClosed), [])
          else match cur s with
               | Some c => Some (set_pc s g (PEntered c), [])
               | None =>
                   let '(s1, evs, err) := reconnect s f in
                   match err, cur s1 with
                   | None, Some c => Some (set_pc s1 g (PEntered c), evs)
                   | Some t, _ => Some (set_pc s1 g (PRet t), evs)
                   | None, None => None
                   end
               end
      | _ => None
      end
  | Do g w =>
      match get_pc s g with
      | PEntered c =>
          let ok := match w with
                    | WOk | WStreamLimit => alive s c
                    | WDial => true
                    | WDead => negb (alive s c)
                    end in
          if ok then Some (set_pc s g (PDone c (classify w)), []) else None
      | _ => None
      end
  | Leave g =>
      match get_pc s g with
      | PDone c r =>
          match r with
          | RClosed =>
              if is_cur s c then
                let s1 := set_cur s None in
                if col then Some (set_pc (close_client s1 c) g (PRet TClosed), [ESockClose c])
                else Some (set_pc s1 g (PRet TClosed), [])
              else Some (set_pc s g (PRet TClosed), [])
          | _ => Some (set_pc s g (PRet (ret_of r)), [])
          end
      | _ => None
      end
  | Ret g =>
      match get_pc s g with PRet t => Some (set_pc s g PIdle, [ERet g t]) | _ => None end
  | Kill c =>
      if alive s c then Some (set_socks s (modify (socks s) c kill_sock), [EKill c]) else None
  | Close =>
      let s1 := mkSt (cur s) (count s) true (socks s) (pcs s) (ncfg s) (nnew s) (S (nclose s)) in
      match cur s with
      | Some c => Some (close_client s1 c, [ESockClose c])
      | None => Some (s1, [])
      end
  end.

(* strict run of an action sequence *)
Fixpoint run (col : bool) (s : st) (tr : list action) : option st :=
  match tr with
  | [] => Some s
  | a :: t => match step col s a with Some (s1, _) => run col s1 t | None => None end
  end.

(* NewReconnectableClient: lazy = no connection yet; eager = one successful reconnect() (a failing
   eager start returns no client object at all) *)
Definition starts (s : st) : Prop :=
  s = init0 \/ exists evs, reconnect init0 FOk = (s, evs, None).

Inductive reachable (col : bool) : st -> Prop :=
| R_start s : starts s -> reachable col s
| R_step s a s1 evs : reachable col s -> step col s a = Some (s1, evs) -> reachable col s1.

Definition is_idle (p : pc) : bool := match p with PIdle => true | _ => false end.
Definition quiescent (s : st) : bool := forallb is_idle (pcs s).

Fixpoint open_from (i : nat) (l : list sock) : list nat :=
  match l with
  | [] => []
  | k :: t => if s_open k then i :: open_from (S i) t else open_from (S i) t
  end.
Definition open_sids (s : st) : list nat := open_from 0 (socks s).
