(* C16 - a VARIANT of core/client/reconnect.go, not the code of the working tree: reconnect() gives
   rc.m up while configFunc runs ("config evaluation can be slow, do not make Close wait for it") and
   takes it again before NewClient.  The first locked section of clientDo then falls into two
   sections: the decisions (rc.closed, rc.client == nil, the Close of an old client) are taken in the
   first one, the connection is built and assigned in the second one.  Definitions only; used by the
   refutation lemma that shows why the model of the real code runs Enter as ONE action. *)
From Coq Require Import List Arith Bool.
Import ListNotations.
From Hy Require Import gen.ParamsC16 model.C16_Reconnect.

(* [incfg] = goroutines that are inside configFunc, not holding the mutex (their pc stays PStarted) *)
Record st2 := mkSt2 { base : st; incfg : list nat }.

Inductive action2 :=
| Old (a : action)              (* any action of the real LTS (except an Enter that would reconnect) *)
| CfgBegin (g : nat)            (* first half: closed? client? -> leave the mutex, evaluate the config *)
| Build (g : nat) (f : fault).  (* second half: mutex again, NewClient, rc.client := new, count++ *)

Fixpoint has (g : nat) (l : list nat) : bool :=
  match l with [] => false | h :: t => Nat.eqb h g || has g t end.
Fixpoint drop (g : nat) (l : list nat) : list nat :=
  match l with [] => [] | h :: t => if Nat.eqb h g then drop g t else h :: drop g t end.

(* what reconnect() does after configFunc returned: nothing is re-checked *)
Definition build (s : st) (f : fault) : st * option retc :=
  match f with
  | FCfgErr => (s, Some TCfgErr)
  | FNewErr =>
      (mkSt None (count s) (closed s) (socks s) (pcs s) (ncfg s) (S (nnew s)) (nclose s), Some TNewErr)
  | FHsErr =>
      (mkSt None (count s) (closed s) (socks s ++ [mkSock false 1 false false]) (pcs s)
            (ncfg s) (S (nnew s)) (nclose s), Some THsErr)
  | FOk =>
      (mkSt (Some (length (socks s))) (S (count s)) (closed s) (socks s ++ [mkSock true 0 true false])
            (pcs s) (ncfg s) (S (nnew s)) (nclose s), None)
  end.

Definition step2 (s : st2) (a : action2) : option st2 :=
  match a with
  | Old a0 =>
      let ok := match a0 with
                | Enter g _ => negb (has g (incfg s)) &&
                               (closed (base s) || match cur (base s) with Some _ => true | None => false end)
                | _ => true
                end in
      if ok then match step true (base s) a0 with
                 | Some (s1, _) => Some (mkSt2 s1 (incfg s))
                 | None => None
                 end
      else None
  | CfgBegin g =>
      match get_pc (base s) g, closed (base s), cur (base s) with
      | PStarted, false, None =>
          if has g (incfg s) then None
          else let b := base s in
               Some (mkSt2 (mkSt (cur b) (count b) (closed b) (socks b) (pcs b) (S (ncfg b)) (nnew b) (nclose b))
                           (g :: incfg s))
      | _, _, _ => None
      end
  | Build g f =>
      if has g (incfg s) then
        let '(s1, err) := build (base s) f in
        match err, cur s1 with
        | None, Some c => Some (mkSt2 (set_pc s1 g (PEntered c)) (drop g (incfg s)))
        | Some t, _ => Some (mkSt2 (set_pc s1 g (PRet t)) (drop g (incfg s)))
        | None, None => None
        end
      else None
  end.

Fixpoint run2 (s : st2) (tr : list action2) : option st2 :=
  match tr with
  | [] => Some s
  | a :: t => match step2 s a with Some s1 => run2 s1 t | None => None end
  end.

Definition init2 : st2 := mkSt2 init0 [].
