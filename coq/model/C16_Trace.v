(* C16 - what it MEANS for a recorded boundary log (corr/C16_Corr.v [obs]) to be a trace of the LTS of
   model/C16_Reconnect.v.  Definitions only; the acceptor of corr/C16_Corr.v is proved sound against
   them in proof/C16_Accept.v.

   Two formulations:
   (1) [explains s cl l s' cl']: the log-level (weak) transition relation.  Between two observations
       any number of unobserved actions may run: a first locked section that finds a client or the
       closed flag (Enter, no boundary event), f(client) (Do), a second locked section that closes
       nothing (Leave, no boundary event), and - only while an rc.Close() call is pending, [cl] - the
       locked section of a Close that finds no client.  Every observation is one action of the LTS
       with exactly the recorded boundary events ([OSec] / [OCloseSec] / [ORet] / [OKill] /
       [OStart]) or a check on the model state at that point ([OQuiet]: quiescent and exactly the
       recorded sockets open; [OReq]: the call is past its first section; [OCloseBegin] /
       [OCloseEnd]: exactly one Close action lies between them).
   (2) [proj s tr]: the visible labels of a strict run, and [erase l]: the labels a log claims. *)
From Coq Require Import List Arith Bool NArith.
Import ListNotations.
From Hy Require Import gen.ParamsC16 model.C16_Reconnect corr.C16_Corr.

(* ---- (1) *)
Definition hidden_action (a : action) : Prop :=
  match a with Enter _ _ | Do _ _ | Leave _ => True | _ => False end.

Inductive tau : st -> bool -> st -> bool -> Prop :=
| T_act s cl a s1 : hidden_action a -> step true s a = Some (s1, []) -> tau s cl s1 cl
| T_close s s1 : step true s Close = Some (s1, []) -> tau s true s1 false.

Definition past_first_section (p : pc) : Prop :=
  match p with PEntered _ | PDone _ _ | PRet TClosed => True | _ => False end.

Inductive vstep : st -> bool -> obs -> st -> bool -> Prop :=
| V_start s cl g t s1 : step true s (Start g) = Some (s1, []) -> vstep s cl (OStart g t) s1 cl
| V_enter s cl g f evs s1 : evs <> [] -> step true s (Enter g f) = Some (s1, evs) ->
    vstep s cl (OSec g evs) s1 cl
| V_leave s cl g evs s1 : evs <> [] -> step true s (Leave g) = Some (s1, evs) ->
    vstep s cl (OSec g evs) s1 cl
| V_req s cl g : past_first_section (get_pc s g) -> vstep s cl (OReq g) s cl
| V_ret s cl g t s1 : step true s (Ret g) = Some (s1, [ERet g t]) -> vstep s cl (ORet g t) s1 cl
| V_kill s cl c s1 : step true s (Kill c) = Some (s1, [EKill c]) -> vstep s cl (OKill c) s1 cl
| V_cbegin s : vstep s false OCloseBegin s true
| V_csec s evs s1 : evs <> [] -> step true s Close = Some (s1, evs) ->
    vstep s true (OCloseSec evs) s1 false
| V_cend s : vstep s false OCloseEnd s false
| V_quiet s cl opens : quiescent s = true -> open_sids s = opens -> vstep s cl (OQuiet opens) s cl.

Inductive explains : st -> bool -> list obs -> st -> bool -> Prop :=
| X_nil s cl : explains s cl [] s cl
| X_tau s cl s1 cl1 l s2 cl2 : tau s cl s1 cl1 -> explains s1 cl1 l s2 cl2 -> explains s cl l s2 cl2
| X_vis s cl o s1 cl1 l s2 cl2 : vstep s cl o s1 cl1 -> explains s1 cl1 l s2 cl2 ->
    explains s cl (o :: l) s2 cl2.

(* a whole log: the construction (lazy / eager, NewReconnectableClient) and then the rest *)
Definition is_trace (l : list obs) : Prop :=
  match l with
  | OInit true [] true :: rest => exists s cl, explains init0 false rest s cl
  | OInit false evs true :: rest =>
      exists s0, reconnect init0 FOk = (s0, evs, None) /\ exists s cl, explains s0 false rest s cl
  | [OInit false evs false] =>
      exists f s t, f <> FOk /\ reconnect init0 f = (s, evs, Some t) /\ open_sids s = []
  | _ => False
  end.

(* ---- (2) *)
Inductive vis :=
| VStart (g : nat) | VSec (g : nat) (evs : list ev) | VRet (g : nat) (t : retc) | VKill (c : nat)
| VCloseSec (evs : list ev).

Definition label (a : action) (evs : list ev) : list vis :=
  match a, evs with
  | Start g, _ => [VStart g]
  | Enter g _, _ :: _ | Leave g, _ :: _ => [VSec g evs]
  | Ret g, [ERet _ t] => [VRet g t]
  | Kill c, _ => [VKill c]
  | Close, _ :: _ => [VCloseSec evs]
  | _, _ => []
  end.

Fixpoint proj (s : st) (tr : list action) : list vis :=
  match tr with
  | [] => []
  | a :: t => match step true s a with
              | Some (s1, evs) => label a evs ++ proj s1 t
              | None => []
              end
  end.

Definition erase1 (o : obs) : list vis :=
  match o with
  | OStart g _ => [VStart g]
  | OSec g evs => [VSec g evs]
  | ORet g t => [VRet g t]
  | OKill c => [VKill c]
  | OCloseSec evs => [VCloseSec evs]
  | _ => []
  end.
Definition erase (l : list obs) : list vis := flat_map erase1 l.

Definition count_close (tr : list action) : nat :=
  length (filter (fun a => match a with Close => true | _ => false end) tr).
Definition count_cbegin (l : list obs) : nat :=
  length (filter (fun o => match o with OCloseBegin => true | _ => false end) l).
Definition count_cend (l : list obs) : nat :=
  length (filter (fun o => match o with OCloseEnd => true | _ => false end) l).

(* ---- the harness monitors, as predicates on the log alone *)
(* census: at every quiescent point at most one factory socket is open *)
Definition census_mon (l : list obs) : bool :=
  forallb (fun o => match o with OQuiet opens => Nat.leb (length opens) 1 | _ => true end) l.

Definition connect_event (e : ev) : bool :=
  match e with ECfg _ | ENew _ | ENewErr | EConnected _ => true | _ => false end.

(* Close is final: once an rc.Close() that had begun has returned ([begun], [after]) no locked section
   evaluates the config, calls the factory or reports a connect; nothing is open at a quiescent
   point; a call that starts afterwards ([late] = the goroutines running such a call) returns
   ClosedError *)
Definition is_cbegin (o : obs) : bool := match o with OCloseBegin => true | _ => false end.
Definition is_cend (o : obs) : bool := match o with OCloseEnd => true | _ => false end.

Fixpoint close_final_mon (begun after : bool) (late : list nat) (l : list obs) : bool :=
  match l with
  | [] => true
  | o :: t =>
      (if after then
         match o with
         | OSec _ evs | OCloseSec evs => negb (existsb connect_event evs)
         | OQuiet opens => match opens with [] => true | _ => false end
         | ORet g r => if existsb (Nat.eqb g) late then retc_eqb r TClosed else true
         | _ => true
         end
       else true)
      && close_final_mon (begun || is_cbegin o) (after || (begun && is_cend o))
                         (match o with
                          | OStart g _ => if after then g :: late else late
                          | ORet g _ => filter (fun h => negb (Nat.eqb g h)) late
                          | _ => late
                          end) t
  end.

(* the start state a log claims: lazy (no connection yet) or eager with the recorded events *)
Definition start_of (lz : bool) (evs : list ev) (s0 : st) : Prop :=
  if lz then evs = [] /\ s0 = init0 else reconnect init0 FOk = (s0, evs, None).

(* ---- the cut of the raw log into locked sections (corr/C16_Corr.v [group]) *)
(* what [group] preserves: it only cuts the boundary events into sections and moves the observations that
   commute with an unfinished section behind it.  The observations keep their order; every actor's events
   keep their order and are all there. *)
Definition is_sec (o : obs) : bool := match o with OSec _ _ | OCloseSec _ => true | _ => false end.
Definition log_obs (l : list robs) : list obs := flat_map (fun r => match r with RO o => [o] | RE _ _ => [] end) l.
Definition actor_events (w : nat) (l : list robs) : list ev :=
  flat_map (fun r => match r with RE w' e => if Nat.eqb w' w then [e] else [] | RO _ => [] end) l.
Definition sec_evs (w : nat) (o : obs) : list ev :=
  match o with
  | OSec g evs => if Nat.eqb g w && negb (Nat.eqb w close_actor) then evs else []
  | OCloseSec evs => if Nat.eqb w close_actor then evs else []
  | _ => []
  end.
Definition plain (l : list obs) : Prop := Forall (fun o => is_sec o = false) l.


(* ---- exhaustive enumeration of the bounded runs of the LTS, for the completeness test of the
   acceptor (proof/C16_Accept.v).  [dfs n ng ini s cl bk bc bs rlog] walks EVERY run of at most [n]
   further moves from [s] over goroutines 0..ng-1 (every enabled Enter fault / Do outcome / Kill /
   Close; at most [bk] kills, [bc] rc.Close() calls, [bs] call starts), records the log the harness
   would record for it ([log_of]: an rc.Close() is a move "begin" and, any number of moves later, the
   Close action followed by its return; a quiescent point is logged whenever the state is quiescent;
   the server sees the request of a call whose f(client) succeeds), and at every quiescent point
   with no Close pending hands the log (return hints filled in from the returns, [fix_hints]) to
   the acceptor.  Result: number of logs tested, and the logs that were NOT accepted. *)
Definition moves (ng : nat) (s : st) (cl : bool) (bk bc bs : nat) : list (option action) :=
  flat_map (fun g => match get_pc s g with
     | PIdle => match bs with O => [] | _ => [Some (Start g)] end
     | PStarted => if closed s then [Some (Enter g FOk)]
                   else match cur s with Some _ => [Some (Enter g FOk)] | None => map (fun f => Some (Enter g f)) faults end
     | PEntered _ => map (fun w => Some (Do g w)) [WOk; WDial; WStreamLimit; WDead]
     | PDone _ _ => [Some (Leave g)]
     | PRet _ => [Some (Ret g)] end) (seq 0 ng)
  ++ (match bk with O => [] | _ => map (fun c => Some (Kill c)) (seq 0 (length (socks s))) end)
  ++ (if cl then [Some Close] else match bc with O => [] | _ => [None] end).

Definition log_of (a : action) (evs : list ev) : list obs :=
  match a with
  | Start g => [OStart g TOk]
  | Enter g _ | Leave g => match evs with [] => [] | _ => [OSec g evs] end
  | Do g WOk => [OReq g]
  | Do _ _ => []
  | Ret g => match evs with [ERet _ t] => [ORet g t] | _ => [] end
  | Kill c => [OKill c]
  | Close => match evs with [] => [OCloseEnd] | _ => [OCloseSec evs; OCloseEnd] end
  end.

Fixpoint first_ret (g : nat) (l : list obs) : retc :=
  match l with
  | [] => TOk
  | ORet h t :: r => if Nat.eqb g h then t else first_ret g r
  | _ :: r => first_ret g r
  end.
Fixpoint fix_hints (l : list obs) : list obs :=
  match l with
  | [] => []
  | OStart g _ :: r => OStart g (first_ret g r) :: fix_hints r
  | o :: r => o :: fix_hints r
  end.

Fixpoint dfs (n ng : nat) (ini : obs) (s : st) (cl : bool) (bk bc bs : nat) (rlog : list obs)
  : N * list (list obs) :=
  let here := if quiescent s && negb cl then
                let l := ini :: fix_hints (rev rlog) in
                if accepts l then (1%N, []) else (1%N, [l])
              else (0%N, []) in
  match n with
  | O => here
  | S k =>
    fold_left (fun acc m =>
       let r := match m with
                | None => dfs k ng ini s true bk (pred bc) bs (OCloseBegin :: rlog)
                | Some a => match step true s a with
                            | None => (0%N, [])
                            | Some (s1, evs) =>
                                let q := if quiescent s1 then [OQuiet (open_sids s1)] else [] in
                                dfs k ng ini s1 (match a with Close => false | _ => cl end)
                                    (match a with Kill _ => pred bk | _ => bk end) bc
                                    (match a with Start _ => pred bs | _ => bs end)
                                    (rev q ++ rev (log_of a evs) ++ rlog)
                            end
                end in
       (N.add (fst acc) (fst r), snd acc ++ snd r)) (moves ng s cl bk bc bs) here
  end.


Definition lazy0 : obs := OInit true [] true.
Definition eager0 : st := fst (fst (reconnect init0 FOk)).
Definition eagerI : obs := OInit false (snd (fst (reconnect init0 FOk))) true.

Definition complete_bounded : list (N * list (list obs)) :=
  [ dfs 15 1 lazy0 init0 false 2 1 3 [];
    dfs 13 1 lazy0 init0 false 1 2 3 [];
    dfs 10 2 lazy0 init0 false 1 1 2 [];
    dfs 8 3 lazy0 init0 false 1 1 3 [];
    dfs 10 2 eagerI eager0 false 1 1 2 [] ].
