(* C17 - vocabulary for stating what assembleCryptoFrames may return (definitions only):
   the frames' data in list order, and "these frames follow one another from stream offset o, each one starting
   exactly where the one before ends" (no hole, no overlap). *)
From Hy Require Import model.C17_Sniff.
From Coq Require Import ZArith List.
Import ListNotations.

Definition frames_data (fs : list (Z * list byte)) : list byte := concat (map snd fs).

(* the frames follow one another from stream offset o without hole or overlap *)
Fixpoint chain (o : Z) (fs : list (Z * list byte)) : Prop :=
  match fs with
  | [] => True
  | f :: t => fst f = o /\ chain (o + Z.of_nat (length (snd f)))%Z t
  end.

