(* C17 - who owns the replay bytes.  Definitions only.

   Sniffer.TCP returns the putback as a Go slice.  core/server (handleTCPRequest) keeps that slice while
   it logs the request and dials the target (Outbound.TCP: DNS + connect) and only then writes it to the
   target, followed by the unread rest of the stream.  In that window other hooked streams of the server
   run Sniffer.TCP.  The property therefore needs an ownership fact that model/C17_Sniff.v (one call, the
   result a value) cannot express: THE ARRAY BEHIND THE RETURNED SLICE IS NOT WRITTEN AFTER THE CALL
   RETURNED.  The code as it is satisfies it because every call allocates its detection buffer
   (pre := make([]byte, 3), grown by append; teeReader.Buffer() appends to that same array or to a new
   one) and drops every other reference on return: the buffer is a fresh heap cell of the heap used for
   the QUIC datagram (model/C17_Sniff.v Part 5), owned by the caller afterwards.
   A variant that takes the buffer from a pool shared by all calls and returns it to the pool on exit
   (sync.Pool + defer Put) hands out a slice of a cell the next call writes: [pooled = true] below.

   History of a server: OSniff i = Sniffer.TCP on hooked stream i returns; OWrite i = the server writes
   the slice it holds for stream i to that stream's target. *)
From Hy Require Import lib.Bytes model.C17_Sniff.
From Coq Require Import List.
Import ListNotations.

Inductive own_ev := OSniff (i : nat) | OWrite (i : nat).

(* slice headers the server holds: stream -> (cell, len) *)
Record own_st := OwnSt { ow_heap : heap; ow_slices : list (nat * (nat * nat)) }.

(* copy(buf, new): a write of new at the front of an array *)
Definition own_overwrite (new old : list byte) : list byte := new ++ skipn (length new) old.

Definition own_lookup (i : nat) (l : list (nat * (nat * nat))) : option (nat * nat) :=
  match find (fun x => Nat.eqb (fst x) i) l with Some x => Some (snd x) | None => None end.

Section Own.
  Variable replay_of : nat -> list byte.     (* o_replay of stream i's Sniffer.TCP call (sniff_tcp) *)
  Variable pooled : bool.                    (* false: the code as it is; true: the pooled variant *)

  Definition own_step (st : own_st) (e : own_ev) : own_st * option (nat * list byte) :=
    match e with
    | OSniff i =>
        let r := replay_of i in
        if pooled then
          (* bufp := pool.Get(); defer pool.Put(bufp): the pool's array is cell 0 *)
          (OwnSt (heap_set (ow_heap st) 0 (own_overwrite r (heap_get (ow_heap st) 0)))
                 ((i, (0, length r)) :: ow_slices st), None)%nat
        else
          let '(h', c) := heap_alloc (ow_heap st) r in
          (OwnSt h' ((i, (c, length r)) :: ow_slices st), None)
    | OWrite i =>
        match own_lookup i (ow_slices st) with
        | Some (c, n) => (st, Some (i, firstn n (heap_get (ow_heap st) c)))
        | None => (st, None)           (* nothing to write before the stream was sniffed *)
        end
    end.

  (* the bytes written to the targets, in order *)
  Fixpoint own_run (st : own_st) (evs : list own_ev) : list (nat * list byte) :=
    match evs with
    | [] => []
    | e :: t =>
        let '(st', w) := own_step st e in
        match w with Some x => x :: own_run st' t | None => own_run st' t end
    end.
End Own.

(* cell 0 is the pool's array (never handed out by heap_alloc, which appends) *)
Definition own_init : own_st := OwnSt [[]] [].
