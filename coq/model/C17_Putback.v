(* C17, server side of "sniffing is transparent": model of the HOOKED path of core/server/server.go
   handleTCPRequest (server.go:271-343) - what the server does with the bytes a request hook hands back -
   on top of the relay LTS of model/C06_Relay.v (copyBufferLog / copyTwoWayEx / copyTwoWay).  Definitions only.

       reqAddr, err := protocol.ReadTCPRequest(stream)                  HAReadReq ok
       hooked = h.config.RequestHook.Check(false, reqAddr)              HACheck hooked
       if hooked {
         _ = protocol.WriteTCPResponse(stream, true, "RequestHook enabled")   HAWriteResp msg
         putback, err = h.config.RequestHook.TCP(stream, &reqAddr)      HAHook (Some putback) | HAHook None
         if err != nil { _ = stream.Close(); return }
       }
       tConn, err := h.config.Outbound.TCP(reqAddr)                     HADial ok
       if err != nil { (hooked: no response) _ = stream.Close(); return }  HACloseStream
       if len(putback) > 0 {
         n, _ := tConn.Write(putback)                                   HAPutWrite putback n err   (the error is dropped)
         streamStats.Tx.Add(uint64(n))
       }
       copyTwoWayEx(...) / copyTwoWay(...); teardown                    HARel a   (C06's LTS from relay_init)

   The unhooked continuation (Check = false) is C06's model; this LTS stops there (HUnhooked).
   What the hook took off the stream is not visible to the server: the hook's own contract (C17's sniffer
   theorems: replay ++ unread = sent) says it is the putback, so the client's stream behind the request is
   putback ++ (what the Up loop reads). *)
From Hy Require Import lib.Bytes gen.ParamsC06 model.C06_Relay.
From Coq Require Import List NArith ZArith Bool.
Import ListNotations.
Local Open Scope N_scope.

(* "RequestHook enabled" *)
Definition HookEnabled : bytes :=
  [x52; x65; x71; x75; x65; x73; x74; x48; x6f; x6f; x6b; x20; x65; x6e; x61; x62; x6c; x65; x64].

Inductive hppc :=
| HReadReq
| HCheck
| HRespHook
| HHookTCP
| HDial (put : bytes)
| HPut (put : bytes)        (* at tConn.Write(putback), len(putback) > 0 *)
| HRelay                    (* copyTwoWayEx / copyTwoWay and the teardown: the inner C06 state *)
| HCloseOnly                (* _ = stream.Close(); return *)
| HDone
| HUnhooked.                (* Check returned false: C06's path *)

Inductive hact :=
| HAReadReq (ok : bool)
| HACheck (hooked : bool)
| HAWriteResp (msg : bytes)
| HAHook (r : option bytes)
| HADial (ok : bool)
| HAPutWrite (c : bytes) (nw : Z) (ew : eerr)
| HACloseStream
| HARel (a : act).

(* hin: the relay (started by HRelay from relay_init); hputn: what the putback write added to StreamStats.Tx *)
Record hst := mkH { hp : hppc; hin : st; hputn : N }.

Definition hinit (m : mode) : hst := mkH HReadReq (relay_init m) 0.

(* uint64(n) of a Go int *)
Definition to_u64 (n : Z) : N := Z.to_N (n mod 18446744073709551616)%Z.

Definition hstep (s : hst) (a : hact) : option hst :=
  let go p := Some (mkH p (hin s) (hputn s)) in
  match hp s, a with
  | HReadReq, HAReadReq ok => go (if ok then HCheck else HCloseOnly)
  | HCheck, HACheck b => go (if b then HRespHook else HUnhooked)
  | HRespHook, HAWriteResp msg => if beqb msg HookEnabled then go HHookTCP else None
  | HHookTCP, HAHook None => go HCloseOnly
  | HHookTCP, HAHook (Some put) => go (HDial put)
  | HDial put, HADial ok =>
      if ok then go (match put with [] => HRelay | _ => HPut put end) else go HCloseOnly
  | HPut put, HAPutWrite c nw ew =>
      if beqb c put then Some (mkH HRelay (hin s) (to_u64 nw)) else None
  | HRelay, HARel x =>
      match step (hin s) x with Some i' => Some (mkH HRelay i' (hputn s)) | None => None end
  | HCloseOnly, HACloseStream => go HDone
  | _, _ => None
  end.

Fixpoint hexec (s : hst) (tr : list hact) : option hst :=
  match tr with
  | [] => Some s
  | a :: t => match hstep s a with Some s' => hexec s' t | None => None end
  end.

(* ---- what a trace says *)
(* the relay's part of the run *)
Definition hrel (tr : list hact) : list act :=
  flat_map (fun a => match a with HARel x => [x] | _ => [] end) tr.
(* what the hook handed back *)
Definition hooks (tr : list hact) : list bytes :=
  flat_map (fun a => match a with HAHook (Some p) => [p] | _ => [] end) tr.
(* bytes the direct write put on the target connection *)
Definition hputw (tr : list hact) : bytes :=
  flat_map (fun a => match a with HAPutWrite c nw _ => wrote c nw | _ => [] end) tr.
(* everything the target connection accepted, in order *)
Definition htarget (tr : list hact) : bytes :=
  flat_map (fun a => match a with
                     | HAPutWrite c nw _ => wrote c nw
                     | HARel (ALoop Up (LWrite c nw _)) => wrote c nw
                     | _ => []
                     end) tr.
(* StreamStats.Tx *)
Definition hstats_tx (s : hst) : N := u64 (hputn s + sTx (hin s)).
(* tx arguments of all LogTraffic calls of the relay, whatever the verdict (the stats are added before the call) *)
Definition txsum (tr : list act) : N :=
  fold_right (fun a acc => match a with ALoop _ (LLog tx _ _) => tx + acc | _ => acc end) 0 tr.

(* io.Writer contract for the direct write, and "it reported no error" *)
Definition hwok_act (a : hact) : Prop :=
  match a with
  | HAPutWrite c nw ew => (0 <= nw <= Z.of_N (blen c))%Z /\ ((nw < Z.of_N (blen c))%Z -> ew <> EN)
  | _ => True
  end.
Definition hwok (tr : list hact) : Prop := Forall hwok_act tr /\ wok_tr (hrel tr).
Definition hput_quiet (tr : list hact) : Prop :=
  forall c nw ew, In (HAPutWrite c nw ew) tr -> ew = EN.

(* ---- a variant of the putback step for comparison: the putback is not written directly but staged through the
   copy buffer as "the result of the first read" (nr := copy(buf, head)): only the first CopyBufSize bytes of it
   ever reach the loop.  Not the code; used to show that the theorems distinguish the two. *)
Definition staged_head (put : bytes) : bytes := firstn (N.to_nat CopyBufSize) put.
