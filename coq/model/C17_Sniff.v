(* C17 model: extras/sniff/sniff.go (Check, TCP, UDP, teeReader, isHTTP, isTLS) and
   extras/sniff/internal/quic/{header.go, payload.go, packet_protector.go} as they are on the
   current tree (after the fix: commits 3d877c6 and 0cd7efd).  Definitions only.

   Part 1  the stream as a script of read events (own minimal model, names prefixed c17_),
           io.ReadFull as the loop of io.ReadAtLeast.
   Part 2  net.SplitHostPort / net.JoinHostPort on byte strings.
   Part 3  Sniffer.Check (net.ParseIP, strconv.Atoi are Section oracles).
   Part 4  Sniffer.TCP with the teeReader; the bufio+http.ReadRequest consumer is an oracle that
           decides after every read whether to read again (and with which buffer size) or to stop
           with an optional Host; utls.UnmarshalClientHello is an oracle.
   Part 5  QUIC: parseLongHeader / ParseInitialHeader, UnProtect (in-place writes on a heap of
           buffers), extractCryptoFrames, assembleCryptoFrames, ReadCryptoPayload, Sniffer.UDP.
           AES header protection and the AEAD (HKDF key schedule folded in) are Section oracles.

   Go failure modes are explicit: every slice expression, index expression and make() of the
   anchored code is a possible [Panic site] guarded by exactly the condition Go checks.
   Panic sites:
     1  sniff.go:108  pre[:n]            2  sniff.go:132 pre[3:]       3  sniff.go:135 pre[:3+n]
     4  sniff.go:137  pre[3], pre[4]     5  sniff.go:139 pre[5:]       6  sniff.go:142 pre[:5+n]
     7  sniff.go:144  pre[5:]
    10  header.go:76  make(tokenLen)    (fires if the allocation exceeds the bytes present)
    20  payload.go:48 packet[:offset+hdr.Length]
    30  packet_protector.go:53 packet[sampleOffset:sampleOffset+16]
    31  :57/:59/:62 mask[0]   32  :57 packet[0]   33  :68 packet[pnOffset:][i]   34  :68 mask[1+i]
    35  :72 packet[:pnOffset+pnLen]     36  :73 packet[pnOffset:][pnLen:]
    37  :74 aead.Open output longer than the payload region (would leave the buffer)
    40  payload.go:107 make(dataLen)    (fires if the allocation exceeds the bytes present)
    41  payload.go:145 make(end)  with end < 0
    42  payload.go:147 data[frame.Offset:] *)
From Hy Require Export lib.Bytes lib.Varint lib.Res gen.ParamsC17.
From Coq Require Import ZArith.
Local Open Scope N_scope.

(* ------------------------------------------------------------------ *)
(* Part 1: the stream as a script                                      *)
(* ------------------------------------------------------------------ *)

Inductive c17_serr := SEof | STimeout | SOther.

(* One entry = what the stream delivers next: some bytes (possibly none: a zero-length read)
   and, optionally, an error that is returned together with the last of these bytes and stays
   in force afterwards (a fired read deadline stays fired until it is reset after sniffing; the
   entries behind it are what arrives later and is read by the relay). *)
Record c17_ev := Ev { ev_data : list byte; ev_err : option c17_serr }.
Definition c17_script := list c17_ev.

(* the bytes the client sent that nobody has read yet *)
Definition c17_unread (s : c17_script) : list byte := concat (map ev_data s).

(* stream.Read(b) with len(b) = k : (bytes returned, error returned, script afterwards) *)
Definition c17_read (k : nat) (s : c17_script) : list byte * option c17_serr * c17_script :=
  match s with
  | [] => ([], Some SEof, [])
  | Ev bs e :: rest =>
      if Nat.ltb k (length bs)
      then (firstn k bs, None, Ev (skipn k bs) e :: rest)
      else (bs, e, match e with None => rest | Some x => Ev [] (Some x) :: rest end)
  end.

(* io.ReadFull(stream, buf) with len(buf) = k, i.e. io.ReadAtLeast(r, buf, k):
     for n < min && err == nil { nn, err = r.Read(buf[n:]); n += nn }
     if n >= min { err = nil } ...
   Every iteration that does not end the loop consumes one script entry, so S (length s)
   iterations suffice; running out of fuel is reported as SOther and proved unreachable. *)
Fixpoint c17_read_full_f (fuel : nat) (k : nat) (s : c17_script)
  : list byte * option c17_serr * c17_script :=
  match k with
  | O => ([], None, s)
  | S _ =>
      match fuel with
      | O => ([], Some SOther, s)
      | S f =>
          let '(bs, e, s') := c17_read k s in
          if Nat.leb k (length bs) then (bs, None, s')
          else match e with
               | Some x => (bs, Some x, s')
               | None =>
                   let '(bs2, e2, s2) := c17_read_full_f f (k - length bs) s' in
                   (bs ++ bs2, e2, s2)
               end
      end
  end.

Definition c17_read_full (k : nat) (s : c17_script) := c17_read_full_f (S (length s)) k s.

(* ------------------------------------------------------------------ *)
(* Part 2: net.SplitHostPort / net.JoinHostPort                        *)
(* ------------------------------------------------------------------ *)

Definition ch_colon : byte := x3a.
Definition ch_lbr : byte := x5b.
Definition ch_rbr : byte := x5d.
Definition ch_at : byte := x40.

(* bytealg.IndexByteString *)
Fixpoint index_byte (c : byte) (l : list byte) : option nat :=
  match l with
  | [] => None
  | x :: t => if Byte.eqb x c then Some O
              else match index_byte c t with Some i => Some (S i) | None => None end
  end.

(* bytealg.LastIndexByteString *)
Fixpoint last_index_byte (c : byte) (l : list byte) : option nat :=
  match l with
  | [] => None
  | x :: t => match last_index_byte c t with
              | Some i => Some (S i)
              | None => if Byte.eqb x c then Some O else None
              end
  end.

Definition has_byte (c : byte) (l : list byte) : bool :=
  match index_byte c l with Some _ => true | None => false end.

(* net.SplitHostPort: None = any AddrError *)
Definition split_host_port (hp : list byte) : option (list byte * list byte) :=
  match last_index_byte ch_colon hp with
  | None => None                                        (* missing port *)
  | Some i =>
      match hp with
      | [] => None
      | c0 :: _ =>
          if Byte.eqb c0 ch_lbr then
            match index_byte ch_rbr hp with
            | None => None                              (* missing ']' *)
            | Some e =>
                if Nat.eqb (e + 1) (length hp) then None
                else if Nat.eqb (e + 1) i then
                  (* host = hostport[1:end]; j, k = 1, end+1 *)
                  if has_byte ch_lbr (skipn 1 hp) then None
                  else if has_byte ch_rbr (skipn (e + 1) hp) then None
                  else Some (firstn (e - 1) (skipn 1 hp), skipn (i + 1) hp)
                else None                               (* too many colons / missing port *)
            end
          else
            let host := firstn i hp in
            if has_byte ch_colon host then None         (* too many colons *)
            else if has_byte ch_lbr hp then None
            else if has_byte ch_rbr hp then None
            else Some (host, skipn (i + 1) hp)
      end
  end.

(* net.JoinHostPort *)
Definition join_host_port (host port : list byte) : list byte :=
  if has_byte ch_colon host
  then [ch_lbr] ++ host ++ [ch_rbr; ch_colon] ++ port
  else host ++ [ch_colon] ++ port.

(* ------------------------------------------------------------------ *)
(* Part 3: Sniffer.Check                                               *)
(* ------------------------------------------------------------------ *)

(* utils.PortUnion.Contains *)
Definition port_contains (u : list (N * N)) (p : N) : bool :=
  existsb (fun r => (fst r <=? p) && (p <=? snd r)) u.

Section Check.
  Variable is_ip : list byte -> bool.          (* net.ParseIP(host) != nil *)
  Variable atoi : list byte -> option Z.       (* strconv.Atoi: None = error *)

  (* PortUnion nil = None (all ports) *)
  Definition sniff_check (rewrite_domain : bool) (tcp_ports udp_ports : option (list (N * N)))
             (is_udp : bool) (addr : list byte) : bool :=
    match addr with
    | c :: _ => if Byte.eqb c ch_at then false else
        match split_host_port addr with
        | None => false
        | Some (host, port) =>
            if negb rewrite_domain && negb (is_ip host) then false
            else match atoi port with
                 | None => false
                 | Some n =>
                     let p16 := Z.to_N (n mod 65536)%Z in       (* uint16(portNum) *)
                     match (if is_udp then udp_ports else tcp_ports) with
                     | None => true
                     | Some u => port_contains u p16
                     end
                 end
        end
    | [] => false   (* SplitHostPort("") fails *)
    end.
End Check.

(* ------------------------------------------------------------------ *)
(* Part 4: Sniffer.TCP                                                 *)
(* ------------------------------------------------------------------ *)

Definition is_letter (b : byte) : bool :=
  let n := b2n b in ((65 <=? n) && (n <=? 90)) || ((97 <=? n) && (n <=? 122)).

Definition is_http (buf : list byte) : bool :=
  if Nat.ltb (length buf) 3 then false else forallb is_letter (firstn 3 buf).

Definition is_tls (buf : list byte) : bool :=
  match buf with
  | b0 :: b1 :: b2 :: _ =>
      (22 <=? b2n b0) && (b2n b0 <=? 23) && (b2n b1 =? 3) && (b2n b2 <=? 9)
  | _ => false
  end.

(* teeReader: Pre (not yet handed out), buf (everything handed out so far), the stream *)
Record c17_tee := Tee { t_pre : list byte; t_buf : list byte; t_s : c17_script }.

(* teeReader.Read(b) with len(b) = k *)
Definition tee_read (k : nat) (t : c17_tee) : (list byte * option c17_serr) * c17_tee :=
  match t_pre t with
  | _ :: _ =>
      let n := Nat.min k (length (t_pre t)) in
      ((firstn n (t_pre t), None), Tee (skipn n (t_pre t)) (t_buf t ++ firstn n (t_pre t)) (t_s t))
  | [] =>
      let '(bs, e, s') := c17_read k (t_s t) in
      ((bs, e), Tee [] (t_buf t ++ bs) s')
  end.

(* teeReader.Buffer(): append(c.Pre, c.buf...) *)
Definition tee_buffer (t : c17_tee) : list byte := t_pre t ++ t_buf t.

(* The consumer bufio.NewReader(io.LimitReader(tr, 256 KiB)) + http.ReadRequest: after the
   results of the reads so far (newest first) it either reads again with a buffer of k bytes or
   stops with req.Host (None: req == nil). *)
Inductive c17_decision := CRead (k : nat) | CStop (host : option (list byte)).
Definition c17_consumer := list (list byte * option c17_serr) -> c17_decision.

Fixpoint run_consumer (fuel : nat) (o : c17_consumer) (hist : list (list byte * option c17_serr))
         (t : c17_tee) : c17_tee * option (list byte) :=
  match fuel with
  | O => (t, None)
  | S f =>
      match o hist with
      | CStop h => (t, h)
      | CRead k => let '(r, t') := tee_read k t in run_consumer f o (r :: hist) t'
      end
  end.

Record tcp_out := TcpOut {
  o_replay : list byte;       (* the returned putback slice *)
  o_err : bool;               (* a non-nil error was returned (the server closes the stream) *)
  o_addr : list byte;         (* reqAddr afterwards *)
  o_rest : c17_script }.      (* what is still unread on the stream *)

Definition slice_to (site : N) (n : nat) (l : list byte) : Res (list byte) :=
  if Nat.leb n (length l) then Ok (firstn n l) else Panic site.
Definition slice_from (site : N) (n : nat) (l : list byte) : Res (list byte) :=
  if Nat.leb n (length l) then Ok (skipn n l) else Panic site.
Definition index_at (site : N) (n : nat) (l : list byte) : Res byte :=
  match nth_error l n with Some b => Ok b | None => Panic site end.

(* the address rewrite shared by the three branches:
     _, port, err := net.SplitHostPort(reqAddr); if err != nil { return nil, err }
     reqAddr = net.JoinHostPort(host, port) *)
Definition rewrite_addr (host addr : list byte) : option (list byte) :=
  match split_host_port addr with
  | None => None
  | Some (_, port) => Some (join_host_port host port)
  end.

(* req.Host can be host:port *)
Definition http_host_part (h : list byte) : list byte :=
  match split_host_port h with Some (host, _) => host | None => h end.

Section TCP.
  Variable fuel : nat.                                  (* bound on the consumer's reads *)
  Variable consumer : c17_consumer.                     (* bufio + http.ReadRequest *)
  Variable sni : list byte -> option (list byte).       (* utls.UnmarshalClientHello(..).ServerName *)

  Definition sniff_tcp (dl_fail : bool) (s : c17_script) (addr : list byte) : Res tcp_out :=
    if dl_fail then Ok (TcpOut [] true addr s)          (* SetReadDeadline failed *)
    else
      let '(got, e, s1) := c17_read_full 3 s in
      (* pre := make([]byte, 3); n := len got *)
      let pre := got ++ repeat x00 (3 - length got) in
      match e with
      | Some _ => r <- slice_to 1 (length got) pre ;; Ok (TcpOut r false addr s1)
      | None =>
          if is_http pre then
            let '(t, h) := run_consumer fuel consumer [] (Tee pre [] s1) in
            match h with
            | Some ((_ :: _) as host) =>
                match rewrite_addr (http_host_part host) addr with
                | None => Ok (TcpOut [] true addr (t_s t))
                | Some a' => Ok (TcpOut (tee_buffer t) false a' (t_s t))
                end
            | _ => Ok (TcpOut (tee_buffer t) false addr (t_s t))
            end
          else if is_tls pre then
            (* pre = append(pre, make([]byte, 2)...) *)
            let pre5 := pre ++ [x00; x00] in
            _ <- slice_from 2 3 pre5 ;;
            let '(got2, e2, s2) := c17_read_full 2 s1 in
            let pre5 := pre ++ got2 ++ repeat x00 (2 - length got2) in
            match e2 with
            | Some _ => r <- slice_to 3 (3 + length got2) pre5 ;; Ok (TcpOut r false addr s2)
            | None =>
                b3 <- index_at 4 3 pre5 ;;
                b4 <- index_at 4 4 pre5 ;;
                (* contentLength := int(pre[3])<<8 | int(pre[4]) *)
                let cl := N.to_nat (N.lor (N.shiftl (b2n b3) 8) (b2n b4)) in
                let pre_all := pre5 ++ repeat x00 cl in
                _ <- slice_from 5 5 pre_all ;;
                let '(got3, e3, s3) := c17_read_full cl s2 in
                let pre_all := pre5 ++ got3 ++ repeat x00 (cl - length got3) in
                match e3 with
                | Some _ => r <- slice_to 6 (5 + length got3) pre_all ;; Ok (TcpOut r false addr s3)
                | None =>
                    body <- slice_from 7 5 pre_all ;;
                    match sni body with
                    | Some ((_ :: _) as name) =>
                        match rewrite_addr name addr with
                        | None => Ok (TcpOut [] true addr s3)
                        | Some a' => Ok (TcpOut pre_all false a' s3)
                        end
                    | _ => Ok (TcpOut pre_all false addr s3)
                    end
                end
            end
          else Ok (TcpOut pre false addr s1)
      end.
End TCP.

(* ------------------------------------------------------------------ *)
(* Part 5: QUIC                                                        *)
(* ------------------------------------------------------------------ *)

Definition quic_v1 : N := QuicV1.             (* quic.V1 = 0x1 *)
Definition quic_v2 : N := QuicV2.             (* quic.V2 = 0x6b3343cf *)
Definition maxCryptoFrameDataLen : N := 262144.
Definition maxCryptoPayloadLen : Z := 262144.

Record qhdr := mkHdr {
  h_version : N;
  h_dcid : list byte;
  h_scid : list byte;
  h_token : list byte;
  h_length : N }.                              (* int64(pl), pl < 2^62 *)

(* bytes.Reader.ReadByte *)
Definition rd_byte (r : list byte) : Res (byte * list byte) :=
  match r with [] => Err EEof | b :: t => Ok (b, t) end.

(* beUint32: io.ReadFull(r, make([]byte,4)) *)
Definition rd_u32 (r : list byte) : Res (N * list byte) :=
  if Nat.ltb (length r) 4 then Err (match r with [] => EEof | _ => EShort end)
  else Ok (be_dec (firstn 4 r), skipn 4 r).

(* readConnectionID(b, make([]byte, n)): io.ReadFull; only io.ErrUnexpectedEOF is turned into
   an error - a plain io.EOF (nothing at all left, n > 0) is swallowed and the ID stays zero *)
Definition rd_cid (n : nat) (r : list byte) : Res (list byte * list byte) :=
  match n with
  | O => Ok ([], r)
  | S _ =>
      match r with
      | [] => Ok (repeat x00 n, [])
      | _ :: _ => if Nat.ltb (length r) n then Err EEof else Ok (firstn n r, skipn n r)
      end
  end.

Definition rd_varint (r : list byte) : Res (N * list byte) :=
  match varint_read r with Some x => Ok x | None => Err EEof end.

Definition parse_long_header (r : list byte) : Res (qhdr * list byte) :=
  tb <- rd_byte r ;; let '(typeByte, r) := tb in
  vr <- rd_u32 r ;; let '(ver, r) := vr in
  if negb (ver =? 0) && (N.land (b2n typeByte) 64 =? 0) then Err EInvalid else
  dl <- rd_byte r ;; let '(dlen, r) := dl in
  dc <- rd_cid (N.to_nat (b2n dlen)) r ;; let '(dcid, r) := dc in
  sl <- rd_byte r ;; let '(slen, r) := sl in
  sc <- rd_cid (N.to_nat (b2n slen)) r ;; let '(scid, r) := sc in
  let initialPacketType := if ver =? quic_v2 then 1 else 0 in
  tk <- (if N.land (N.shiftr (b2n typeByte) 4) 3 =? initialPacketType then
           tl <- rd_varint r ;; let '(tokenLen, r) := tl in
           if N.of_nat (length r) <? tokenLen then Err EEof
           else if Nat.ltb (length r) (N.to_nat tokenLen) then Panic 10
           else Ok (firstn (N.to_nat tokenLen) r, skipn (N.to_nat tokenLen) r)
         else Ok ([], r)) ;;
  let '(token, r) := tk in
  pl <- rd_varint r ;; let '(plen, r) := pl in
  Ok (mkHdr ver dcid scid token plen, r).

(* ParseInitialHeader: header and number of bytes read so far *)
Definition parse_initial_header (data : list byte) : Res (qhdr * N) :=
  hr <- parse_long_header data ;;
  let '(h, r) := hr in Ok (h, N.of_nat (length data - length r)).

(* decodePacketNumber (int64 arithmetic; all values are below 2^33 here) *)
Definition decode_pn (largest truncated : Z) (nbits : N) : Z :=
  let expected := (largest + 1)%Z in
  let win := Z.shiftl 1 (Z.of_N (nbits * 8)) in
  let hwin := (win / 2)%Z in
  let mask := (win - 1)%Z in
  let candidate := Z.lor (Z.ldiff expected mask) truncated in
  if ((candidate <=? expected - hwin) && (candidate <? 4611686018427387904 - win))%Z
  then (candidate + win)%Z
  else if ((candidate >? expected + hwin) && (candidate >=? win))%Z then (candidate - win)%Z
  else candidate.

(* heap of byte buffers: a Go slice header (array, 0, len) is (buffer id, len) *)
Definition heap := list (list byte).
Definition heap_get (h : heap) (b : nat) : list byte := nth b h [].
Fixpoint heap_set (h : heap) (b : nat) (v : list byte) : heap :=
  match h, b with
  | [], _ => []
  | _ :: t, O => v :: t
  | x :: t, S j => x :: heap_set t j v
  end.
Definition heap_alloc (h : heap) (v : list byte) : heap * nat := (h ++ [v], length h).

Fixpoint upd_byte (i : nat) (x : byte) (l : list byte) : list byte :=
  match l, i with
  | [], _ => []
  | _ :: t, O => x :: t
  | y :: t, S j => y :: upd_byte j x t
  end.

Definition band (a : byte) (m : N) : byte := n2b (N.land (b2n a) m).

Section QUIC.
  (* hp version dcid sample = key.headerProtection(sample) (AES-ECB under the hp key that HKDF
     derives from the destination connection ID and the version's salt) *)
  Variable hp : N -> list byte -> list byte -> list byte.
  (* aead version dcid pn ciphertext header = (authenticated?, bytes that end up in dst):
     cipher.AEAD.Open(payload[:0], nonce(pn), payload, hdr) *)
  Variable aead : N -> list byte -> Z -> list byte -> list byte -> bool * list byte.
  Variable sni : list byte -> option (list byte).
  (* sort.Slice(frames, by Offset) *)
  Variable sort_frames : list (Z * list byte) -> list (Z * list byte).

  (* the packet-number loop of UnProtect: for i := 0; i < pnLen; i++ *)
  Fixpoint pn_loop (cnt : nat) (i : nat) (pnOffset : nat) (mask pk : list byte) (pn : Z)
    : Res (list byte * Z) :=
    match cnt with
    | O => Ok (pk, pn)
    | S c =>
        p <- index_at 33 (pnOffset + i) pk ;;
        m <- index_at 34 (1 + i) mask ;;
        let v := bxor p m in
        pn_loop c (S i) pnOffset mask (upd_byte (pnOffset + i) v pk)
                (Z.lor (Z.shiftl pn 8) (Z.of_N (b2n v)))
    end.

  (* PacketProtector.UnProtect(packet, pnOffset, pnMax) where packet = (buffer b, length n).
     Returns the heap after the in-place writes and the decrypted payload (None = error). *)
  Definition unprotect (legacy_check : bool) (ver : N) (dcid : list byte) (h : heap) (b : nat)
             (n : nat) (pnOffset : N) (pnMax : Z) : Res (heap * option (list byte)) :=
    let whole := heap_get h b in
    let pk := firstn n whole in
    (* current: if int64(len(packet)) < pnOffset+4+16
       before 3d877c6: if isLongHeader(packet[0]) && int64(len(packet)) < pnOffset+4+16 *)
    if (if legacy_check
        then match pk with p :: _ => 0 <? N.land (b2n p) 128 | [] => true end
        else true) && (N.of_nat (length pk) <? pnOffset + 4 + 16) then Ok (h, None) else
    let off := N.to_nat pnOffset in
    if negb (Nat.leb (off + 20) (length pk)) then Panic 30 else
    let sample := firstn 16 (skipn (off + 4) pk) in
    let mask := hp ver dcid sample in
    m0 <- index_at 31 0 mask ;;
    p0 <- index_at 32 0 pk ;;
    let p0' := if 0 <? N.land (b2n p0) 128 then bxor p0 (band m0 15) else bxor p0 (band m0 31) in
    let pk := upd_byte 0 p0' pk in
    let pnLen := N.to_nat (N.land (b2n p0') 3 + 1) in
    lp <- pn_loop pnLen 0 off mask pk 0%Z ;;
    let '(pk, pn) := lp in
    let pn := decode_pn pnMax pn (N.of_nat pnLen) in
    hdr <- slice_to 35 (off + pnLen) pk ;;
    payload <- slice_from 36 (off + pnLen) pk ;;
    let '(ok, out) := aead ver dcid pn payload hdr in
    if Nat.ltb (length payload) (length out) then Panic 37 else
    let pk := hdr ++ out ++ skipn (length out) payload in
    let h' := heap_set h b (pk ++ skipn n whole) in
    Ok (h', if ok then Some out else None).

  (* extractCryptoFrames: one loop iteration per call, fuel = bytes left *)
  Fixpoint extract_frames (fuel : nat) (r : list byte) (acc : list (Z * list byte))
    : Res (list (Z * list byte)) :=
    match r with
    | [] => Ok acc
    | _ :: _ =>
        match fuel with
        | O => Err EOther
        | S f =>
            ty <- rd_varint r ;; let '(typ, r) := ty in
            if (typ =? 0) || (typ =? 1) then extract_frames f r acc
            else if negb (typ =? 6) then Err EInvalid
            else
              ofs <- rd_varint r ;; let '(offset, r) := ofs in
              if 9223372036854775807 <? offset then Err EInvalid else
              dl <- rd_varint r ;; let '(dataLen, r) := dl in
              if maxCryptoFrameDataLen <? dataLen then Err ELimit
              else if N.of_nat (length r) <? dataLen then Err EShort
              else if Nat.ltb (length r) (N.to_nat dataLen) then Panic 40
              else extract_frames f (skipn (N.to_nat dataLen) r)
                                  (acc ++ [(Z.of_N offset, firstn (N.to_nat dataLen) r)])
        end
    end.

  Definition frame_end (f : Z * list byte) : Z := (fst f + Z.of_nat (length (snd f)))%Z.

  Fixpoint contiguous (prev : Z * list byte) (l : list (Z * list byte)) : bool :=
    match l with
    | [] => true
    | f :: t => (fst f =? frame_end prev)%Z && contiguous f t
    end.

  (* copy(data[off:], src) *)
  Definition copy_at (site : N) (off : Z) (src data : list byte) : Res (list byte) :=
    if ((off <? 0) || (Z.of_nat (length data) <? off))%Z then Panic site
    else let o := Z.to_nat off in
         let n := Nat.min (length src) (length data - o) in
         Ok (firstn o data ++ firstn n src ++ skipn (o + n) data).

  Fixpoint copy_all (fs : list (Z * list byte)) (data : list byte) : Res (list byte) :=
    match fs with
    | [] => Ok data
    | f :: t => d <- copy_at 42 (fst f) (snd f) data ;; copy_all t d
    end.

  (* assembleCryptoFrames: None = nil *)
  Definition assemble (frames : list (Z * list byte)) : Res (option (list byte)) :=
    match frames with
    | [] => Ok None
    | [f] => Ok (Some (snd f))
    | _ =>
        let fs := sort_frames frames in
        match fs with
        | [] => Ok None
        | f0 :: rest =>
            if negb (contiguous f0 rest) then Ok None else
            let last_f := last fs f0 in
            if (fst last_f <? 0)%Z then Ok None
            else if (maxCryptoPayloadLen <? fst last_f)%Z then Ok None
            else
              let e := frame_end last_f in
              if ((e <? 0) || (maxCryptoPayloadLen <? e))%Z then Ok None
              else if (e <? 0)%Z then Panic 41
              else d <- copy_all fs (repeat x00 (Z.to_nat e)) ;; Ok (Some d)
        end
    end.

  (* ReadCryptoPayload(packet) with packet = the whole buffer b of the heap.
     in_place = false: the current code (UnProtect runs on a fresh copy);
     in_place = true : the code before commit 0cd7efd (UnProtect ran on packet[:offset+Length]);
     legacy_check = true: the length check of UnProtect as it was before commit 3d877c6. *)
  Definition read_crypto_payload (legacy_check in_place : bool) (h : heap) (b : nat)
    : Res (heap * option (list byte)) :=
    let packet := heap_get h b in
    match parse_initial_header packet with
    | Panic s => Panic s
    | Err _ => Ok (h, None)
    | Ok (hd, offset) =>
        if negb ((h_version hd =? quic_v1) || (h_version hd =? quic_v2)) then Ok (h, None)
        else if (offset =? 0) || (h_length hd =? 0) then Ok (h, None)
        else if N.of_nat (length packet) <? offset + h_length hd then Ok (h, None)
        else
          let n := N.to_nat (offset + h_length hd) in
          pk <- slice_to 20 n packet ;;
          let '(h1, b1) := if in_place then (h, b) else heap_alloc h pk in
          up <- unprotect legacy_check (h_version hd) (h_dcid hd) h1 b1 n offset 2 ;;
          let '(h2, dec) := up in
          match dec with
          | None => Ok (h2, None)
          | Some pt =>
              match extract_frames (length pt) pt [] with
              | Panic s => Panic s
              | Err _ => Ok (h2, None)
              | Ok frs => d <- assemble frs ;; Ok (h2, d)
              end
          end
    end.

  Record udp_out := UdpOut { u_heap : heap; u_err : bool; u_addr : list byte }.

  (* Sniffer.UDP(data, reqAddr) with data = buffer b *)
  Definition sniff_udp (legacy_check in_place : bool) (h : heap) (b : nat) (addr : list byte)
    : Res udp_out :=
    rp <- read_crypto_payload legacy_check in_place h b ;;
    let '(h', pl) := rp in
    match pl with
    | None => Ok (UdpOut h' false addr)
    | Some pl =>
        match pl with
        | b0 :: _ :: _ :: _ :: _ =>
            if negb (b2n b0 =? 1) then Ok (UdpOut h' false addr) else
            match sni pl with
            | Some ((_ :: _) as name) =>
                match rewrite_addr name addr with
                | None => Ok (UdpOut h' true addr)
                | Some a' => Ok (UdpOut h' false a')
                end
            | _ => Ok (UdpOut h' false addr)
            end
        | _ => Ok (UdpOut h' false addr)
        end
    end.
End QUIC.

(* the sort the executable model uses: stable insertion sort by offset, which is what
   sort.Slice does for at most 12 elements (pdqsort's insertion-sort base case) and what any
   correct sort does when the offsets are pairwise distinct *)
Fixpoint insert_frame (f : Z * list byte) (l : list (Z * list byte)) : list (Z * list byte) :=
  match l with
  | [] => [f]
  | g :: t => if (fst f <? fst g)%Z then f :: g :: t else g :: insert_frame f t
  end.
Definition isort_frames (l : list (Z * list byte)) : list (Z * list byte) :=
  fold_left (fun acc f => insert_frame f acc) l [].
